#!/bin/sh
# usage: seed_eval_iso.sh <seed name, e.g. C06e> <check ids...>
# Like seed_eval.sh, but leaves /repo alone: the seeded change is applied in a scratch git worktree of /repo
# and a scratch copy of /verif runs the quick tier against it (VERIF_REPO).  Used while /repo is busy
# (a background sweep) and to evaluate several seeds at once.  Logs go to /verif/seeded/<seed>/runs.
SEED="$1"; shift
D=/verif/seeded/$SEED
W=$(mktemp -d /tmp/se-repo-$SEED.XXXX); V=$(mktemp -d /tmp/se-verif-$SEED.XXXX)
cleanup() { git -C /repo worktree remove --force "$W" 2>/dev/null; rm -rf "$W" "$V"; git -C /repo worktree prune; }
trap cleanup EXIT INT TERM
rmdir "$W"; git -C /repo worktree add -q --detach "$W" HEAD || exit 2
git -C "$W" apply "$D/patch.diff" || { echo "patch does not apply"; exit 2; }
rsync -a --exclude .git --exclude replays --exclude sweep-logs --exclude seeded /verif/ "$V/"
mkdir -p "$D/runs"
for ID in "$@"; do
  s=$(date +%s)
  VERIF_REPO="$W" "$V/scripts/check.sh" "$ID" quick > "$D/runs/$ID.log" 2>&1; rc=$?
  sigs=$(grep -E '^  sig=' "$D/runs/$ID.log" | sed 's/^  sig=//' | sort -u | head -4 | paste -sd';')
  echo "$SEED $ID exit=$rc $(( $(date +%s)-s ))s $sigs"
done
