#!/usr/bin/env python3
"""usage: seed_rows.py            appends to seeded/README.md one table row per seeded change that has no row yet
(from its meta.json: change, what it needs, which checks reported it, the detection note)."""
import glob, json, os, re
root = os.path.dirname(os.path.dirname(os.path.abspath(__file__)))
readme = os.path.join(root, "seeded", "README.md")
text = open(readme).read()
have = set(re.findall(r"^\| (C\d\d[a-z]) \|", text, re.M))
rows = []
for m in sorted(glob.glob(os.path.join(root, "seeded", "C???", "meta.json"))):
    j = json.load(open(m))
    if j["seed"] in have:
        continue
    runs = next((v for k, v in j.items() if k.startswith("checks_run_against_it")), {})
    caught = ", ".join(c for c, r in runs.items() if r.get("exit") == 1) or "-"
    esc = lambda s: s.replace("|", "\\|")
    rows.append(f"| {j['seed']} | {esc(j['change'])} | {esc(j['needs_to_manifest'])} | {caught} | {esc(j.get('detection', ''))} |")
if rows:
    open(readme, "w").write(text.rstrip("\n") + "\n" + "\n".join(rows) + "\n")
print(len(rows), "rows added")
