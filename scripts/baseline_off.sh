#!/bin/sh
# the repository's pinned suite with the verif guard OFF (same command as BASELINE.json, root module)
export GOFLAGS=-mod=mod GOPROXY=off
cd /repo && go test -json -vet=off -count=1 -timeout 25m . ./markdown ./cmd/gtree
