#!/bin/sh
# Runs gtree's whole test suite (not only the pinned 57) on a clean scratch copy of /repo's working tree
# (the tests create directories; leftovers in /repo make them fail).  Prints the failing tests.
export GOFLAGS=-mod=mod GOPROXY=off
S=$(mktemp -d /tmp/gtree-full.XXXXXX) || exit 2
trap 'rm -rf "$S"' EXIT
rsync -a --exclude '/root*/' --exclude '/.git' --exclude '/gtreetest' /repo/ "$S/"
cd "$S" && go test -vet=off -count=1 . ./markdown ./cmd/gtree 2>&1 | grep -E "^(--- FAIL|FAIL|ok|panic)" | head -40
