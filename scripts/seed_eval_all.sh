#!/bin/sh
# Re-evaluates every seeded change against the quick tier of the check(s) expected to catch it.
# usage: seed_eval_all.sh [pattern]      (e.g. 'C1?c')      Takes about an hour for all of them.
cd /verif || exit 2
for d in seeded/${1:-C*}; do
  [ -f "$d/patch.diff" ] || continue
  sd=$(basename "$d"); id=$(echo "$sd" | cut -c1-3)
  checks="$id"
  case "$sd" in C02b|C15c) checks="C10";; C12d) checks="C12 C10";; esac
  scripts/seed_eval.sh "$sd" $checks 2>&1 | grep -E "^$sd " | cut -c1-260
done
