#!/usr/bin/env python3
"""usage: seed_reeval.py <seed> "<detection note>" <check> [<check> ...]
Re-runs the quick tier of the listed checks against a kept seeded change (scripts/seed_eval_iso.sh: scratch worktree of
/repo, scratch copy of /verif) and refreshes the seed's meta.json (results of these checks, detection note)."""
import json, os, re, subprocess, sys
seed, note, checks = sys.argv[1], sys.argv[2], sys.argv[3:]
d = f"/verif/seeded/{seed}"
out = subprocess.run(["sh", "/verif/scripts/seed_eval_iso.sh", seed] + checks, capture_output=True, text=True).stdout
print(out.strip())
meta = json.load(open(f"{d}/meta.json"))
key = next((k for k in meta if k.startswith("checks_run_against_it")), "checks_run_against_it (scripts/seed_eval_iso.sh, quick tier, scratch worktree)")
runs = meta.setdefault(key, {})
for c in checks:
    t = open(f"{d}/runs/{c}.log", errors="replace").read()
    m = re.search(rf"^{seed} {c} exit=(\d+)", out, re.M)
    runs[c] = {"violations_reported": len(re.findall(r"^VIOLATION", t, re.M)),
               "signatures": sorted(set(re.findall(r"^  sig=(.*)$", t, re.M)))[:6],
               "exit": int(m.group(1)) if m else None}
if note:
    meta["detection"] = note
elif any(r.get("exit") == 1 for r in runs.values()):
    if meta.get("detection") in (None, "", "MISSED"):
        meta["detection"] = "caught"
json.dump(meta, open(f"{d}/meta.json", "w"), indent=1)
