#!/bin/sh
# usage: seed_eval.sh <seed name, e.g. C06a> <check ids...>
# Applies /verif/seeded/<seed>/patch.diff to /repo, runs the quick tier of the given checks, reverts.
SEED="$1"; shift
D=/verif/seeded/$SEED
git -C /repo diff --quiet || { echo "/repo is not clean"; exit 2; }
git -C /repo apply "$D/patch.diff" || { echo "patch does not apply"; exit 2; }
trap 'git -C /repo checkout -q -- . ; git -C /repo clean -fdq' EXIT INT TERM
mkdir -p "$D/runs"
for ID in "$@"; do
  s=$(date +%s)
  /verif/scripts/check.sh "$ID" quick > "$D/runs/$ID.log" 2>&1; rc=$?
  sigs=$(grep -E '^  sig=' "$D/runs/$ID.log" | sed 's/^  sig=//' | sort -u | head -4 | paste -sd';')
  echo "$SEED $ID exit=$rc $(( $(date +%s)-s ))s $sigs"
done
