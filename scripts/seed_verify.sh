#!/bin/sh
# usage: seed_verify.sh <ID> <variant dir>      e.g. seed_verify.sh C06 /tmp/seed-C06/a
# Confirms, in the scratch worktree /tmp/wt-<ID>, that the seeded change applies, compiles, passes the
# project's whole test suite, and that its demonstration fails with it and passes without it.
ID="$1"; DIR="$2"; WT="${3:-/tmp/wt-$ID}"
export GOFLAGS=-mod=mod GOPROXY=off
cd "$WT" || exit 2
git checkout -q -- . ; git clean -fdxq
run_demo() {
  if [ -f "$DIR/demo_test.go" ]; then
    cp "$DIR/demo_test.go" zz_demo_test.go
    names=$(grep -oE '^func (Test[A-Za-z0-9_]+)' zz_demo_test.go | awk '{print $2}' | paste -sd'|')
    timeout 300 go test -vet=off -count=1 -run "^($names)\$" . > "$DIR/demo.$1.log" 2>&1; rc=$?
    rm -f zz_demo_test.go
  elif [ -f "$DIR/demo.sh" ]; then
    timeout 300 sh "$DIR/demo.sh" > "$DIR/demo.$1.log" 2>&1; rc=$?
  else
    echo "no demo"; rc=99
  fi
  git clean -fdxq
  return $rc
}
run_demo without; r0=$?
git apply "$DIR/patch.diff" || { echo "patch does not apply"; exit 1; }
go build . ./markdown ./cmd/gtree && go build -tags tinywasm . || { echo "does not compile"; git checkout -q -- .; exit 1; }
go test -vet=off -count=1 . ./markdown > "$DIR/suite.log" 2>&1; rs=$?
git clean -fdxq
run_demo with; r1=$?
git checkout -q -- . ; git clean -fdxq
echo "$ID $(basename $DIR): demo-without=$r0 suite-with=$rs demo-with=$r1"
[ $r0 -eq 0 ] && [ $rs -eq 0 ] && [ $r1 -ne 0 ]
