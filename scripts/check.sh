#!/bin/sh
# usage: scripts/check.sh <ID> [quick|thorough] [--replay path]
# Rebuilds the driver against /repo's current working tree (build tag verif) and runs one property check.
# VERIF_REPO names another copy of the repository (used only to evaluate seeded changes in scratch
# worktrees while /repo itself is busy); the registered commands never set it.
ID="$1"; TIER="${2:-quick}"; shift; shift
OLDPWD_CALLER=$(pwd)
ROOT=$(cd "$(dirname "$0")/.." && pwd)
export VERIF_ROOT="$ROOT"
export GOPROXY=off
export VERIF_REPO="${VERIF_REPO:-/repo}"
export VERIF_TIER="$TIER"
S=$(mktemp -d /tmp/verif-check.XXXXXX) || exit 2
trap 'rm -rf "$S"' EXIT INT TERM
cd "$ROOT/harness" || exit 2
# the module file of this run lives in the scratch directory: nothing is written into the harness sources
sed "s#=> /repo\$#=> $VERIF_REPO#" go.mod > "$S/go.mod"
cp "$VERIF_REPO/go.sum" "$S/go.sum" 2>/dev/null
export GOFLAGS="-mod=mod -modfile=$S/go.mod"
if ! go build -tags verif -o "$S/driver" ./cmd/driver > "$S/build.log" 2>&1; then
  echo "MACHINERY-FAILURE property=$ID cannot build the harness against $VERIF_REPO:"; cat "$S/build.log"; exit 2
fi
# The driver (and its workers) run with the scratch directory as their working directory: whatever a misbehaving
# gtree creates relative to "." lands there and is removed with it, not in /verif.  A relative --replay path is
# resolved against the directory the script was called from.
if [ "$1" = "--replay" ] && [ -n "$2" ]; then
  case "$2" in /*) ;; *) set -- --replay "$OLDPWD_CALLER/$2" ;; esac
fi
mkdir -p "$S/cwd" && cd "$S/cwd" || exit 2
TMPDIR="$S" "$S/driver" "$ID" "$@"
