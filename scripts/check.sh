#!/bin/sh
# usage: scripts/check.sh <ID> [quick|thorough] [--replay path]
# Rebuilds the driver against /repo's current working tree (build tag verif) and runs one property check.
ID="$1"; TIER="${2:-quick}"; shift; shift
ROOT=$(cd "$(dirname "$0")/.." && pwd)
export VERIF_ROOT="$ROOT"
export GOFLAGS=-mod=mod GOPROXY=off
export VERIF_TIER="$TIER"
S=$(mktemp -d /tmp/verif-check.XXXXXX) || exit 2
trap 'rm -rf "$S"' EXIT INT TERM
cd "$ROOT/harness" || exit 2
cp /repo/go.sum go.sum 2>/dev/null
if ! go build -tags verif -o "$S/driver" ./cmd/driver > "$S/build.log" 2>&1; then
  echo "MACHINERY-FAILURE property=$ID cannot build the harness against /repo:"; cat "$S/build.log"; exit 2
fi
cd "$ROOT" || exit 2
TMPDIR="$S" "$S/driver" "$ID" "$@"
