#!/usr/bin/env python3
"""usage: seed_prompt.py <ID> <letterA> <letterB>
Prepares a seeding round for one property: creates the scratch worktree /tmp/wt-<ID> of /repo, writes
/tmp/seed-<ID>/PROPERTY.txt (statement, quantifier and the ideas already used for that property, taken
from the meta.json files of the seeds kept so far) and prints the prompt for the sub-agent (PROMPT.txt
with its placeholders filled in).  Nothing from /verif other than the property text reaches the agent."""
import json, os, subprocess, sys, glob

pid, la, lb = sys.argv[1], sys.argv[2], sys.argv[3]
root = os.path.dirname(os.path.dirname(os.path.abspath(__file__)))
prop = None
for line in open(os.path.join(root, "properties.jsonl")):
    p = json.loads(line)
    if p["id"] == pid:
        prop = p
wt, out = f"/tmp/wt-{pid}", f"/tmp/seed-{pid}"
os.makedirs(out, exist_ok=True)
if not os.path.isdir(wt):
    subprocess.check_call(["git", "-C", "/repo", "worktree", "add", "-q", "--detach", wt, "HEAD"])
used = []
for m in sorted(glob.glob(os.path.join(root, "seeded", pid + "?", "meta.json"))):
    j = json.load(open(m))
    used.append(f"- {j['change']} (needs: {j['needs_to_manifest']})")
with open(os.path.join(out, "PROPERTY.txt"), "w") as f:
    f.write(f"{prop['id']}: {prop['title']}\n\n{prop['statement']}\n\n")
    q = prop.get("quantifier", {})
    if q:
        f.write(f"Quantified over: {q.get('text','')}\n\n")
    f.write("Ideas already used by others (yours must be different in kind):\n" + "\n".join(used) + "\n")
    for extra in (os.path.join(root, "seeded", pid + ".notes"), os.path.join(root, "seeded", "ALL.notes")):
        if os.path.exists(extra):
            f.write("\n" + open(extra).read())
hint = ("a particular interleaving, a fault or cancellation at a particular point, a multi-step sequence of "
        "operations, an unusual input or rare option combination, or two cooperating edit sites that each look fine alone")
demo = ("either a Go test file demo_test.go (it will be copied into the repository root as zz_demo_test.go and run with "
        "`go test -vet=off -count=1 -run '^(TestNames)$' .`; add -race only if notes.md says so) or a demo.sh script run from the worktree root "
        "(exit status 0 = pass).")
t = open(os.path.join(root, "seeded", "PROMPT.txt")).read()
for k, v in {"@WT@": wt, "@OUT@": out, "@A@": la, "@B@": lb, "@HINT@": hint, "@DEMO@": demo}.items():
    t = t.replace(k, v)
print(t)
