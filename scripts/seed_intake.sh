#!/bin/sh
# usage: seed_intake.sh <ID> <letter> <round> "<change>" "<needs>" [checks...]
# Takes a seeded change delivered by a sub-agent in /tmp/seed-<ID>/<letter>/ :
#   1. confirms it in the scratch worktree /tmp/wt-<ID> (scripts/seed_verify.sh: applies, compiles in both build
#      variants, the project's whole suite passes, the demonstration passes without and fails with the change;
#      DEMO_RACE=1 runs the demonstration with -race),
#   2. copies it to /verif/seeded/<ID><letter>/,
#   3. runs the quick tier of the listed checks (default: <ID>) against it in an isolated worktree
#      (scripts/seed_eval_iso.sh; /repo is never touched),
#   4. writes meta.json.
ID="$1"; L="$2"; ROUND="$3"; CHANGE="$4"; NEEDS="$5"; shift 5
CHECKS="${*:-$ID}"
SRC=/tmp/seed-$ID/$L; SEED=$ID$L; D=/verif/seeded/$SEED
[ -f "$SRC/patch.diff" ] || { echo "$SEED: no patch"; exit 2; }
if [ -n "$DEMO_RACE" ]; then
  sed 's/go test -vet=off -count=1 -run/go test -race -vet=off -count=1 -run/' /verif/scripts/seed_verify.sh > /tmp/seed_verify_race.$$.sh
  sh /tmp/seed_verify_race.$$.sh "$ID" "$SRC" > "/tmp/seed-$ID/$L.verify.log" 2>&1; v=$?; rm -f /tmp/seed_verify_race.$$.sh
else
  sh /verif/scripts/seed_verify.sh "$ID" "$SRC" > "/tmp/seed-$ID/$L.verify.log" 2>&1; v=$?
fi
tail -1 "/tmp/seed-$ID/$L.verify.log"
if [ $v -ne 0 ]; then echo "$SEED: NOT CONFIRMED (see /tmp/seed-$ID/$L.verify.log)"; exit 1; fi
mkdir -p "$D/runs"
cp "$SRC/patch.diff" "$D/patch.diff"
[ -f "$SRC/notes.md" ] && cp "$SRC/notes.md" "$D/notes.md"
[ -f "$SRC/demo_test.go" ] && cp "$SRC/demo_test.go" "$D/demo_test.go.txt"
[ -f "$SRC/demo.sh" ] && cp "$SRC/demo.sh" "$D/demo.sh"
[ -d "$SRC/demo" ] && cp -r "$SRC/demo" "$D/demo"
sh /verif/scripts/seed_eval_iso.sh "$SEED" $CHECKS > "$D/runs/summary.txt" 2>&1
cat "$D/runs/summary.txt"
python3 - "$SEED" "$ID" "$ROUND" "$CHANGE" "$NEEDS" "$CHECKS" "${DEMO_RACE:-}" <<'EOF'
import json, os, re, sys
seed, pid, rnd, change, needs, checks, race = sys.argv[1:8]
d = f"/verif/seeded/{seed}"
runs = {}
for c in checks.split():
    p = f"{d}/runs/{c}.log"
    if not os.path.exists(p):
        continue
    t = open(p, errors="replace").read()
    sigs = sorted(set(re.findall(r"^  sig=(.*)$", t, re.M)))[:6]
    m = re.search(rf"^{seed} {c} exit=(\d+)", open(f"{d}/runs/summary.txt").read(), re.M)
    runs[c] = {"violations_reported": len(re.findall(r"^VIOLATION", t, re.M)), "signatures": sigs, "exit": int(m.group(1)) if m else None}
meta = {
    "seed": seed, "property": pid, "round": int(rnd), "change": change, "needs_to_manifest": needs,
    "confirmed_in_scratch_worktree": {
        "applies_and_compiles (default and tinywasm)": True, "existing_test_suite_passes_with_change": True,
        "demo_fails_with_change": True, "demo_passes_without_change": True,
        "command": "scripts/seed_verify.sh %s <dir> <worktree>%s" % (pid, " (demo run with go test -race)" if race else ""),
    },
    "checks_run_against_it (scripts/seed_eval_iso.sh, quick tier, scratch worktree)": runs,
    "detection": "caught" if any(r["exit"] == 1 for r in runs.values()) else "MISSED",
    "files": sorted(f for f in os.listdir(d) if f not in ("runs", "meta.json")),
}
json.dump(meta, open(f"{d}/meta.json", "w"), indent=1)
print(seed, meta["detection"], {c: (r["exit"], r["signatures"][:2]) for c, r in runs.items()})
EOF
