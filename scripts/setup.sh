#!/bin/sh
# offline setup: warm the Go build cache for the harness and parse every specification module
export GOFLAGS=-mod=mod GOPROXY=off
cd /verif/harness || exit 1
cp /repo/go.sum go.sum 2>/dev/null
S=$(mktemp -d /tmp/verif-setup.XXXXXX) || exit 1
trap 'rm -rf "$S"' EXIT
go build -tags verif -o "$S/driver" ./cmd/driver || exit 1
cp /verif/spec/*.tla "$S"/ && cd "$S" || exit 1
for m in *.tla; do
  case "$m" in *Proof.tla) continue;; esac   # proof modules EXTEND TLAPS (tlapm's library, not on SANY's path); tlapm parses them
  if ! tla-sany "$m" > sany.log 2>&1; then echo "SANY failed on $m"; cat sany.log; exit 1; fi
done
echo "setup ok"
