#!/usr/bin/env python3
"""Regenerates /verif/MANIFEST.json from the table below (one source of truth for the interface)."""
import json, os
ROOT = '/verif'
props = [json.loads(l)['id'] for l in open(f'{ROOT}/properties.jsonl')]

MC = "model_checking"
CHECKS = {
 'C01': dict(level=MC, ref='DESIGN.md 7/C01, 3.2-3.4',
   technique="TLA+ spec (MdLine/MdDoc/Render code-shaped vs Forest declarative) model-checked by TLC; every TLC state replayed into the real OutputFromMarkdown; recorded random calls validated by TLC (TraceDoc)",
   text="TLC exhausts every well-formed document up to the line bound (= every ordered forest with every pattern of repeated sibling names, incl. composite names) and checks that the code-shaped renderer (index equality, bottom-up parent walk) equals the declarative drawing rule; each of those states is replayed byte-exactly into the real library under several concretisations of names and branch strings, through both simple-mode printers; random documents far beyond the bound (60 nodes, depth 8, all spellings) are run on the real code and the recorded calls are validated against the specification by TLC.",
   note="Small-scope exhaustiveness + sampled large documents; concretisation pools are finite; the TLA+ transcription is bound to the code only through replay/trace validation (that binding is what is trusted)."),
 'C02': dict(level=MC, ref='DESIGN.md 7/C02, 3.3, 5',
   technique="TLA+ spec: declarative reading of documents (Forest.Analyze: verdict accept/reject/grey + first offending line) vs code-shaped generator (MdDoc), model-checked by TLC over every line sequence from a pool with all malformation classes; every state replayed into the real library in 5 output modes; random malformed documents validated by TLC (TraceDoc)",
   text="TLC exhausts every sequence of lines (quick 4, thorough 5) over a 16-line pool holding well-formed items and one representative of each malformation class, and checks RejectsMalformed (error at the first offending line), AcceptsWellFormed and NoSilentLoss on the code-shaped model; each state is replayed into text (both generators), JSON, YAML and walk: reject => non-nil error (format errors must quote the first offending row), accept => nil and exactly the declarative forest, grey zone => either, but nothing readable may be lost; random 40-node documents with 0-2 injected malformations are recorded and validated by TLC.",
   note="Three-valued oracle: documents the statement does not settle (DESIGN.md section 5) carry no accept/reject requirement. Massive mode is handed to C10's machinery."),
 'C04': dict(level=MC, ref='DESIGN.md 7/C04, 3.4',
   technique="TLA+ spec (ForestOf = positional copy of the node store vs Trie) model-checked by TLC; every forest replayed into the real encoders (From-Markdown both generators, From-Root) and decoded with encoding/json, yaml.v3, go-toml/v2 under hostile name concretisations",
   text="TLC exhausts every forest up to the bound over 4 names (trailing blank, leading '#', list-item look-alike) and checks that the structure handed to the encoders is the declarative forest; each forest is encoded by the real library as JSON, YAML and (single root) TOML through From-Markdown (iterator and slice generators) and From-Root, decoded with the decoders gtree itself links, and compared structurally (names, child order, nesting, null == []), under up to 25 hostile chunk concretisations (quotes, colons, hashes, backslashes, Unicode, control characters, YAML/TOML-special scalars).",
   note="The specification decides the structure; that a name survives quoting is observed on the listed pools only (third-party encoders are outside a TLA+ model)."),
 'C05': dict(level=MC, ref='DESIGN.md 7/C05, 3.4',
   technique="TLA+ spec (CodeWalk/WalkRootsStop code-shaped vs RuleWalk/StopAt declarative) model-checked by TLC; every state x every stop position replayed into WalkFromMarkdown, WalkFromRoot and WalkIterFromRoot; random walks validated by TLC (TraceDoc)",
   text="TLC exhausts every forest up to the bound and checks WalkMatchesRule and StopMatchesRule for every stop index; each state is replayed into the three walkers under several branch tuples: the recorded (Name, Branch, Row, Level, Path, HasChild) sequence must equal the specification's, Row must equal the line of the real text output, a callback error at visit k must give exactly k visits and be returned unchanged (==), an iterator break at k exactly k visits.",
   note="Names are single path elements (the property's premise). The From-Root part is serialised in the harness: concurrent use of the programmatic API is C13's subject."),
 'C15': dict(level=MC, ref='DESIGN.md 7/C15, 3.3',
   technique="TLA+ spec: SpellItem/sigma (notation family) with SpellingInvariance + ForestMatchesTrie model-checked by TLC; every spelled document replayed into the real library in 5 output modes; random spellings over the full product validated by TLC (TraceDoc)",
   text="TLC exhausts every item sequence up to the bound under 13 members of the notation family (each dimension varied on its own: unit of tab / 1-4 spaces / 2 tabs, bullet per line, heading roots, CRLF, blank and white-space-only lines at any position) and checks that every spelling reads back to the same items and the same forest; each spelled document is replayed byte-exactly through text (both generators), JSON, YAML and walk against the one declarative result, so any two spellings are compared with each other; the random driver samples the full product of the dimensions on 40-node documents.",
   note="Heading spelling requires names without leading/trailing blanks that do not start with '#' (premise made explicit in the spec). mkdir/verify agreement is covered through the forest (Fs layer) once C06-C08 are built."),
 'C17': dict(level=MC, ref='DESIGN.md 7/C17',
   technique="the same TLC state sets (MC_C01, MC_C02) replayed into two builds of gtree (default, and a worker process compiled with -tags tinywasm); decisions and bytes compared with each other and with the specification",
   text="The tinywasm files are a second implementation of the actions already specified (MdDoc with Gen=slice, Render, dry-run report); every state of C01's and C02's models (well-formed and malformed documents) is run through both builds in four modes (text, custom branch strings, JSON, dry-run + extension): same accept/reject decision (and the specification's), byte-identical output when accepted, and equality with the specification's rows / dry-run report.",
   note="The tinywasm variant is exercised as a native process built with the tag (not under a wasm runtime); YAML/TOML are not claimed for it."),
 'C12': dict(level=MC, ref='DESIGN.md 7/C12, 3.2',
   technique="TLA+ spec (MdLine/MdDoc totality over the FULL token alphabet) model-checked by TLC; every state replayed through every entry point x {simple, massive} in isolated worker processes (a panic in any goroutine kills the worker and is attributed to the input in flight); seeded raw-byte / mutation / over-long-line inputs, their accept/reject decision validated by TLC (TraceDoc)",
   text="TLC exhausts every document of at most 2 (thorough 3) lines of at most 2 tokens over the full 11-token alphabet (every degenerate input is a member by construction) and checks totality of the transcribed parser/generator, BlankOnlyIsEmpty and NoNilRoot; each state is run through 19 entry-point routes (output text/json/yaml/toml/dry-run, walk, mkdir, mkdir dry-run, verify; simple and massive) in worker processes with a per-call deadline: never a panic in any goroutine, never a hang, empty/blank-only input gives empty output, nothing created and nil; what tokens cannot express (invalid UTF-8, NUL, binary, 64 KiB+ lines, byte mutations of valid documents) is sampled with a seeded generator, and the decision of each sampled input is checked against the specification through its token abstraction.",
   note="Exhaustive over token documents, sampling over raw bytes. Crashes are observed at process level; hangs by a 30 s deadline per call."),
 'C03': dict(level=MC, ref='DESIGN.md 7/C03, 3.5',
   technique="TLA+ history machine (Api.tla: NewRoot/Add/Op with the package counter) model-checked by TLC with invariants HistoryIndependent, MarkdownEquivalent, NoDuplicateSiblings; every history replayed on the real API and compared with the specification and with the real From-Markdown call on the canonical spelling",
   text="TLC exhausts every order of NewRoot/Add calls (repeated Adds of existing names anywhere, several trees) followed by one operation of each kind on any node including nil and non-roots, and checks that the code-shaped result equals the declarative result of the tree's shape and the MdDoc/Render result of its canonical Markdown spelling; each history is re-executed on the real API: pointer identity of Add on an existing name, bytes/records of text, JSON/YAML/TOML and walk (callback and iterator form), each through the current function or its deprecated alias, sentinel errors via errors.Is with nothing written, and byte equality with the real From-Markdown call.",
   note="mkdir/verify through From-Root are compared in the filesystem layer (C06-C08). Replays hold a lock around the programmatic API (its concurrent use is C13)."),
 'C13': dict(level=MC, ref='DESIGN.md 7/C13, 3.5',
   technique="TLA+ history machine (Api.tla) model-checked by TLC: every interleaving of NewRoot/Add/operations up to the bound with invariant HistoryIndependent; every history replayed on the real API sequentially, then the same histories from 16 goroutines at once",
   text="TLC exhausts every history of at most 6 (thorough 7) calls over NewRoot, Add on any live node and any From-Root operation on any live root, with the package-level counter and its reset modelled; the state is the history, so each state is re-executed on the real API and the last result compared with the declarative function of the tree's shape (which includes: repeating an operation repeats its result, other trees built or processed in between do not matter); the histories ending in an operation are then executed free-running from 16 goroutines, each owning its trees. The as-built instantiation (index equality) is kept as MC_C13_asbuilt.cfg: TLC returns the 6-call counter-example that the replay reproduced before the fix.",
   note="Concurrent independent From-Markdown calls are exercised by all other replays (16 goroutines calling the library at once, each compared with the specification)."),
 'C06': dict(level=MC, ref='DESIGN.md 7/C06, 3.6',
   technique="TLA+ spec (Fs.tla: abstract OS with component-wise path resolution, token-level path.Clean/Join, code-shaped mkdir) model-checked by TLC against the declarative Expected(forest, exts) over filesystem histories; every operation state replayed in a real jail directory with full before/after snapshots",
   text="TLC exhausts forests up to the bound over plain names (incl. a dotted and an over-long name) x 5 extension lists (empty, suffix, whole name, overlapping, directory-looking) x initial targets (present, missing, a regular file) x an environment step pre-creating a root as file or directory x up to two mkdir calls, and checks C06_ExactlyTheTree, C06_ExistsUnchanged, C06_RefusalIsError, C06_Succeeds; each state's last call is performed by the real library (From-Markdown / From-Root / deprecated aliases) in a jail materialised from the model's filesystem and the recursive snapshot (path, kind, content) must equal the model's: exactly the tree with the right kinds, files empty, pre-existing entries byte-identical, ErrExistPath with nothing changed, OS refusal => error.",
   note="Linux-shaped OS model (ENOTDIR, ENAMETOOLONG, ENOENT resolution order); permissions, symlinks and concurrent external modification are not modelled; forests with equally named roots are outside the statement."),
 'C07': dict(level=MC, ref='DESIGN.md 7/C07, 3.6',
   technique="TLA+ spec (Fs.tla: staged path.Join/Clean on token paths, validatePath) model-checked by TLC with C07_Confined / C07_InvalidRejected over a hostile name alphabet at every node position; every state replayed in a jail three levels below a snapshotted scratch root, simple and massive",
   text="TLC exhausts forests up to the bound over {a, '.', '..', 'a/b', '/a', '../a'} at every node position x {From-Markdown, From-Root} x {dry-run, real} x extension lists x {target present, missing}; each is replayed on the real library in simple and massive mode: nothing outside the target may appear, change or vanish (whole scratch tree snapshotted), a hostile name must give an error and, without the massive option, an unchanged snapshot.",
   note="A root named '.' is not counted as hostile (io/fs accepts it as the directory itself). Checks run as root: permissions are never the guard."),
 'C08': dict(level=MC, ref='DESIGN.md 7/C08, 3.6',
   technique="TLA+ spec (Fs.tla code-shaped verifyRoot/handleErr vs declarative MissingOf/ExtraOf) model-checked by TLC over directory states produced by mkdir and environment steps; every verify state replayed in a jail, the error text parsed into the two documented lists and compared as sets",
   text="TLC exhausts forests up to the bound x directory states (Mkdir of the tree, 0-2 environment steps creating any node path or an extra entry at any depth as file or directory) x strict/non-strict and checks C08_VerdictIff, C08_Lists (first differing root: exactly its missing paths and, strict, exactly its extra entries), C08_ReadOnly, C08_FreshMkdirVerifies; each state is replayed with VerifyFromMarkdown and (single root) VerifyFromRoot / aliases: verdict, both lists and an unchanged snapshot.",
   note="Only existence is claimed for node paths (kind mismatches are a grey zone); equally named roots are outside the statement."),
 'C09': dict(level=MC, ref='DESIGN.md 7/C09, 3.6',
   technique="TLA+ spec (Fs.tla MkdirOp with dry flag, DryCounts vs the kinds MkdirOp creates on a fresh target) model-checked by TLC; every dry-run state replayed through the three dry-run routes x {simple, massive} with jail snapshots, the report compared with the real plain output per root + the model's counts, the counts with a real mkdir",
   text="TLC exhausts forests up to the bound (hostile names included) x 5 extension lists x {Mkdir-from-Markdown, Mkdir-from-root} dry-run and checks C09_DryTouchesNothing, C09_DryRejectsIffReal, C09_CountsPredictReal; each state is replayed through Mkdir-from-Markdown+dry-run, Mkdir-from-root+dry-run and Output+dry-run (the CLI route), simple and massive: snapshot unchanged, report = per-root plain tree text + '<dirs> directories, <files> files' (blocks compared as a multiset in massive mode), rejection iff hostile names, and the counts equal what a real Mkdir with the same extensions creates in a fresh jail.",
   note="Colour is switched off (NO_COLOR) so that report bytes are comparable."),
 'C14': dict(level=MC, ref='DESIGN.md 7/C14, 3.8',
   technique="TLA+ spec (Io.tla: what bufio.Scanner delivers when the reader fails after k tokens; write-call sequences and error reactions per sink) model-checked by TLC with ReaderErrReturned and NilMeansAllAccepted; every state replayed in worker processes with a fault-injecting reader (every byte offset) and writer (every Write call index, refusing nothing/half with an error)",
   text="TLC exhausts forests up to the bound x {reader failure after every token offset, writer refusal at every call index up to one past the last, fail and short} x sink kinds; each read state is replayed at every byte offset inside its token through 18 From-Markdown routes (text, JSON, YAML, TOML, dry-run, walk, verify, mkdir dry-run; iterator/slice generators; simple and massive): the returned error must satisfy errors.Is(err, readerErr); each write state enumerates the call indices from the real fault-free run on 17 output routes (From-Markdown and From-Root, simple and massive): the call may return nil only if no Write was refused or cut and the accepted bytes equal the fault-free output (up to root order in massive mode).",
   note="Writers that return n < len(p) without an error break the io.Writer contract and are not exercised. For verify the missing target is a second fault: only a non-nil error is required there."),
 'C11': dict(level=MC, ref='DESIGN.md 7/C11, 3.7, 4.1, 4.2',
   technique="TLA+ spec of the massive-mode pipeline (Pipeline.tla: every hand-over point an action, coarse select semantics, named as-built deviations) model-checked by TLC for NoStuck / CancelMeansCtxErr / FaultMeansErr over all interleavings; real calls under perturbed schedules checked for return, leaked goroutines and ctx error; recorded hook traces validated against the spec by TLC (TracePipeline.tla, Layer M + Layer P); TLC's as-built counter-example schedules forced on the real goroutines with a gate; Go race detector as monitor for shared memory",
   text="TLC exhausts every interleaving of splitter, 2 workers per stage, closers, the error handlers, main and a cancelling environment for 2 (thorough 3) blocks, every fate vector, reader failure at every block boundary, all six sinks and both entry points: no state without a successor unless every goroutine has finished (returns, no leak), cancelled => ctx error, fault => error. The real pipeline is then run for every sink with every fate vector up to 3-4 blocks, 5/8/12-block documents failing in most blocks, reader failures, cancellation before the call and at input offsets, From-Root feeders under a cancelled context, with GOMAXPROCS 1..16, seeded delays at the hook points and yielding reader/writer/callbacks: it must return within the deadline, leave no goroutine with a gtree frame after settling, and return the context's error when cancelled before the input was read. A sample of the recorded hook traces (global sequence number inside the hook) is replayed by TLC against Pipeline.tla's actions with LeakFree / ResultAgrees evaluated at every step; the two schedules TLC returns for the as-built model are forced with a plan gate (220 runs); the same calls are repeated in a worker built with -race.",
   note="'no goroutine remains once it has returned' is checked after a settling period of 150 ms (workers may still be winding down when a failed or cancelled call returns). The spec decides race freedom only through the real race detector's observations; coarse select semantics over-approximate a parked goroutine by one that has not entered its select yet."),
 'C10': dict(level=MC, ref='DESIGN.md 7/C10, 3.7',
   technique="TLA+ specs Pipeline.tla (BlockIntegrity, NoDupNoGhost, FaultMeansErr, NilMeansComplete over all interleavings) and ParserShared.tla (transcribed splitter + shared parser: SplitAgreement, ParseAgreement for every interleaving of 2 workers) model-checked by TLC; TLC-generated documents (spelling model, malformed-line pool) replayed in simple and massive mode under perturbed schedules and compared with the specification's per-root blocks; open findings reproduced with a forced schedule",
   text="TLC exhausts the pipeline's interleavings for every sink (each root block comes out whole, exactly once, only if it did not fail; nil iff nothing failed) and the generator stage with its shared parser on documents in one notation (every interleaving yields the sequential generator's forest and verdict); documents of MC_C15 (every notation incl. # roots, leading blank lines, CRLF), MC_C02 (malformed lines at every position) and MC_C01 are then run through text, JSON, YAML, dry-run, walk, mkdir and verify in both modes with GOMAXPROCS 1..16, seeded delays at hook points and yielding reader/writer/callback: error iff simple mode (and iff the specification where it settles the case), massive output a permutation of the specification's per-root blocks with each block in one piece, same multiset of decoded roots, callback order preserved inside a root, same directory snapshot, same verdict.",
   note="mkdir/verify are compared for forests with distinct root names only. Documents that mix notations (two open findings, KNOWN_FINDINGS) are reported as KNOWN-FINDING: the shared parser makes them schedule-dependent and the repair is not a small patch."),
}

NOT_YET = "check not built yet (framework under construction; see DESIGN.md section 7)"

def main():
    checks = []
    for pid in props:
        if pid not in CHECKS: continue
        c = CHECKS[pid]
        checks.append({
          "property_id": pid,
          "quick_cmd": f"scripts/check.sh {pid} quick",
          "thorough_cmd": f"scripts/check.sh {pid} thorough",
          "evidence_file": f"/verif/evidence/{pid}.json",
          "replay_cmd_template": f"scripts/check.sh {pid} quick --replay {{path}}",
          "engine": "tlc+replay",
          "level_claimed": {"category": c['level'], "text": c['text'], "design_ref": c['ref']},
          "level_note": c['note'],
          "technique": c['technique'],
        })
    hooks_commits = []
    hc = f'{ROOT}/HOOK_COMMITS'
    if os.path.exists(hc):
        hooks_commits = [l.split()[0] for l in open(hc) if l.strip() and not l.startswith('#')]
    m = {
      "version": 1,
      "setup_cmd": "sh scripts/setup.sh",
      "hooks": {"guard": "verif", "enable": "go build -tags verif (scripts/check.sh builds the harness driver against /repo with it)",
                "baseline_off_cmd": "sh /verif/scripts/baseline_off.sh", "source_commits": hooks_commits, "add_only": True},
      "engines": [{"name": "tlc+replay", "path": "/verif/harness", "serves_properties": [c["property_id"] for c in checks],
                   "kind_free_text": "explicit TLA+ specification suite (/verif/spec) checked by TLC; Go harness replays TLC states/behaviours into the real library and validates recorded traces with TLC"}],
      "checks": checks,
      "not_applicable": [{"property_id": p, "reason": NA.get(p, NOT_YET)} for p in props if p not in CHECKS],
      "notes": "exit 0 = held (KNOWN-FINDING lines allowed), exit 1 = VIOLATION reproduced on the real code, exit 2 = machinery failure (nothing concluded). VERIF_SEED seeds concretisations and random drivers.",
    }
    json.dump(m, open(f'{ROOT}/MANIFEST.json', 'w'), indent=1)
    print("checks:", [c['property_id'] for c in checks], "not_applicable:", [x['property_id'] for x in m['not_applicable']])

NA = {}
if __name__ == '__main__':
    main()
