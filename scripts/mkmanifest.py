#!/usr/bin/env python3
"""Regenerates /verif/MANIFEST.json from the table below (one source of truth for the interface)."""
import json, os
ROOT = '/verif'
props = [json.loads(l)['id'] for l in open(f'{ROOT}/properties.jsonl')]

MC = "model_checking"
CHECKS = {
 'C01': dict(level=MC, ref='DESIGN.md 7/C01, 3.2-3.4',
   technique="TLA+ spec (MdLine/MdDoc/Render code-shaped vs Forest declarative) model-checked by TLC; every TLC state replayed into the real OutputFromMarkdown; recorded random calls validated by TLC (TraceDoc)",
   text="TLC exhausts every well-formed document up to the line bound (= every ordered forest with every pattern of repeated sibling names, incl. composite names) and checks that the code-shaped renderer (index equality, bottom-up parent walk) equals the declarative drawing rule; each of those states is replayed byte-exactly into the real library under several concretisations of names and branch strings, through both simple-mode printers; random documents far beyond the bound (60 nodes, depth 8, all spellings) are run on the real code and the recorded calls are validated against the specification by TLC.",
   note="Small-scope exhaustiveness + sampled large documents; concretisation pools are finite; the TLA+ transcription is bound to the code only through replay/trace validation (that binding is what is trusted)."),
}

NOT_YET = "check not built yet (framework under construction; see DESIGN.md section 7)"

def main():
    checks = []
    for pid in props:
        if pid not in CHECKS: continue
        c = CHECKS[pid]
        checks.append({
          "property_id": pid,
          "quick_cmd": f"scripts/check.sh {pid} quick",
          "thorough_cmd": f"scripts/check.sh {pid} thorough",
          "evidence_file": f"/verif/evidence/{pid}.json",
          "replay_cmd_template": f"scripts/check.sh {pid} quick --replay {{path}}",
          "engine": "tlc+replay",
          "level_claimed": {"category": c['level'], "text": c['text'], "design_ref": c['ref']},
          "level_note": c['note'],
          "technique": c['technique'],
        })
    hooks_commits = []
    hc = f'{ROOT}/HOOK_COMMITS'
    if os.path.exists(hc):
        hooks_commits = [l.split()[0] for l in open(hc) if l.strip() and not l.startswith('#')]
    m = {
      "version": 1,
      "setup_cmd": "sh scripts/setup.sh",
      "hooks": {"guard": "verif", "enable": "go build -tags verif (scripts/check.sh builds the harness driver against /repo with it)",
                "baseline_off_cmd": "sh /verif/scripts/baseline_off.sh", "source_commits": hooks_commits, "add_only": True},
      "engines": [{"name": "tlc+replay", "path": "/verif/harness", "serves_properties": [c["property_id"] for c in checks],
                   "kind_free_text": "explicit TLA+ specification suite (/verif/spec) checked by TLC; Go harness replays TLC states/behaviours into the real library and validates recorded traces with TLC"}],
      "checks": checks,
      "not_applicable": [{"property_id": p, "reason": NA.get(p, NOT_YET)} for p in props if p not in CHECKS],
      "notes": "exit 0 = held (KNOWN-FINDING lines allowed), exit 1 = VIOLATION reproduced on the real code, exit 2 = machinery failure (nothing concluded). VERIF_SEED seeds concretisations and random drivers.",
    }
    json.dump(m, open(f'{ROOT}/MANIFEST.json', 'w'), indent=1)
    print("checks:", [c['property_id'] for c in checks], "not_applicable:", [x['property_id'] for x in m['not_applicable']])

NA = {}
if __name__ == '__main__':
    main()
