#!/usr/bin/env python3
# prints the table of DESIGN.md section 18 from the evidence files of the last runs
import json, glob, os
rows = []
for f in sorted(glob.glob(os.path.join(os.path.dirname(__file__), '..', 'evidence', 'C*.json'))):
    e = json.load(open(f)); c = e['coverage']
    g = lambda k: c.get(k) or 0
    rows.append("| %s | %s | %d | %d | %d | %d | %.0f s |" % (e['property_id'], e['tier'], g('states'), g('real_calls'),
        g('traces_validated_against_impl'), g('drift_traces') + g('drift_option_states') + g('drift_states'), e.get('wall_s', 0)))
print("| property | tier | TLC distinct states (all models of the check) | real calls | trace records validated by TLC | drift | wall |")
print("|---|---|---|---|---|---|---|")
print("\n".join(rows))
