#!/bin/sh
# usage: scripts/sweep.sh [quick|thorough] [seed] ["C01 C02 ..."]   - every (or the listed) check once, one summary line each
ROOT=$(cd "$(dirname "$0")/.." && pwd)
TIER="${1:-quick}"; export VERIF_SEED="${2:-0}"
mkdir -p "$ROOT/sweep-logs"
LIST="${3:-C01 C02 C03 C04 C05 C06 C07 C08 C09 C10 C11 C12 C13 C14 C15 C16 C17}"
for p in $LIST; do
  s=$(date +%s); "$ROOT/scripts/check.sh" $p $TIER > "$ROOT/sweep-logs/$p.$TIER.log" 2>&1; rc=$?
  echo "$p tier=$TIER seed=$VERIF_SEED exit=$rc $(( $(date +%s)-s ))s $(grep -cE '^VIOLATION' "$ROOT/sweep-logs/$p.$TIER.log")v $(grep -cE '^KNOWN-FINDING' "$ROOT/sweep-logs/$p.$TIER.log")k $(grep -cE '^SPEC-DRIFT' "$ROOT/sweep-logs/$p.$TIER.log")d $(grep -cE '^MACHINERY' "$ROOT/sweep-logs/$p.$TIER.log")m"
done
