package real

import (
	"runtime"
	"strings"
	"time"
)

// GtreeGoroutines returns one signature per live goroutine (other than the caller) that has a frame in
// package gtree: "<top gtree function> [<wait reason>]".
func GtreeGoroutines() []string {
	buf := make([]byte, 1<<20)
	for {
		n := runtime.Stack(buf, true)
		if n < len(buf) {
			buf = buf[:n]
			break
		}
		buf = make([]byte, 2*len(buf))
	}
	var sigs []string
	for i, g := range strings.Split(string(buf), "\n\n") {
		if i == 0 {
			continue // the calling goroutine
		}
		lines := strings.Split(g, "\n")
		if len(lines) == 0 {
			continue
		}
		head := lines[0] // goroutine 12 [chan send]:
		reason := ""
		if a := strings.Index(head, "["); a >= 0 {
			if b := strings.Index(head[a:], "]"); b >= 0 {
				reason = head[a+1 : a+b]
				if c := strings.Index(reason, ","); c >= 0 {
					reason = reason[:c]
				}
			}
		}
		top := ""
		for _, l := range lines[1:] {
			if strings.HasPrefix(l, "github.com/ddddddO/gtree.") {
				top = strings.TrimPrefix(l, "github.com/ddddddO/gtree.")
				if p := strings.LastIndex(top, "("); p >= 0 {
					top = top[:p]
				}
				break
			}
		}
		if top != "" {
			sigs = append(sigs, top+" ["+reason+"]")
		}
	}
	return sigs
}

// SettledLeaks waits (up to maxWait) for gtree goroutines to finish and returns those that did not.
func SettledLeaks(maxWait time.Duration) []string {
	deadline := time.Now().Add(maxWait)
	for {
		s := GtreeGoroutines()
		if len(s) == 0 || time.Now().After(deadline) {
			return s
		}
		time.Sleep(2 * time.Millisecond)
	}
}
