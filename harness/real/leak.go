package real

import (
	"runtime"
	"strings"
	"time"
)

// GtreeGoroutines returns one signature per live goroutine (other than the caller) that has a frame in
// package gtree: "<top gtree function> [<wait reason>]", keyed by goroutine id.
func GtreeGoroutines() map[string]string {
	buf := make([]byte, 1<<20)
	for {
		n := runtime.Stack(buf, true)
		if n < len(buf) {
			buf = buf[:n]
			break
		}
		buf = make([]byte, 2*len(buf))
	}
	sigs := map[string]string{}
	for i, g := range strings.Split(string(buf), "\n\n") {
		if i == 0 {
			continue // the calling goroutine
		}
		lines := strings.Split(g, "\n")
		if len(lines) == 0 {
			continue
		}
		head := lines[0] // goroutine 12 [chan send]:
		reason := ""
		if a := strings.Index(head, "["); a >= 0 {
			if b := strings.Index(head[a:], "]"); b >= 0 {
				reason = head[a+1 : a+b]
				if c := strings.Index(reason, ","); c >= 0 {
					reason = reason[:c]
				}
			}
		}
		top := ""
		for _, l := range lines[1:] {
			if strings.HasPrefix(l, "github.com/ddddddO/gtree.") {
				top = strings.TrimPrefix(l, "github.com/ddddddO/gtree.")
				if p := strings.LastIndex(top, "("); p >= 0 {
					top = top[:p]
				}
				break
			}
		}
		if top != "" {
			id := strings.TrimPrefix(head, "goroutine ")
			if sp := strings.Index(id, " "); sp >= 0 {
				id = id[:sp]
			}
			sigs[id] = top + " [" + reason + "]"
		}
	}
	return sigs
}

// SettledLeaks waits (up to maxWait) for the gtree goroutines that were not alive `before` to finish
// and returns the signatures of those that did not.
func SettledLeaks(before map[string]string, maxWait time.Duration) []string {
	deadline := time.Now().Add(maxWait)
	for {
		var left []string
		for id, sig := range GtreeGoroutines() {
			if _, old := before[id]; !old {
				left = append(left, sig)
			}
		}
		if len(left) == 0 || time.Now().After(deadline) {
			return left
		}
		time.Sleep(2 * time.Millisecond)
	}
}
