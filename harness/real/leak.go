package real

import (
	"runtime"
	"sort"
	"strings"
	"time"
)

// GtreeGoroutines returns one signature per live goroutine (other than the caller) that has a frame in
// package gtree: "<top gtree function> [<wait reason>]", keyed by goroutine id.
func GtreeGoroutines() map[string]string {
	buf := make([]byte, 1<<20)
	for {
		n := runtime.Stack(buf, true)
		if n < len(buf) {
			buf = buf[:n]
			break
		}
		buf = make([]byte, 2*len(buf))
	}
	sigs := map[string]string{}
	for i, g := range strings.Split(string(buf), "\n\n") {
		if i == 0 {
			continue // the calling goroutine
		}
		lines := strings.Split(g, "\n")
		if len(lines) == 0 {
			continue
		}
		head := lines[0] // goroutine 12 [chan send]:
		reason := ""
		if a := strings.Index(head, "["); a >= 0 {
			if b := strings.Index(head[a:], "]"); b >= 0 {
				reason = head[a+1 : a+b]
				if c := strings.Index(reason, ","); c >= 0 {
					reason = reason[:c]
				}
			}
		}
		top := ""
		for _, l := range lines[1:] {
			if strings.HasPrefix(l, "github.com/ddddddO/gtree.") {
				top = strings.TrimPrefix(l, "github.com/ddddddO/gtree.")
				if p := strings.LastIndex(top, "("); p >= 0 {
					top = top[:p]
				}
				break
			}
		}
		if top != "" {
			id := strings.TrimPrefix(head, "goroutine ")
			if sp := strings.Index(id, " "); sp >= 0 {
				id = id[:sp]
			}
			sigs[id] = top + " [" + reason + "]"
		}
	}
	return sigs
}

// blockedState: a goroutine in this state makes no progress until another goroutine acts; anything else
// (runnable, running, syscall, sleep, IO wait, preempted, ...) is a goroutine that is still on its way
func blockedState(sig string) bool {
	a := strings.LastIndex(sig, "[")
	if a < 0 {
		return false
	}
	st := strings.TrimSuffix(sig[a+1:], "]")
	// ("coroutine": the parked half of an iter.Pull pair, which only its creator can resume)
	for _, p := range []string{"chan receive", "chan send", "select", "semacquire", "sync.", "coroutine"} {
		if strings.HasPrefix(st, p) {
			return true
		}
	}
	return false
}

// SettledLeaks waits for the gtree goroutines that were not alive `before` to finish and returns the
// signatures of those that did not. The verdict does not depend on how fast the machine is: goroutines
// count as left behind only when, `settle` after the call has returned, every one of them is blocked and the
// same set was blocked at two looks `settle` apart (nobody is left who could release them). As long as one of
// them is runnable, running, sleeping or in a system call the call is still winding down and the wait goes
// on, up to `hard`; unsettled reports that even then they were still moving (no verdict).
func SettledLeaks(before map[string]string, settle, hard time.Duration) (left []string, unsettled bool) {
	start := time.Now()
	var stableSince time.Time
	prev := ""
	for {
		left = left[:0]
		var ids []string
		allBlocked := true
		for id, sig := range GtreeGoroutines() {
			if _, old := before[id]; !old {
				left = append(left, sig)
				ids = append(ids, id+sig)
				if !blockedState(sig) {
					allBlocked = false
				}
			}
		}
		if len(left) == 0 {
			return nil, false
		}
		now := time.Now()
		if allBlocked {
			sort.Strings(ids)
			key := strings.Join(ids, "|")
			if key != prev {
				prev, stableSince = key, now
			}
			if now.Sub(start) >= settle && now.Sub(stableSince) >= settle {
				return left, false
			}
		} else {
			prev = ""
		}
		if now.Sub(start) > hard {
			return left, !allBlocked
		}
		time.Sleep(2 * time.Millisecond)
	}
}
