package real

import (
	"bytes"
	"encoding/json"
	"errors"
	"io"

	toml "github.com/pelletier/go-toml/v2"
	"gopkg.in/yaml.v3"
)

// DTree is a decoded {value, children} record.
type DTree struct {
	Value    string   `json:"value" yaml:"value" toml:"value"`
	Children []*DTree `json:"children" yaml:"children" toml:"children"`
}

// DecodeJSON decodes a stream of JSON values (one per root).
func DecodeJSON(out string) ([]*DTree, error) {
	dec := json.NewDecoder(bytes.NewReader([]byte(out)))
	dec.DisallowUnknownFields()
	var roots []*DTree
	for {
		var t DTree
		err := dec.Decode(&t)
		if errors.Is(err, io.EOF) {
			return roots, nil
		}
		if err != nil {
			return roots, err
		}
		roots = append(roots, &t)
	}
}

// DecodeYAML decodes a stream of YAML documents.
func DecodeYAML(out string) ([]*DTree, error) {
	dec := yaml.NewDecoder(bytes.NewReader([]byte(out)))
	dec.KnownFields(true)
	var roots []*DTree
	for {
		var t DTree
		err := dec.Decode(&t)
		if errors.Is(err, io.EOF) {
			return roots, nil
		}
		if err != nil {
			return roots, err
		}
		roots = append(roots, &t)
	}
}

// DecodeTOML decodes one TOML document (single root).
func DecodeTOML(out string) ([]*DTree, error) {
	var t DTree
	dec := toml.NewDecoder(bytes.NewReader([]byte(out)))
	dec.DisallowUnknownFields()
	if err := dec.Decode(&t); err != nil {
		return nil, err
	}
	return []*DTree{&t}, nil
}
