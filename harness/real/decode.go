package real

import (
	"bytes"
	"encoding/json"
	"errors"
	"fmt"
	"io"

	toml "github.com/pelletier/go-toml/v2"
	"gopkg.in/yaml.v3"
)

// DTree is a decoded {value, children} record.
type DTree struct {
	Value    string   `json:"value" yaml:"value" toml:"value"`
	Children []*DTree `json:"children" yaml:"children" toml:"children"`
}

// DecodeJSON decodes a stream of JSON values (one per root).
func DecodeJSON(out string) ([]*DTree, error) {
	dec := json.NewDecoder(bytes.NewReader([]byte(out)))
	dec.DisallowUnknownFields()
	var roots []*DTree
	for {
		var t DTree
		err := dec.Decode(&t)
		if errors.Is(err, io.EOF) {
			return roots, nil
		}
		if err != nil {
			return roots, err
		}
		roots = append(roots, &t)
	}
}

// yamlNamesAreStrings: what a GENERIC decoder makes of the stream (documents decoded into `any`): every `value` must
// come out as a Go string (a name spelled like null, a boolean, a number or a timestamp has to be quoted by the
// encoder; decoding into a string field, as DecodeYAML does below, would hide an unquoted `true` or `123`).
func yamlNamesAreStrings(out string) error {
	dec := yaml.NewDecoder(bytes.NewReader([]byte(out)))
	for {
		var doc any
		err := dec.Decode(&doc)
		if errors.Is(err, io.EOF) {
			return nil
		}
		if err != nil {
			return err
		}
		var walk func(v any) error
		walk = func(v any) error {
			switch x := v.(type) {
			case map[string]any:
				if val, ok := x["value"]; ok {
					if _, isStr := val.(string); !isStr {
						return fmt.Errorf("a generic YAML decoder reads a name as %T (%v), not as a string", val, val)
					}
				}
				for _, c := range x {
					if err := walk(c); err != nil {
						return err
					}
				}
			case []any:
				for _, c := range x {
					if err := walk(c); err != nil {
						return err
					}
				}
			}
			return nil
		}
		if err := walk(doc); err != nil {
			return err
		}
	}
}

// DecodeYAML decodes a stream of YAML documents.
func DecodeYAML(out string) ([]*DTree, error) {
	if err := yamlNamesAreStrings(out); err != nil {
		return nil, err
	}
	dec := yaml.NewDecoder(bytes.NewReader([]byte(out)))
	dec.KnownFields(true)
	var roots []*DTree
	for {
		var t DTree
		err := dec.Decode(&t)
		if errors.Is(err, io.EOF) {
			return roots, nil
		}
		if err != nil {
			return roots, err
		}
		roots = append(roots, &t)
	}
}

// DecodeTOML decodes one TOML document (single root).
func DecodeTOML(out string) ([]*DTree, error) {
	var t DTree
	dec := toml.NewDecoder(bytes.NewReader([]byte(out)))
	dec.DisallowUnknownFields()
	if err := dec.Decode(&t); err != nil {
		return nil, err
	}
	return []*DTree{&t}, nil
}
