// Package real calls the real gtree library (built from /repo's working tree) and projects results
// onto the observables the specification talks about.
package real

import (
	"bytes"
	"context"
	"errors"
	"fmt"
	"io"
	"io/fs"
	"iter"
	"os"
	"path/filepath"
	"runtime/debug"
	"sort"
	"strings"
	"time"

	"github.com/ddddddO/gtree"
)

// Outcome of one library call.
type Outcome struct {
	Out      string
	Err      error
	Panic    string // non-empty if the call panicked in the calling goroutine
	TimedOut bool
}

func (o Outcome) ErrString() string {
	if o.Err == nil {
		return ""
	}
	return o.Err.Error()
}

// Class projects an outcome onto {"ok","err","panic","hang"}.
func (o Outcome) Class() string {
	switch {
	case o.TimedOut:
		return "hang"
	case o.Panic != "":
		return "panic"
	case o.Err != nil:
		return "err"
	}
	return "ok"
}

const CallDeadline = 20 * time.Second

// Guard runs f with panic recovery and a deadline.
func Guard(f func() error) (oc Outcome) {
	done := make(chan Outcome, 1)
	go func() {
		var o Outcome
		defer func() {
			if r := recover(); r != nil {
				o.Panic = fmt.Sprintf("%v\n%s", r, debug.Stack())
			}
			done <- o
		}()
		o.Err = f()
	}()
	select {
	case o := <-done:
		return o
	case <-time.After(CallDeadline):
		return Outcome{TimedOut: true}
	}
}

type Branches struct{ LD, LI, MD, MI string }

func (b *Branches) Opts() []gtree.Option {
	if b == nil {
		return nil
	}
	return []gtree.Option{gtree.WithBranchFormatLastNode(b.LD, b.LI), gtree.WithBranchFormatIntermedialNode(b.MD, b.MI)}
}

// OutputMD runs OutputFromMarkdown.
func OutputMD(doc string, opts ...gtree.Option) Outcome {
	var buf bytes.Buffer
	o := Guard(func() error { return gtree.OutputFromMarkdown(&buf, strings.NewReader(doc), opts...) })
	o.Out = buf.String()
	return o
}

// OutputMDAlias runs the deprecated Output alias.
func OutputMDAlias(doc string, opts ...gtree.Option) Outcome {
	var buf bytes.Buffer
	o := Guard(func() error { return gtree.Output(&buf, strings.NewReader(doc), opts...) })
	o.Out = buf.String()
	return o
}

// WalkRec is the projection of a *gtree.WalkerNode.
type WalkRec struct {
	Name, Branch, Row, Path string
	Level                   uint
	HasChild                bool
}

// reread: a visit hands out the facts of one node; a caller may keep the *WalkerNode and read it when the walk is
// over (collect the nodes, then print them).  If a node kept from visit i then answers differently, the record of
// that visit is replaced by a description of the change, which no specification row equals.
func reread(recs []WalkRec, kept []*gtree.WalkerNode) {
	for i, wn := range kept {
		if i >= len(recs) || wn == nil {
			continue
		}
		if now := recOf(wn); now != recs[i] {
			recs[i].Row = fmt.Sprintf("<the node handed to visit %d said Row=%q Path=%q Level=%d when visited and says Row=%q Path=%q Level=%d after the walk>",
				i+1, recs[i].Row, recs[i].Path, recs[i].Level, now.Row, now.Path, now.Level)
		}
	}
}

func recOf(wn *gtree.WalkerNode) WalkRec {
	return WalkRec{Name: wn.Name(), Branch: wn.Branch(), Row: wn.Row(), Path: wn.Path(), Level: wn.Level(), HasChild: wn.HasChild()}
}

// WalkMD runs WalkFromMarkdown; the callback fails with failErr at the failAt-th visit (1-based, 0 = never).
func WalkMD(doc string, failAt int, failErr error, opts ...gtree.Option) ([]WalkRec, Outcome) {
	var recs []WalkRec
	var kept []*gtree.WalkerNode
	o := Guard(func() error {
		return gtree.WalkFromMarkdown(strings.NewReader(doc), func(wn *gtree.WalkerNode) error {
			recs = append(recs, recOf(wn))
			kept = append(kept, wn)
			if failAt > 0 && len(recs) == failAt {
				return failErr
			}
			return nil
		}, opts...)
	})
	reread(recs, kept)
	return recs, o
}

func WalkRoot(root *gtree.Node, failAt int, failErr error, opts ...gtree.Option) ([]WalkRec, Outcome) {
	var recs []WalkRec
	var kept []*gtree.WalkerNode
	o := Guard(func() error {
		return gtree.WalkFromRoot(root, func(wn *gtree.WalkerNode) error {
			recs = append(recs, recOf(wn))
			kept = append(kept, wn)
			if failAt > 0 && len(recs) == failAt {
				return failErr
			}
			return nil
		}, opts...)
	})
	reread(recs, kept)
	return recs, o
}

// WalkIterRoot consumes WalkIterFromRoot, breaking out after breakAt visits (0 = never).
func WalkIterRoot(root *gtree.Node, breakAt int, opts ...gtree.Option) ([]WalkRec, Outcome) {
	var recs []WalkRec
	var kept []*gtree.WalkerNode
	o := Guard(func() error {
		for wn, err := range gtree.WalkIterFromRoot(root, opts...) {
			if err != nil {
				return err
			}
			recs = append(recs, recOf(wn))
			kept = append(kept, wn)
			if breakAt > 0 && len(recs) == breakAt {
				break
			}
		}
		return nil
	})
	reread(recs, kept)
	return recs, o
}

// WalkNested walks root with the callback form; the at-th visit (1-based) walks the same root once more from inside
// the callback (callback form, or iterator form left after innerBreak visits when innerBreak > 0).  The result of a
// walk is a function of the tree: both walks must deliver what a walk alone delivers.
func WalkNested(root *gtree.Node, at, innerBreak int, iterOuter bool, opts ...gtree.Option) (outer, inner []WalkRec, oc Outcome) {
	innerWalk := func() error {
		if innerBreak > 0 {
			for wn, err := range gtree.WalkIterFromRoot(root, opts...) {
				if err != nil {
					return err
				}
				inner = append(inner, recOf(wn))
				if len(inner) == innerBreak {
					break
				}
			}
			return nil
		}
		return gtree.WalkFromRoot(root, func(wn *gtree.WalkerNode) error {
			inner = append(inner, recOf(wn))
			return nil
		}, opts...)
	}
	oc = Guard(func() error {
		if iterOuter {
			for wn, err := range gtree.WalkIterFromRoot(root, opts...) {
				if err != nil {
					return err
				}
				outer = append(outer, recOf(wn))
				if len(outer) == at {
					if err := innerWalk(); err != nil {
						return err
					}
				}
			}
			return nil
		}
		return gtree.WalkFromRoot(root, func(wn *gtree.WalkerNode) error {
			outer = append(outer, recOf(wn))
			if len(outer) == at {
				return innerWalk()
			}
			return nil
		}, opts...)
	})
	return
}

// WalkTwoPull takes two pull iterators of one root and advances them in turn (the second one starts when the first
// has delivered lead nodes).
func WalkTwoPull(root *gtree.Node, lead int, opts ...gtree.Option) (a, b []WalkRec, oc Outcome) {
	oc = Guard(func() error {
		n1, s1 := iter.Pull2(gtree.WalkIterFromRoot(root, opts...))
		defer s1()
		n2, s2 := iter.Pull2(gtree.WalkIterFromRoot(root, opts...))
		defer s2()
		d1, d2 := false, false
		for !d1 || !d2 {
			if !d1 {
				wn, err, ok := n1()
				if !ok {
					d1 = true
				} else if err != nil {
					return err
				} else {
					a = append(a, recOf(wn))
				}
			}
			if !d2 && (len(a) >= lead || d1) {
				wn, err, ok := n2()
				if !ok {
					d2 = true
				} else if err != nil {
					return err
				} else {
					b = append(b, recOf(wn))
				}
			}
			if len(a)+len(b) > 100000 {
				return fmt.Errorf("the two iterators delivered more than 100000 nodes")
			}
		}
		return nil
	})
	return
}

// RangeWalk ranges over an iterator created earlier.
func RangeWalk(it func(func(*gtree.WalkerNode, error) bool)) ([]WalkRec, Outcome) {
	var recs []WalkRec
	var kept []*gtree.WalkerNode
	o := Guard(func() error {
		for wn, err := range it {
			if err != nil {
				return err
			}
			recs = append(recs, recOf(wn))
			kept = append(kept, wn)
		}
		return nil
	})
	reread(recs, kept)
	return recs, o
}

// RangeWalkBreak ranges over an iterator created earlier and leaves the loop after n visits.
func RangeWalkBreak(it func(func(*gtree.WalkerNode, error) bool), n int) ([]WalkRec, Outcome) {
	var recs []WalkRec
	var kept []*gtree.WalkerNode
	o := Guard(func() error {
		for wn, err := range it {
			if err != nil {
				return err
			}
			recs = append(recs, recOf(wn))
			kept = append(kept, wn)
			if len(recs) == n {
				break
			}
		}
		return nil
	})
	reread(recs, kept)
	return recs, o
}

func OutputRoot(root *gtree.Node, opts ...gtree.Option) Outcome {
	var buf bytes.Buffer
	o := Guard(func() error { return gtree.OutputFromRoot(&buf, root, opts...) })
	o.Out = buf.String()
	return o
}

var ErrInjected = errors.New("verif: injected failure")

func Massive(ctx context.Context) gtree.Option { return gtree.WithMassive(ctx) }

var _ = io.EOF

func OutputRootAlias(root *gtree.Node, opts ...gtree.Option) Outcome {
	var buf bytes.Buffer
	o := Guard(func() error { return gtree.OutputProgrammably(&buf, root, opts...) })
	o.Out = buf.String()
	return o
}

func WalkRootAlias(root *gtree.Node, opts ...gtree.Option) ([]WalkRec, Outcome) {
	var recs []WalkRec
	var kept []*gtree.WalkerNode
	o := Guard(func() error {
		return gtree.WalkProgrammably(root, func(wn *gtree.WalkerNode) error {
			recs = append(recs, recOf(wn))
			kept = append(kept, wn)
			return nil
		}, opts...)
	})
	reread(recs, kept)
	return recs, o
}

func WalkIterRootAlias(root *gtree.Node, opts ...gtree.Option) ([]WalkRec, Outcome) {
	var recs []WalkRec
	var kept []*gtree.WalkerNode
	o := Guard(func() error {
		for wn, err := range gtree.WalkIterProgrammably(root, opts...) {
			if err != nil {
				return err
			}
			recs = append(recs, recOf(wn))
			kept = append(kept, wn)
		}
		return nil
	})
	reread(recs, kept)
	return recs, o
}

// MkdirRootFresh makes the tree below a fresh directory and returns the relative paths created (directories end in "/").
func MkdirRootFresh(root *gtree.Node, opts ...gtree.Option) ([]string, Outcome) {
	tmp, err := os.MkdirTemp("", "verif-apimk-")
	if err != nil {
		return nil, Outcome{Err: err}
	}
	defer os.RemoveAll(tmp)
	o := Guard(func() error {
		return gtree.MkdirFromRoot(root, append([]gtree.Option{gtree.WithTargetDir(tmp)}, opts...)...)
	})
	var got []string
	filepath.WalkDir(tmp, func(p string, d fs.DirEntry, err error) error {
		if err != nil || p == tmp {
			return nil
		}
		rel, _ := filepath.Rel(tmp, p)
		if d.IsDir() {
			rel += "/"
		}
		got = append(got, rel)
		return nil
	})
	sort.Strings(got)
	return got, o
}

// VerifyRootMissing verifies a programmatic tree against a directory that does not exist.
func VerifyRootMissing(root *gtree.Node) Outcome {
	return Guard(func() error {
		return gtree.VerifyFromRoot(root, gtree.WithTargetDir("/nonexistent-verif-dir"), gtree.WithStrictVerify())
	})
}
