//go:build tinywasm

// wasmdriver: the worker protocol served by the tinywasm build variant of gtree (only Output exists).
package main

import (
	"bytes"
	"fmt"
	"runtime/debug"
	"strings"

	"github.com/ddddddO/gtree"

	"verif/harness/wproto"
)

func main() {
	wproto.Serve(func(rq wproto.Req) (rp wproto.Rep) {
		defer func() {
			if r := recover(); r != nil {
				rp.Class = "panic"
				rp.Err = fmt.Sprintf("%v | %s", r, firstGtreeFrames(string(debug.Stack())))
			}
		}()
		var opts []gtree.Option
		if len(rq.Branches) == 4 {
			opts = append(opts, gtree.WithBranchFormatLastNode(rq.Branches[0], rq.Branches[1]),
				gtree.WithBranchFormatIntermedialNode(rq.Branches[2], rq.Branches[3]))
		}
		switch rq.Format {
		case "json":
			opts = append(opts, gtree.WithEncodeJSON())
		case "yaml":
			opts = append(opts, gtree.WithEncodeYAML())
		case "toml":
			opts = append(opts, gtree.WithEncodeTOML())
		}
		if rq.DryRun {
			opts = append(opts, gtree.WithDryRun(), gtree.WithFileExtensions(rq.Exts))
		}
		var buf bytes.Buffer
		err := gtree.Output(&buf, strings.NewReader(rq.Doc), opts...)
		rp.Out = buf.String()
		if err != nil {
			rp.Class, rp.Err = "err", err.Error()
		} else {
			rp.Class = "ok"
		}
		return rp
	})
}

func firstGtreeFrames(st string) string {
	var keep []string
	for _, l := range strings.Split(st, "\n") {
		if strings.Contains(l, "ddddddO/gtree.") && len(keep) < 4 {
			keep = append(keep, strings.TrimSpace(l))
		}
	}
	return strings.Join(keep, " | ")
}
