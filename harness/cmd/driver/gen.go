package main

import (
	"fmt"
	"math/rand"
)

// random documents for the Impl -> Spec direction (far beyond the exhaustive bounds)

type genParams struct {
	MaxNodes, MaxDepth, MaxRoots, NChunks int
	MinNodes                              int  // lower bound of the node budget (0: 1)
	Chain                                 int  // > 0: the forest starts with a chain of only children this deep (+ up to 24 more levels)
	Hostile                               bool // names may contain '/', '.', leading blanks, bullets
	FanKids                               int  // > 0: every child of the wide node has this many children (leaves) of its own
	Fan                                   int  // > 0: one node gets this many (up to half as many more) children, every fifth with children of its own
}

type rtree struct {
	name []string
	kids []*rtree
}

func randName(rng *rand.Rand, p genParams) []string {
	n := 1 + rng.Intn(3)
	var out []string
	for i := 0; i < n; i++ {
		x := rng.Intn(100)
		switch {
		case x < 62:
			out = append(out, fmt.Sprintf("k%d", 1+rng.Intn(p.NChunks)))
		case x < 72 && len(out) > 0:
			out = append(out, "SP")
		case x < 78 && p.Hostile:
			out = append(out, []string{"HY", "AS", "PL"}[rng.Intn(3)])
		case x < 82 && p.Hostile && len(out) > 0:
			out = append(out, "SH")
		case x < 88 && p.Hostile:
			out = append(out, "DOT")
		case x < 90 && p.Hostile && len(out) > 0:
			out = append(out, "WS")
		case x < 92 && p.Hostile && len(out) > 0:
			out = append(out, "TAB")
		default:
			out = append(out, fmt.Sprintf("k%d", 1+rng.Intn(p.NChunks)))
		}
	}
	// one hostile name in twenty consists of bullet symbols only ("--", "**", "- -", "+"): still a name
	if p.Hostile && rng.Intn(20) == 0 {
		sym := []string{"HY", "AS", "PL"}[rng.Intn(3)]
		out = []string{sym}
		for k := rng.Intn(3); k > 0; k-- {
			if rng.Intn(4) == 0 {
				out = append(out, "SP")
			}
			out = append(out, sym)
		}
		return out
	}
	// never blank-only, never ending in CR (none generated), at least one chunk
	hasChunk := false
	for _, t := range out {
		if !specialTok[t] {
			hasChunk = true
		}
	}
	if !hasChunk {
		out = append(out, fmt.Sprintf("k%d", 1+rng.Intn(p.NChunks)))
	}
	return out
}

func randForest(rng *rand.Rand, p genParams) []*rtree {
	nroots := 1 + rng.Intn(p.MaxRoots)
	budget := 1 + rng.Intn(p.MaxNodes)
	if p.MinNodes > 0 && p.MaxNodes >= p.MinNodes {
		budget = p.MinNodes + rng.Intn(p.MaxNodes-p.MinNodes+1)
	}
	var roots []*rtree
	namePool := [][]string{}
	for i := 0; i < 6; i++ {
		namePool = append(namePool, randName(rng, p))
	}
	pick := func() []string {
		if rng.Intn(3) == 0 {
			return namePool[rng.Intn(len(namePool))] // repeated sibling names on purpose
		}
		return randName(rng, p)
	}
	var all []*rtree
	depth := map[*rtree]int{}
	for i := 0; i < nroots; i++ {
		t := &rtree{name: pick()}
		roots = append(roots, t)
		all = append(all, t)
		depth[t] = 1
		budget--
	}
	if p.Chain > 0 {
		// a chain of only children, far deeper than any word size; siblings are sprinkled on it afterwards
		cur := roots[0]
		for d := 2; d <= p.Chain+rng.Intn(25) && budget > 0; d++ {
			t := &rtree{name: pick()}
			cur.kids = append(cur.kids, t)
			depth[t] = d
			all = append(all, t)
			cur = t
			budget--
		}
	}
	if p.Fan > 0 {
		// one level far wider than any buffer a walker or an encoder may keep (hundreds of siblings)
		par := all[rng.Intn(len(all))]
		for depth[par] >= p.MaxDepth-1 {
			par = roots[0]
		}
		w := p.Fan + rng.Intn(p.Fan/2+1)
		for k := 0; k < w; k++ {
			nc := p.NChunks // (distinct names, three chunks each: nothing merges)
			t := &rtree{name: []string{fmt.Sprintf("k%d", 1+k/(nc*nc)%nc), fmt.Sprintf("k%d", 1+k/nc%nc), fmt.Sprintf("k%d", 1+k%nc)}}
			par.kids = append(par.kids, t)
			depth[t] = depth[par] + 1
			all = append(all, t)
			budget--
			for g := 0; g < p.FanKids; g++ {
				u := &rtree{name: []string{fmt.Sprintf("k%d", 1+g/nc%nc), fmt.Sprintf("k%d", 1+g%nc)}}
				t.kids = append(t.kids, u)
				depth[u] = depth[t] + 1
				all = append(all, u)
				budget--
			}
			if k%5 == 4 && p.FanKids == 0 {
				for g := 0; g <= rng.Intn(2); g++ {
					u := &rtree{name: pick()}
					t.kids = append(t.kids, u)
					depth[u] = depth[t] + 1
					all = append(all, u)
					budget--
				}
			}
		}
	}
	// one time in four: a WIDE node (9..16 children) whose later children repeat names first used late
	// among its children, each repeat followed by a child of its own (merging must find the first one)
	if rng.Intn(4) == 0 && budget > 12 {
		par := all[rng.Intn(len(all))]
		if rng.Intn(2) == 0 {
			par = roots[rng.Intn(len(roots))] // (a wide ROOT half of the time)
		}
		if depth[par] < p.MaxDepth-1 {
			w := 9 + rng.Intn(8)
			var late [][]string
			for k := 0; k < w && budget > 1; k++ {
				nm := pick()
				if k >= 8 {
					late = append(late, nm)
				}
				t := &rtree{name: nm}
				par.kids = append(par.kids, t)
				depth[t] = depth[par] + 1
				all = append(all, t)
				budget--
			}
			for _, nm := range late {
				if budget < 2 || rng.Intn(2) == 0 {
					continue
				}
				t := &rtree{name: nm, kids: []*rtree{{name: pick()}}}
				par.kids = append(par.kids, t)
				depth[t] = depth[par] + 1
				depth[t.kids[0]] = depth[t] + 1
				all = append(all, t)
				budget -= 2
			}
		}
	}
	for budget > 0 {
		par := all[rng.Intn(len(all))]
		if rng.Intn(2) == 0 {
			par = all[len(all)-1] // favour deep chains
		}
		if depth[par] >= p.MaxDepth {
			budget--
			continue
		}
		t := &rtree{name: pick()}
		par.kids = append(par.kids, t)
		depth[t] = depth[par] + 1
		all = append(all, t)
		budget--
	}
	return roots
}

type spelling struct {
	unit    []string
	heading bool
	crlf    bool
	blankP  int // percent of blank lines inserted
}

func randSpelling(rng *rand.Rand) spelling {
	units := [][]string{{"TAB"}, {"SP"}, {"SP", "SP"}, {"SP", "SP", "SP"}, {"SP", "SP", "SP", "SP"}, {"TAB", "TAB"},
		{"SP", "SP", "SP", "SP", "SP", "SP", "SP", "SP"}}
	return spelling{unit: units[rng.Intn(len(units))], heading: rng.Intn(5) == 0, crlf: rng.Intn(4) == 0, blankP: []int{0, 0, 10, 30}[rng.Intn(4)]}
}

func headingOK(n []string) bool {
	sp := map[string]bool{"SP": true, "TAB": true, "CR": true, "WS": true}
	return !sp[n[0]] && n[0] != "SH" && !sp[n[len(n)-1]]
}

var blankLines = [][]string{{}, {"SP"}, {"TAB"}, {"SP", "SP", "TAB"}, {"WS"}}

// spell writes the forest in pre-order as token lines.
func spell(rng *rand.Rand, roots []*rtree, sp spelling) [][]string {
	if sp.heading {
		for _, r := range roots {
			if !headingOK(r.name) {
				sp.heading = false
			}
		}
	}
	var lines [][]string
	bullets := []string{"HY", "AS", "PL"}
	emit := func(l []string) {
		if sp.crlf {
			l = append(l, "CR")
		}
		lines = append(lines, l)
		for rng.Intn(100) < sp.blankP {
			b := append([]string{}, blankLines[rng.Intn(len(blankLines))]...)
			if sp.crlf {
				b = append(b, "CR")
			}
			lines = append(lines, b)
		}
	}
	var rec func(t *rtree, d int)
	rec = func(t *rtree, d int) {
		var l []string
		if sp.heading && d == 1 {
			l = append(l, "SH")
			for k := rng.Intn(3); k > 0; k-- {
				l = append(l, "SH")
			}
			l = append(l, "SP")
		} else {
			ind := d - 1
			if sp.heading {
				ind = d - 2
			}
			for i := 0; i < ind; i++ {
				l = append(l, sp.unit...)
			}
			l = append(l, bullets[rng.Intn(3)], "SP")
		}
		l = append(l, t.name...)
		emit(l)
		for _, k := range t.kids {
			rec(k, d+1)
		}
	}
	for _, r := range roots {
		rec(r, 1)
	}
	return lines
}
