package main

import (
	"fmt"
	"runtime"
	"strings"
	"sync"
	"time"

	"verif/harness/evid"
	"verif/harness/tla"
	"verif/harness/tlcrun"
	"verif/harness/tok"
)

// Tree is the declarative forest of the specification.
type Tree struct {
	Name []string
	Kids []*Tree
}

func treeOf(v tla.Value) *Tree {
	r := tla.R(v)
	t := &Tree{Name: tla.Strs(r["name"])}
	for _, k := range tla.Q(r["kids"]) {
		t.Kids = append(t.Kids, treeOf(k))
	}
	return t
}

func (t *Tree) Size() int {
	n := 1
	for _, k := range t.Kids {
		n += k.Size()
	}
	return n
}

type WalkObs struct {
	Name, Branch []string
	Path         [][]string
	Level        int
	HasChild     bool
}

// DocState is one state of MC_Doc: a document prefix with the declarative observable and the
// code-shaped model's prediction.
type DocState struct {
	N       int
	Doc     [][]string
	Verdict string // accept | reject | grey
	Line    int    // first offending line (reject)
	Why     string
	Forest  []*Tree
	Blocks  [][][]string // rows per root
	Walk    []WalkObs
	Names   [][]string
	// code-shaped model (Layer M)
	GsStatus  string
	GsErrK    string
	GsErrLine int
	GsLast    string
	Dropped   int
	Sigma     tla.Rec
	Partial   [][]string // rows already written when the call fails (iterator generator), Layer M
}

func docStateOf(st *tla.State) *DocState {
	d := &DocState{N: st.N}
	d.Doc = tla.Lines(st.Get("doc"))
	obs := tla.R(st.Get("obs"))
	d.Verdict = tla.S(obs["verdict"])
	d.Line = tla.I(obs["line"])
	d.Why = tla.S(obs["why"])
	for _, t := range tla.Q(obs["forest"]) {
		d.Forest = append(d.Forest, treeOf(t))
	}
	for _, b := range tla.Q(obs["rows"]) {
		d.Blocks = append(d.Blocks, tla.Lines(b))
	}
	for _, w := range tla.Q(obs["walk"]) {
		wr := tla.R(w)
		d.Walk = append(d.Walk, WalkObs{Name: tla.Strs(wr["name"]), Branch: tla.Strs(wr["branch"]),
			Path: tla.Lines(wr["path"]), Level: tla.I(wr["level"]), HasChild: tla.B(wr["hasChild"])})
	}
	d.Names = tla.Lines(obs["names"])
	gs := tla.R(st.Get("gs"))
	d.GsStatus = tla.S(gs["status"])
	d.GsErrK = tla.S(gs["errk"])
	d.GsErrLine = tla.I(gs["errline"])
	d.GsLast = tla.S(gs["last"])
	d.Dropped = len(gs["dropped"].(tla.Set))
	d.Sigma = tla.R(st.Get("sigma"))
	d.Partial = tla.Lines(st.Get("partial"))
	return d
}

func (d *DocState) Nodes() int {
	n := 0
	for _, t := range d.Forest {
		n += t.Size()
	}
	return n
}

func (d *DocState) Rows() [][]string {
	var out [][]string
	for _, b := range d.Blocks {
		out = append(out, b...)
	}
	return out
}

// ExpectText spells the expected text output under a concretisation.
func (d *DocState) ExpectText(c *tok.Conc) string {
	var sb strings.Builder
	for _, row := range d.Rows() {
		sb.WriteString(c.Seq(row))
		sb.WriteByte('\n')
	}
	return sb.String()
}

func docString(lines [][]string) string {
	parts := make([]string, len(lines))
	for i, l := range lines {
		parts[i] = strings.Join(l, " ")
	}
	return strings.Join(parts, " | ")
}

// chunk ids used by a document
func chunkIDs(lines [][]string) []string {
	seen := map[string]bool{}
	var out []string
	for _, l := range lines {
		for _, t := range l {
			if _, sp := specialTok[t]; !sp && !seen[t] {
				seen[t] = true
				out = append(out, t)
			}
		}
	}
	return out
}

var specialTok = map[string]bool{"SP": true, "TAB": true, "CR": true, "WS": true, "HY": true, "AS": true, "PL": true, "SH": true, "SL": true, "DOT": true}

// allChunkIDs: the fixed id universe the MC models draw names from (stable mapping per run)
var allChunkIDs = []string{"a", "b", "c", "d", "e", "f", "g", "h"}

type modelRun struct {
	Module, Cfg string
	Timeout     time.Duration
	Workers     int
	Args        []string
}

// runDocModel model-checks an MC_Doc instance and replays every state through `each` (in parallel).
// It returns the TLC result; machinery failures are recorded on r.
func runDocModel(r *evid.Run, m modelRun, each func(d *DocState)) *tlcrun.Result {
	nw := runtime.NumCPU()
	ch := make(chan *tla.State, 256)
	var wg sync.WaitGroup
	labels := map[string]int{}
	var lmu sync.Mutex
	for i := 0; i < nw; i++ {
		wg.Add(1)
		go func() {
			defer wg.Done()
			local := map[string]int{}
			for st := range ch {
				d := docStateOf(st)
				local[d.GsLast]++
				each(d)
			}
			lmu.Lock()
			for k, v := range local {
				labels[k] += v
			}
			lmu.Unlock()
		}()
	}
	res, err := tlcrun.Run(tlcrun.Opts{SpecDir: specDir, Module: m.Module, Cfg: m.Cfg, Workers: m.Workers,
		Timeout: m.Timeout, Dump: true, Args: m.Args}, func(st *tla.State) error {
		ch <- st
		return nil
	})
	close(ch)
	wg.Wait()
	if err != nil {
		r.Broken("TLC %s/%s: %v\n%s", m.Module, m.Cfg, err, tail(res))
		return res
	}
	if res.Violated != "" || res.ErrorText != "" {
		r.Broken("the specified design violates its own property in %s/%s: %s %s\n%s", m.Module, m.Cfg,
			res.Violated, res.ErrorText, tail(res))
		return res
	}
	if res.Distinct == 0 || res.Dumped != res.Distinct {
		r.Broken("TLC %s/%s: %d distinct states but %d dumped\n%s", m.Module, m.Cfg, res.Distinct, res.Dumped, tail(res))
	}
	r.Count("states", res.Distinct)
	r.Count("transitions", res.Generated)
	r.Count("replayed_states", res.Dumped)
	lmu.Lock()
	cov := map[string]int{}
	for k, v := range labels {
		cov[k] = v
	}
	lmu.Unlock()
	r.Set("action_coverage:"+m.Cfg, cov)
	fmt.Printf("model %s/%s: %d distinct states, %d generated, depth %d, %.1fs, replayed %d\n", m.Module, m.Cfg,
		res.Distinct, res.Generated, res.Depth, res.Wall.Seconds(), res.Dumped)
	return res
}

func tail(res *tlcrun.Result) string {
	if res == nil {
		return ""
	}
	return res.Tail(25)
}
