package main

import (
	"fmt"
	"runtime"
	"sort"
	"strings"
	"sync"
	"time"

	"verif/harness/evid"
	"verif/harness/tla"
	"verif/harness/tlcrun"
	"verif/harness/tok"
	"verif/harness/wproto"
)

func init() { register("C14", "model_checking", checkC14) }

type ioState struct {
	N      int
	Items  []fsItem
	Kind   string // read | write
	At     int
	Sink   string
	How    string
	Writes int
	Ret    string
	Sticky bool // read: the reader keeps failing (false: it fails once and would deliver the rest if read again)
}

func ioStateOf(st *tla.State) *ioState {
	if tla.S(st.Get("phase")) != "done" {
		return nil
	}
	s := &ioState{N: st.N}
	for _, it := range tla.Q(st.Get("items")) {
		r := tla.R(it)
		s.Items = append(s.Items, fsItem{D: tla.I(r["d"]), N: tla.Strs(r["n"])})
	}
	op := tla.R(st.Get("op"))
	s.Kind, s.At = tla.S(op["k"]), tla.I(op["at"])
	if s.Kind == "read" {
		s.Sticky = tla.B(op["sticky"])
	}
	if s.Kind == "write" {
		s.Sink, s.How, s.Writes = tla.S(op["kind"]), tla.S(op["how"]), len(tla.Q(op["writes"]))
	}
	s.Ret = tla.S(tla.R(st.Get("result"))["ret"])
	return s
}

type ioRoute struct {
	name string
	sink string // the model's sink kind for writer faults; "" = no writer
	req  wproto.Req
	root bool // From-Root (single root only)
}

func ioRoutes() []ioRoute {
	return []ioRoute{
		{"md-text/iter", "text", wproto.Req{Op: "output"}, false},
		{"md-text/slice", "text", wproto.Req{Op: "output", NoIter: true}, false},
		{"md-text/massive", "text", wproto.Req{Op: "output", Massive: true}, false},
		{"root-text", "text", wproto.Req{Op: "output", Route: "root"}, true},
		{"root-text/massive", "text", wproto.Req{Op: "output", Route: "root", Massive: true}, true},
		{"md-json/iter", "enc", wproto.Req{Op: "output", Format: "json"}, false},
		{"md-json/slice", "enc", wproto.Req{Op: "output", Format: "json", NoIter: true}, false},
		{"md-json/massive", "enc", wproto.Req{Op: "output", Format: "json", Massive: true}, false},
		{"md-yaml/iter", "enc", wproto.Req{Op: "output", Format: "yaml"}, false},
		{"md-toml/iter", "enc", wproto.Req{Op: "output", Format: "toml"}, false},
		{"root-json", "enc", wproto.Req{Op: "output", Format: "json", Route: "root"}, true},
		{"root-yaml/massive", "enc", wproto.Req{Op: "output", Format: "yaml", Route: "root", Massive: true}, true},
		{"md-dryrun/iter", "dry-iter", wproto.Req{Op: "output", DryRun: true}, false},
		{"md-dryrun/slice", "dry-once", wproto.Req{Op: "output", DryRun: true, NoIter: true}, false},
		{"md-dryrun/massive", "dry-iter", wproto.Req{Op: "output", DryRun: true, Massive: true}, false},
		{"root-dryrun", "dry-once", wproto.Req{Op: "output", DryRun: true, Route: "root"}, true},
		{"root-dryrun/massive", "dry-iter", wproto.Req{Op: "output", DryRun: true, Route: "root", Massive: true}, true},
		{"md-mkdir-dryrun/massive", "dry-iter", wproto.Req{Op: "mkdir", DryRun: true, Massive: true, Target: "/nonexistent-verif"}, false},
		{"root-mkdir-dryrun", "dry-once", wproto.Req{Op: "mkdir", DryRun: true, Route: "root", Target: "/nonexistent-verif"}, true},
		{"md-mkdir-dryrun", "dry-once", wproto.Req{Op: "mkdir", DryRun: true, Target: "/nonexistent-verif"}, false},
		// reader-only routes
		{"md-walk", "", wproto.Req{Op: "walk"}, false},
		{"md-walk/massive", "", wproto.Req{Op: "walk", Massive: true}, false},
		{"md-verify", "", wproto.Req{Op: "verify", Target: "/nonexistent-verif"}, false},
		{"md-verify/massive", "", wproto.Req{Op: "verify", Target: "/nonexistent-verif", Massive: true}, false},
		{"md-mkdir-dry/massive", "", wproto.Req{Op: "mkdir", DryRun: true, Target: "/nonexistent-verif", Massive: true}, false},
	}
}

// the identity of the injected error: plain, or wrapping a context error although the call's context is alive
var errIdents = []string{"", "canceled", "", "deadline"}

type ioReplay struct {
	Items []fsItem   `json:"items"`
	Route string     `json:"route"`
	Req   wproto.Req `json:"request"`
	Rep   wproto.Rep `json:"reply"`
}

func fillReq(rt ioRoute, items []fsItem, c *tok.Conc) wproto.Req {
	rq := rt.req
	if rt.root {
		for _, it := range items {
			rq.Items = append(rq.Items, wproto.Item{D: it.D, N: c.Seq(it.N)})
		}
	} else {
		rq.Doc = canonItemsDoc(items, c)
	}
	return rq
}

func checkC14(r *evid.Run) {
	pool := workerPool(r, runtime.NumCPU())
	if pool == nil {
		return
	}
	defer pool.Close()
	cfg, timeout := "MC_C14_quick.cfg", 10*time.Minute
	if r.Tier == "thorough" {
		cfg, timeout = "MC_C14_thorough.cfg", 30*time.Minute
	}
	routes := ioRoutes()
	concs := tok.Concs(r.Seed, 2, allChunkIDs)
	c := concs[1]
	if r.Seed%2 == 0 {
		c = concs[0]
	}
	multibyte := tok.MakeConc(1, 0, true, allChunkIDs, nil) // "αλφα", "日本語", "🌳🌲", ...
	ch := make(chan *tla.State, 256)
	var wg sync.WaitGroup
	for i := 0; i < runtime.NumCPU(); i++ {
		wg.Add(1)
		go func() {
			defer wg.Done()
			for st := range ch {
				s := ioStateOf(st)
				if s == nil {
					continue
				}
				f := factsOf(s.Items)
				r.Count("replayed_states", 1)
				if len(s.Items) >= 2 {
					r.Count("distinct_nontrivial", 1)
				}
				if s.Kind == "read" {
					// every other read state with names of several bytes per character (the reader may fail INSIDE one)
					cr := c
					if s.N%2 == 1 {
						cr = multibyte
					}
					checkReaderFault(r, pool, s, cr, routes, f)
				} else {
					checkWriterFault(r, pool, s, c, routes, f)
				}
				if s.N%331 == 0 {
					r.Sample(map[string]any{"doc": canonItemsDoc(s.Items, c), "fault": s.Kind, "at": s.At, "sink": s.Sink, "how": s.How, "expected_return": s.Ret})
				}
			}
		}()
	}
	res, err := tlcrun.Run(tlcrun.Opts{SpecDir: specDir, Module: "MC_Io", Cfg: cfg, Timeout: timeout, Dump: true},
		func(st *tla.State) error { ch <- st; return nil })
	close(ch)
	wg.Wait()
	if err != nil || res.Violated != "" || res.ErrorText != "" || res.Dumped != res.Distinct {
		r.Broken("TLC MC_Io/%s: %v %s %s\n%s", cfg, err, res.Violated, res.ErrorText, tail(res))
		return
	}
	r.Count("states", res.Distinct)
	r.Count("transitions", res.Generated)
	fmt.Printf("model MC_Io/%s: %d distinct states, %d generated, %.1fs\n", cfg, res.Distinct, res.Generated, res.Wall.Seconds())
	r.Set("exhaustive", true)
	r.Set("rule", "every forest up to the bound x {reader failing after every byte offset of the document; writer refusing (nothing / half / everything accepted, with an error; permanently or once) every Write call index up to one past the last} x every output route (text, JSON, YAML, TOML, dry-run; From-Markdown iterator and slice generators, From-Root; simple and massive) plus walk/verify/mkdir-dry-run for the reader; the injected error is plain or wraps context.Canceled / DeadlineExceeded; non-trivial = at least 2 items")
	r.Assume("a writer that accepts fewer bytes than requested WITHOUT returning an error breaks the io.Writer contract and is not exercised")
}

// reader failing after token offset s.At: every byte offset inside that token is tried
func checkReaderFault(r *evid.Run, pool *wproto.Pool, s *ioState, c *tok.Conc, routes []ioRoute, f fsFacts) {
	// byte positions of token boundaries of the canonical document
	var toks []string
	for _, it := range s.Items {
		for k := 1; k < it.D; k++ {
			toks = append(toks, "  ")
		}
		toks = append(toks, "-", " ")
		for _, t := range it.N {
			toks = append(toks, c.Tok(t))
		}
		toks = append(toks, "\n")
	}
	// the model's tokens: SP SP per indent level are two tokens; rebuild positions token by token
	var bounds []int
	pos := 0
	bounds = append(bounds, 0)
	for _, it := range s.Items {
		for k := 1; k < it.D; k++ {
			pos++
			bounds = append(bounds, pos)
			pos++
			bounds = append(bounds, pos)
		}
		pos++ // HY
		bounds = append(bounds, pos)
		pos++ // SP
		bounds = append(bounds, pos)
		for _, t := range it.N {
			pos += len(c.Tok(t))
			bounds = append(bounds, pos)
		}
		pos++ // NL
		bounds = append(bounds, pos)
	}
	_ = toks
	if s.At >= len(bounds) {
		return
	}
	lo, hi := bounds[s.At], bounds[s.At]
	if s.At > 0 {
		lo = bounds[s.At-1] + 1
	}
	for off := lo; off <= hi; off++ {
		for _, rt := range routes {
			if rt.root || (rt.sink == "dry-once" && rt.req.Op == "mkdir") {
				continue
			}
			rq := fillReq(rt, s.Items, c)
			o := off
			rq.ReadFail = &o
			rq.ReadOnce = !s.Sticky
			rq.ErrWrap = errIdents[(s.N+off)%len(errIdents)]
			rp := pool.Call(rq, 30*time.Second)
			r.Count("real_calls", 1)
			if rp.Class == "panic" || rp.Class == "hang" {
				r.Mismatch(rt.name+":reader-fault:"+rp.Class, fmt.Sprintf("doc=%q reader fails after byte %d: %s", rq.Doc, off, rp.Err), ioReplay{s.Items, rt.name, rq, rp})
				continue
			}
			if rq.Op == "verify" {
				// the missing target is a second, independent fault: which one is reported is not settled
				if rp.Class != "err" {
					r.Mismatch(rt.name+":reader-error-swallowed", fmt.Sprintf("doc=%q reader fails after byte %d: returned nil", rq.Doc, off), ioReplay{s.Items, rt.name, rq, rp})
				}
				continue
			}
			if !rp.IsReaderErr {
				kind := "reader-error-not-returned"
				if rp.Class == "ok" {
					kind = "reader-error-swallowed"
				} else {
					kind += ":" + strings.SplitN(rp.Err, ":", 2)[0]
				}
				r.Mismatch(rt.name+":"+kind, fmt.Sprintf("doc=%q reader fails after byte %d (%q delivered; fails once only: %v): returned %q", rq.Doc, off, rq.Doc[:off], rq.ReadOnce, rp.Err), ioReplay{s.Items, rt.name, rq, rp})
			}
		}
	}
}

// writer refusing one call: indices are enumerated from the fault-free run of the real code, once per
// (forest, sink, how) - at the model state with at = 1
func checkWriterFault(r *evid.Run, pool *wproto.Pool, s *ioState, c *tok.Conc, routes []ioRoute, f fsFacts) {
	if s.At != 1 {
		return
	}
	for _, rt := range routes {
		if rt.sink != s.Sink || (rt.root && f.nroots != 1) {
			continue
		}
		rq := fillReq(rt, s.Items, c)
		// the dry-run sinks also with colours on (what a program on a terminal has): every other state
		if strings.HasPrefix(rt.sink, "dry") && s.N%2 == 1 {
			rq.Color = true
		}
		free := pool.Call(rq, 30*time.Second)
		r.Count("real_calls", 1)
		if free.Class != "ok" {
			r.Mismatch(rt.name+":fault-free-run-failed", fmt.Sprintf("doc=%q items=%s: %s %s", rq.Doc, itemsString(s.Items), free.Class, free.Err), ioReplay{s.Items, rt.name, rq, free})
			continue
		}
		// the output goes to the writer the call was given, all of it ("unless every byte of the output was accepted by
		// THE writer"): nothing may turn up at the colour package's process-wide writer instead
		if free.Stray != "" || (free.Out == "" && len(s.Items) > 0) {
			r.Mismatch(rt.name+":output-went-to-another-writer", fmt.Sprintf("doc=%q items=%s: the writer given to the call received %q, color.Output received %q", rq.Doc, itemsString(s.Items), free.Out, free.Stray), ioReplay{s.Items, rt.name, rq, free})
			continue
		}
		// Layer M: the number of Write calls the model predicts (massive mode and From-Root walk one root)
		if !rt.req.Massive && free.WCalls != s.Writes && !(rt.root && s.Sink != "text") {
			r.Count("drift_write_calls", 1)
		}
		for k := 1; k <= free.WCalls+1; k++ {
			rq2 := rq
			rq2.WFault = &wproto.WFault{How: s.How, At: k}
			rq2.ErrWrap = errIdents[(s.N+k)%len(errIdents)]
			rp := pool.Call(rq2, 30*time.Second)
			r.Count("real_calls", 1)
			if rp.Class == "panic" || rp.Class == "hang" {
				r.Mismatch(rt.name+":writer-fault:"+rp.Class, fmt.Sprintf("doc=%q write %d refused: %s", rq.Doc, k, rp.Err), ioReplay{s.Items, rt.name, rq2, rp})
				continue
			}
			// Layer P: nil only if every byte of the output was accepted
			sameOut := rp.Out == free.Out
			if rt.req.Massive { // roots may be written in any order
				sameOut = sortedLines(rp.Out) == sortedLines(free.Out)
			}
			if rp.Class == "ok" && (rp.WRefused || !sameOut) {
				r.Mismatch(rt.name+":writer-error-swallowed", fmt.Sprintf("doc=%q items=%s: Write call %d of %d refused (%s) but the call returned nil; accepted %q of %q", rq.Doc, itemsString(s.Items), k, free.WCalls, s.How, rp.Out, free.Out), ioReplay{s.Items, rt.name, rq2, rp})
				break
			}
			if rp.Class == "err" && !rp.WRefused {
				r.Mismatch(rt.name+":spurious-error", fmt.Sprintf("doc=%q: no Write call was refused but err=%q", rq.Doc, rp.Err), ioReplay{s.Items, rt.name, rq2, rp})
			}
		}
	}
}

func sortedLines(s string) string {
	ls := strings.Split(s, "\n")
	sort.Strings(ls)
	return strings.Join(ls, "\n")
}
