package main

import (
	"fmt"
	"math/rand"
	"strings"

	"github.com/ddddddO/gtree"

	"verif/harness/evid"
	"verif/harness/real"
	"verif/harness/tok"
)

// random API histories far beyond the exhaustive bound (long, wide trees, several trees interleaved),
// executed on the real library and validated by TLC against Api.tla (TraceApi.tla)

type apiGot struct {
	K      string     `json:"k"`
	Err    string     `json:"err"`
	Rows   [][]string `json:"rows"`
	Forest []treeJ    `json:"forest"`
	Walk   []walkJ    `json:"walk"`
	ID     int        `json:"id"`
}

type apiEv struct {
	Op   string   `json:"op"`
	Name []string `json:"name"`
	P    int      `json:"p"`
	Kind string   `json:"kind"`
	Got  apiGot   `json:"got"`
	desc string
}

func noneGot() apiGot {
	return apiGot{K: "none", Rows: [][]string{}, Forest: []treeJ{}, Walk: []walkJ{}}
}

func dtreeToJ(t *real.DTree, c *tok.Conc) treeJ {
	name, ok := c.Decode(t.Value)
	if !ok {
		name = []string{"UNDECODABLE"}
	}
	j := treeJ{Name: name, Kids: []treeJ{}}
	for _, k := range t.Children {
		j.Kids = append(j.Kids, dtreeToJ(k, c))
	}
	return j
}

func traceAPIHistories(r *evid.Run, nHist, maxCalls int) {
	rng := rand.New(rand.NewSource(r.Seed*48271 + 11))
	var evs []any
	var descs []string
	flush := func() bool {
		if len(evs) == 0 {
			return true
		}
		bad, ok := validateTraceIn(r, "TraceApi", "TraceApi.cfg", "atrace.ndjson", evs)
		if !ok {
			return false
		}
		r.Count("traces_validated_against_impl", len(evs))
		for i, layers := range bad {
			if strings.Contains(layers, "P") {
				r.Mismatch("api-trace:"+evs[i].(*apiEv).Kind+evs[i].(*apiEv).Op, fmt.Sprintf("random history, call %d: %s", i+1, descs[i]), map[string]any{"history_up_to_the_call": descs[:i+1]})
			} else {
				r.Count("drift_traces", 1)
				fmt.Printf("SPEC-DRIFT layer=api call=%s\n", descs[i])
			}
		}
		evs, descs = nil, nil
		return true
	}
	for h := 0; h < nHist; h++ {
		c := tok.TraceConc(rng, 8)
		apiMu.Lock()
		evs = append(evs, &apiEv{Op: "reset", Name: []string{}, Got: noneGot()})
		descs = append(descs, "-- new history --")
		nodes := []*gtree.Node{nil}
		hier := []int{0}
		kids := map[int]map[string]int{}
		names := [][]string{{"k1"}, {"k2"}, {"k3", "SP", "k4"}, {"k5"}, {"k6"}, {"k7"}, {"k8"}, {"k1", "DOT", "k2"}, {"k2", "k3"}, {"k4", "HY", "k5"}, {"k6", "k6"}, {"k7", "SP"}}
		ncalls := 8 + rng.Intn(maxCalls)
		wide := 0
		var held []func(func(*gtree.WalkerNode, error) bool) // iterators made earlier in this history
		for i := 0; i < ncalls; i++ {
			x := rng.Intn(10)
			if h%2 == 1 && x >= 1 && x <= 6 && rng.Intn(3) == 0 {
				x = 9 // more operations
			}
			switch {
			case len(nodes) == 1 || x == 0:
				nm := names[rng.Intn(len(names))]
				n := gtree.NewRoot(c.Seq(nm))
				nodes = append(nodes, n)
				hier = append(hier, 1)
				g := noneGot()
				g.K, g.ID = "node", len(nodes)-1
				evs = append(evs, &apiEv{Op: "NewRoot", Name: nm, Got: g})
				descs = append(descs, fmt.Sprintf("NewRoot(%q) -> #%d", c.Seq(nm), g.ID))
			case x <= 6:
				p := 1 + rng.Intn(len(nodes)-1)
				// odd histories: "grow and print": Adds below any node (many inner nodes at every depth), operations
				// often: after each of them the new nodes draw the indexes of older ones
				if h%2 == 1 {
					// p stays uniform
				} else if wide == 0 || rng.Intn(3) > 0 {
					if wide == 0 {
						wide = p
					}
					p = wide // keep adding under one node: wide fan-out, repeated names late among its children
				}
				nm := names[rng.Intn(len(names))]
				s := c.Seq(nm)
				got := nodes[p].Add(s)
				id := 0
				if k, ok := kids[p][s]; ok && nodes[k] == got {
					id = k
				} else {
					for k := 1; k < len(nodes); k++ {
						if nodes[k] == got {
							id = -k // returned some OTHER existing node: never equal to the specification's id
						}
					}
					if id == 0 {
						nodes = append(nodes, got)
						hier = append(hier, hier[p]+1)
						id = len(nodes) - 1
						if kids[p] == nil {
							kids[p] = map[string]int{}
						}
						if _, dup := kids[p][s]; !dup {
							kids[p][s] = id
						}
					}
				}
				g := noneGot()
				g.K, g.ID = "node", id
				evs = append(evs, &apiEv{Op: "Add", Name: nm, P: p, Got: g})
				descs = append(descs, fmt.Sprintf("#%d.Add(%q) -> #%d", p, s, id))
			case x == 7 && rng.Intn(2) == 0:
				// it := WalkIterFromRoot(root): kept, ranged over later (and more than once)
				var roots []int
				for k := 1; k < len(nodes); k++ {
					if hier[k] == 1 {
						roots = append(roots, k)
					}
				}
				p := roots[rng.Intn(len(roots))]
				held = append(held, gtree.WalkIterFromRoot(nodes[p], branchOpts(c)...))
				evs = append(evs, &apiEv{Op: "Open", Name: []string{}, P: p, Got: noneGot()})
				descs = append(descs, fmt.Sprintf("it%d := WalkIterFromRoot(#%d)", len(held), p))
			case x == 8 && len(held) > 0:
				k := rng.Intn(len(held))
				g := noneGot()
				recs, o := real.RangeWalk(held[k])
				g.K = o.Class()
				if o.Class() == "ok" {
					g.K = "walk"
					for _, w := range recs {
						g.Walk = append(g.Walk, walkToJ(w, c))
					}
				} else if o.Err != nil {
					g.K, g.Err = "err", "other:"+o.Err.Error()
				}
				evs = append(evs, &apiEv{Op: "Range", Name: []string{}, P: k + 1, Got: g})
				descs = append(descs, fmt.Sprintf("range it%d -> %s %d records %v", k+1, g.K, len(recs), o.Err))
			default:
				p := rng.Intn(len(nodes)) // 0 = nil
				kind := []string{"text", "tree", "walk", "mkdir"}[rng.Intn(4)]
				if h%2 == 1 {
					p = 1 // the first tree of the history, again and again
					kind = []string{"text", "tree", "walk", "tree"}[rng.Intn(4)]
				}
				g := noneGot()
				cb := tok.WithBranches(c, 4) // decodable branch strings are those of TraceConc itself
				cb.LD, cb.LI, cb.MD, cb.MI = c.LD, c.LI, c.MD, c.MI
				var o real.Outcome
				switch kind {
				case "text":
					o = real.OutputRoot(nodes[p], branchOpts(cb)...)
					if o.Class() == "ok" {
						g.K, g.Rows = "text", decodeRows(o.Out, cb)
					}
				case "tree":
					o = real.OutputRoot(nodes[p], gtree.WithEncodeJSON())
					if o.Class() == "ok" {
						g.K = "tree"
						if dt, err := real.DecodeJSON(o.Out); err == nil {
							for _, t := range dt {
								g.Forest = append(g.Forest, dtreeToJ(t, cb))
							}
						} else {
							g.K = "undecodable"
						}
					}
				case "mkdir":
					// into a fresh directory: what appears there, as token paths
					var paths []string
					paths, o = real.MkdirRootFresh(nodes[p])
					if o.Class() == "ok" {
						g.K = "mkdir"
						for _, pth := range paths {
							var toks []string
							for i, comp := range strings.Split(strings.TrimSuffix(pth, "/"), "/") {
								ts, ok := cb.Decode(comp)
								if !ok {
									ts = []string{"UNDECODABLE"}
								}
								if i > 0 {
									toks = append(toks, "SL")
								}
								toks = append(toks, ts...)
							}
							if !strings.HasSuffix(pth, "/") {
								toks = append(toks, "IS-A-FILE")
							}
							g.Rows = append(g.Rows, toks)
						}
					}
				case "walk":
					var recs []real.WalkRec
					recs, o = real.WalkRoot(nodes[p], 0, nil, branchOpts(cb)...)
					if o.Class() == "ok" {
						g.K = "walk"
						for _, w := range recs {
							g.Walk = append(g.Walk, walkToJ(w, cb))
						}
					}
				}
				if o.Class() == "err" {
					g.K = "err"
					switch {
					case o.Err == gtree.ErrNilNode:
						g.Err = "ErrNilNode"
					case o.Err == gtree.ErrNotRoot:
						g.Err = "ErrNotRoot"
					default:
						g.Err = "other:" + o.Err.Error()
					}
				} else if o.Class() != "ok" {
					g.K = o.Class()
				}
				evs = append(evs, &apiEv{Op: "Op", Name: []string{}, P: p, Kind: kind, Got: g})
				descs = append(descs, fmt.Sprintf("%s(#%d) -> %s %q %v", kind, p, g.K, o.Out, o.Err))
			}
		}
		apiMu.Unlock()
		r.Count("real_calls", ncalls)
		r.Count("random_histories", 1)
		if len(evs) > 600 {
			if !flush() {
				return
			}
		}
	}
	flush()
}
