// driver: runs one property check (model checking with TLC + conformance against the real gtree built
// from /repo's working tree).  Usage: driver <ID> [--replay path]   (VERIF_TIER, VERIF_SEED)
package main

import (
	"fmt"
	"github.com/fatih/color"
	"os"
	"sort"

	"verif/harness/evid"
)

type checkFn func(r *evid.Run)

var checks = map[string]checkFn{}
var levels = map[string]string{}

func register(id, level string, f checkFn) { checks[id] = f; levels[id] = level }

var specDir = evid.Root + "/spec"

func main() {
	color.NoColor = true
	if len(os.Args) < 2 {
		ids := []string{}
		for k := range checks {
			ids = append(ids, k)
		}
		sort.Strings(ids)
		fmt.Println("usage: driver <ID> [--replay path]; ids:", ids)
		os.Exit(2)
	}
	id := os.Args[1]
	if id == "worker" {
		workerMain(os.Args[2:])
		return
	}
	f, ok := checks[id]
	if !ok {
		fmt.Println("unknown check", id)
		os.Exit(2)
	}
	r := evid.NewRun(id)
	r.Level = levels[id]
	if len(os.Args) >= 4 && os.Args[2] == "--replay" {
		os.Exit(replayFile(r, os.Args[3]))
	}
	func() {
		defer func() {
			if p := recover(); p != nil {
				r.Broken("driver panic: %v", p)
				panic(p)
			}
		}()
		f(r)
	}()
	os.Exit(r.Finish(levels[id]))
}
