package main

import (
	"bytes"
	"context"
	"errors"
	"fmt"
	"io"
	"io/fs"
	"os"
	"path/filepath"
	"sort"
	"strings"
	"sync"
	"time"

	"github.com/ddddddO/gtree"
	"github.com/fatih/color"

	"verif/harness/real"
	"verif/harness/wproto"
)

// workerMain serves the worker protocol with the default build of gtree. A panic in any goroutine
// kills this process; the parent attributes it to the request in flight.
func workerMain(args []string) {
	wproto.Serve(handleReq)
}

func reqOpts(rq wproto.Req) []gtree.Option {
	var opts []gtree.Option
	if len(rq.Branches) == 4 {
		opts = append(opts, gtree.WithBranchFormatLastNode(rq.Branches[0], rq.Branches[1]),
			gtree.WithBranchFormatIntermedialNode(rq.Branches[2], rq.Branches[3]))
	}
	switch rq.Format {
	case "json":
		opts = append(opts, gtree.WithEncodeJSON())
	case "yaml":
		opts = append(opts, gtree.WithEncodeYAML())
	case "toml":
		opts = append(opts, gtree.WithEncodeTOML())
	}
	if rq.DryRun {
		opts = append(opts, gtree.WithDryRun())
	}
	if rq.Exts != nil {
		opts = append(opts, gtree.WithFileExtensions(rq.Exts))
	}
	if rq.NoIter {
		opts = append(opts, gtree.WithNoUseIterOfSimpleOutput())
	}
	if rq.Strict {
		opts = append(opts, gtree.WithStrictVerify())
	}
	if rq.Massive {
		opts = append(opts, gtree.WithMassive(context.Background()))
	}
	return opts
}

func snapshot(dir string) []string {
	var out []string
	filepath.WalkDir(dir, func(p string, d fs.DirEntry, err error) error {
		if err != nil || p == dir {
			return nil
		}
		rel, _ := filepath.Rel(dir, p)
		kind := "f"
		if d.IsDir() {
			kind = "d"
		}
		out = append(out, kind+":"+rel)
		return nil
	})
	sort.Strings(out)
	return out
}

// buildItems builds a programmatic tree from items (Add merges equally named siblings, as the spec's Trie).
func buildItems(items []wproto.Item) *gtree.Node {
	var chain []*gtree.Node
	var root *gtree.Node
	for _, it := range items {
		if it.D == 1 {
			root = gtree.NewRoot(it.N)
			chain = []*gtree.Node{root}
			continue
		}
		n := chain[it.D-2].Add(it.N)
		chain = append(chain[:it.D-1], n)
	}
	return root
}

var errReader = errors.New("verif: injected reader failure")
var errWriter = errors.New("verif: injected writer failure")

// failReader delivers the first n bytes of s (in small reads) and then fails.
type failReader struct {
	s string
	n int
	i int
}

func (f *failReader) Read(p []byte) (int, error) {
	if f.i >= f.n {
		return 0, errReader
	}
	k := copy(p, f.s[f.i:f.n])
	f.i += k
	return k, nil
}

// faultWriter accepts everything until call number at.
type faultWriter struct {
	mu      sync.Mutex
	buf     *bytes.Buffer
	fault   *wproto.WFault
	calls   int
	refused bool
	sizes   []int
}

func (w *faultWriter) Write(p []byte) (int, error) {
	w.mu.Lock()
	defer w.mu.Unlock()
	w.calls++
	w.sizes = append(w.sizes, len(p))
	if w.fault != nil && w.calls >= w.fault.At {
		w.refused = true
		if w.fault.How == "short" && w.calls == w.fault.At {
			n := len(p) / 2
			w.buf.Write(p[:n])
			return n, errWriter
		}
		return 0, errWriter
	}
	return w.buf.Write(p)
}

func handleReq(rq wproto.Req) (rp wproto.Rep) {
	var buf bytes.Buffer
	fw := &faultWriter{buf: &buf, fault: rq.WFault}
	color.Output = fw
	opts := reqOpts(rq)
	var jail string
	if rq.Target != "" {
		opts = append(opts, gtree.WithTargetDir(rq.Target))
	} else if rq.Jail || rq.Op == "mkdir" || rq.Op == "verify" {
		var err error
		jail, err = os.MkdirTemp("", "verif-jail-")
		if err != nil {
			return wproto.Rep{Class: "err", Err: "harness: " + err.Error()}
		}
		defer os.RemoveAll(jail)
		os.Mkdir(filepath.Join(jail, "t"), 0o755)
		opts = append(opts, gtree.WithTargetDir(filepath.Join(jail, "t")))
	}
	var mu sync.Mutex // massive mode calls back from several goroutines
	cb := func(wn *gtree.WalkerNode) error {
		mu.Lock()
		rp.Walk = append(rp.Walk, wn.Row())
		mu.Unlock()
		return nil
	}
	o := real.Guard(func() error {
		if rq.Route == "root" {
			root := buildItems(rq.Items)
			switch {
			case rq.Op == "output" && rq.Alias:
				return gtree.OutputProgrammably(fw, root, opts...)
			case rq.Op == "output":
				return gtree.OutputFromRoot(fw, root, opts...)
			case rq.Op == "walk" && rq.Alias:
				return gtree.WalkProgrammably(root, cb, opts...)
			case rq.Op == "walk":
				return gtree.WalkFromRoot(root, cb, opts...)
			case rq.Op == "mkdir" && rq.Alias:
				return gtree.MkdirProgrammably(root, opts...)
			case rq.Op == "mkdir":
				return gtree.MkdirFromRoot(root, opts...)
			case rq.Op == "verify" && rq.Alias:
				return gtree.VerifyProgrammably(root, opts...)
			case rq.Op == "verify":
				return gtree.VerifyFromRoot(root, opts...)
			}
			return fmt.Errorf("harness: unknown op %q", rq.Op)
		}
		var r io.Reader = strings.NewReader(rq.Doc)
		if rq.ReadFail != nil {
			r = &failReader{s: rq.Doc, n: *rq.ReadFail}
		}
		switch {
		case rq.Op == "output" && rq.Alias:
			return gtree.Output(fw, r, opts...)
		case rq.Op == "output":
			return gtree.OutputFromMarkdown(fw, r, opts...)
		case rq.Op == "walk" && rq.Alias:
			return gtree.Walk(r, cb, opts...)
		case rq.Op == "walk":
			return gtree.WalkFromMarkdown(r, cb, opts...)
		case rq.Op == "mkdir" && rq.Alias:
			return gtree.Mkdir(r, opts...)
		case rq.Op == "mkdir":
			return gtree.MkdirFromMarkdown(r, opts...)
		case rq.Op == "verify" && rq.Alias:
			return gtree.Verify(r, opts...)
		case rq.Op == "verify":
			return gtree.VerifyFromMarkdown(r, opts...)
		}
		return fmt.Errorf("harness: unknown op %q", rq.Op)
	})
	rp.Class, rp.Out, rp.Err = o.Class(), buf.String(), o.ErrString()
	rp.IsReaderErr = o.Err != nil && errors.Is(o.Err, errReader)
	fw.mu.Lock()
	rp.WCalls, rp.WRefused, rp.WSizes = fw.calls, fw.refused, fw.sizes
	fw.mu.Unlock()
	if o.Panic != "" {
		rp.Err = firstLine(o.Panic)
	}
	if jail != "" {
		rp.Entries = snapshot(jail)
	}
	if rq.Leaks && rp.Class != "hang" {
		leaks := real.SettledLeaks(150 * time.Millisecond)
		rp.Leaked, rp.LeakSigs = len(leaks), leaks
	}
	return rp
}
