package main

import (
	"bytes"
	"context"
	"errors"
	"fmt"
	"io"
	"io/fs"
	"os"
	"path/filepath"
	"runtime"
	"sort"
	"strings"
	"sync"
	"sync/atomic"
	"time"

	"github.com/ddddddO/gtree"
	"github.com/fatih/color"

	"verif/harness/real"
	"verif/harness/wproto"
)

// workerMain serves the worker protocol with the default build of gtree. A panic in any goroutine
// kills this process; the parent attributes it to the request in flight.
func workerMain(args []string) {
	wproto.Serve(handleReq)
}

func reqOpts(rq wproto.Req) []gtree.Option {
	var opts []gtree.Option
	if len(rq.Branches) == 4 {
		opts = append(opts, gtree.WithBranchFormatLastNode(rq.Branches[0], rq.Branches[1]),
			gtree.WithBranchFormatIntermedialNode(rq.Branches[2], rq.Branches[3]))
	}
	switch rq.Format {
	case "json":
		opts = append(opts, gtree.WithEncodeJSON())
	case "yaml":
		opts = append(opts, gtree.WithEncodeYAML())
	case "toml":
		opts = append(opts, gtree.WithEncodeTOML())
	}
	if rq.DryRun {
		opts = append(opts, gtree.WithDryRun())
	}
	if rq.Exts != nil {
		opts = append(opts, gtree.WithFileExtensions(rq.Exts))
	}
	if rq.NoIter {
		opts = append(opts, gtree.WithNoUseIterOfSimpleOutput())
	}
	if rq.Strict {
		opts = append(opts, gtree.WithStrictVerify())
	}
	return opts
}

// optOf: one token of Options.tla's alphabet as the real option (jail: the directory holding targets A and B)
func optOf(tok, jail string, ctx context.Context) gtree.Option {
	switch tok {
	case "json":
		return gtree.WithEncodeJSON()
	case "yaml":
		return gtree.WithEncodeYAML()
	case "toml":
		return gtree.WithEncodeTOML()
	case "dry":
		return gtree.WithDryRun()
	case "exts1":
		return gtree.WithFileExtensions([]string{".x"})
	case "exts2":
		return gtree.WithFileExtensions([]string{"a"})
	case "exts0":
		return gtree.WithFileExtensions([]string{})
	case "extsDup":
		// a list with a repeated entry, and the SAME slice for every call of this process that uses it (a caller's
		// package-level list): what one call does to it, the next one sees
		return gtree.WithFileExtensions(sharedExtsDup)
	case "targetA":
		return gtree.WithTargetDir(filepath.Join(jail, "A"))
	case "targetB":
		return gtree.WithTargetDir(filepath.Join(jail, "B"))
	case "strict":
		return gtree.WithStrictVerify()
	case "noiter":
		return gtree.WithNoUseIterOfSimpleOutput()
	case "massive":
		// ONE option value for the whole process (a caller's "opts := []gtree.Option{gtree.WithMassive(ctx)}" used for
		// call after call): what one call does with it, the next one must not see
		sharedMassiveOnce.Do(func() { sharedMassiveOpt = gtree.WithMassive(context.Background()) })
		return sharedMassiveOpt
	case "mcancel":
		cctx, cancel := context.WithCancel(ctx)
		cancel()
		return gtree.WithMassive(cctx)
	case "brL1":
		return gtree.WithBranchFormatLastNode("`--", "    ")
	case "brL2":
		return gtree.WithBranchFormatLastNode("\\__", "  ")
	case "brI1":
		return gtree.WithBranchFormatIntermedialNode("|--", "|   ")
	case "nil":
		return nil
	}
	panic("harness: unknown option token " + tok)
}

var sharedExtsDup = []string{".x", ".y", ".x"}

// the errors the calls of this process returned (a caller may keep an error value and look at it later)
var (
	heldMu   sync.Mutex
	heldErrs []error
)

var (
	sharedMassiveOnce sync.Once
	sharedMassiveOpt  gtree.Option
)

func snapshot(dir string) []string {
	var out []string
	filepath.WalkDir(dir, func(p string, d fs.DirEntry, err error) error {
		if err != nil || p == dir {
			return nil
		}
		rel, _ := filepath.Rel(dir, p)
		kind := "f"
		if d.IsDir() {
			kind = "d"
		}
		out = append(out, kind+":"+rel)
		return nil
	})
	sort.Strings(out)
	return out
}

// buildItems builds a programmatic tree from items (Add merges equally named siblings, as the spec's Trie).
func buildItems(items []wproto.Item) *gtree.Node {
	var chain []*gtree.Node
	var root *gtree.Node
	for _, it := range items {
		if it.D == 1 {
			root = gtree.NewRoot(it.N)
			chain = []*gtree.Node{root}
			continue
		}
		n := chain[it.D-2].Add(it.N)
		chain = append(chain[:it.D-1], n)
	}
	return root
}

var errReader = errors.New("verif: injected reader failure")
var errWriter = errors.New("verif: injected writer failure")

// wrapErr gives the injected failure another identity as well: a reader or writer whose own error wraps a
// context error (an HTTP body whose request timed out) is still a failing reader or writer
func wrapErr(base error, kind string) error {
	switch kind {
	case "canceled":
		return fmt.Errorf("%w (%w)", base, context.Canceled)
	case "deadline":
		return fmt.Errorf("%w (%w)", base, context.DeadlineExceeded)
	}
	return base
}

// failReader delivers the first n bytes of s (in small reads) and then fails.
type failReader struct {
	s      string
	n      int
	i      int
	e      error
	once   bool // the failure happens once; a caller that reads again gets the rest
	failed bool
}

func (f *failReader) Read(p []byte) (int, error) {
	if f.once && f.failed {
		if f.i >= len(f.s) {
			return 0, io.EOF
		}
		k := copy(p, f.s[f.i:])
		f.i += k
		return k, nil
	}
	if f.i >= f.n {
		f.failed = true
		return 0, f.e
	}
	k := copy(p, f.s[f.i:f.n])
	f.i += k
	return k, nil
}

// faultWriter accepts everything until call number at.
type faultWriter struct {
	wbig    int             // > 0: sleep that many microseconds in every Write of 1 KiB or more
	stall   <-chan struct{} // non-nil: every Write waits until it is closed
	yield   int
	mu      sync.Mutex
	buf     *bytes.Buffer
	fault   *wproto.WFault
	calls   int
	refused bool
	sizes   []int
	e       error
}

func (w *faultWriter) Write(p []byte) (int, error) {
	if w.stall != nil {
		<-w.stall
	}
	if w.wbig > 0 && len(p) >= 1024 {
		time.Sleep(time.Duration(w.wbig) * time.Microsecond)
	}
	yieldNow(w.yield)
	w.mu.Lock()
	defer w.mu.Unlock()
	w.calls++
	w.sizes = append(w.sizes, len(p))
	if w.fault != nil && strings.HasSuffix(w.fault.How, "-once") && w.calls != w.fault.At {
		return w.buf.Write(p) // a transient failure: only call number At is refused
	}
	if w.fault != nil && w.calls >= w.fault.At {
		w.refused = true
		if strings.HasPrefix(w.fault.How, "short") && w.calls == w.fault.At {
			n := len(p) / 2
			w.buf.Write(p[:n])
			return n, w.e
		}
		if strings.HasPrefix(w.fault.How, "full") {
			// every byte is taken and the call fails all the same (a log sink that lost its connection after buffering)
			w.buf.Write(p)
			return len(p), w.e
		}
		return 0, w.e
	}
	return w.buf.Write(p)
}

// yieldReader delivers the document in small pieces, yielding in between; it can fail after n bytes
// and cancel a context after k bytes.
type yieldReader struct {
	s        string
	i        int
	failAt   int // -1: never
	cancelAt int // -1: never
	cancel   func()
	yield    int
	e        error
	returned atomic.Bool  // the call under test has returned
	after    atomic.Int64 // Read calls that began after that
}

func yieldNow(y int) {
	switch {
	case y == 1:
		runtime.Gosched()
	case y > 1:
		time.Sleep(time.Duration(y) * time.Microsecond)
	}
}

func (f *yieldReader) Read(p []byte) (int, error) {
	if f.returned.Load() {
		f.after.Add(1)
	}
	yieldNow(f.yield)
	limit := len(f.s)
	if f.failAt >= 0 && f.failAt < limit {
		limit = f.failAt
	}
	if f.cancelAt >= 0 && f.i >= f.cancelAt && f.cancel != nil {
		f.cancel()
		f.cancel = nil
	}
	if f.i >= limit {
		if f.failAt >= 0 {
			return 0, f.e
		}
		return 0, io.EOF
	}
	n := len(p)
	if f.yield > 0 && n > 7 {
		n = 7
	}
	if f.cancelAt > f.i && f.i+n > f.cancelAt {
		n = f.cancelAt - f.i
	}
	k := copy(p[:n], f.s[f.i:limit])
	f.i += k
	return k, nil
}

var errCallback = errors.New("verif: injected callback failure")

// manualCtx is a context whose deadline "expires" when the harness says so.
type manualCtx struct {
	mu   sync.Mutex
	done chan struct{}
	over bool
}

func (m *manualCtx) Deadline() (time.Time, bool) { return time.Time{}, false }
func (m *manualCtx) Done() <-chan struct{}       { return m.done }
func (m *manualCtx) Value(any) any               { return nil }
func (m *manualCtx) Err() error {
	m.mu.Lock()
	defer m.mu.Unlock()
	if m.over {
		return context.DeadlineExceeded
	}
	return nil
}
func (m *manualCtx) expire() {
	m.mu.Lock()
	defer m.mu.Unlock()
	if !m.over {
		m.over = true
		close(m.done)
	}
}

// nthNode re-builds the tree and returns its k-th node in the order the items were given (nil for -1)
func nthNode(root *gtree.Node, k int, items []wproto.Item) *gtree.Node {
	if k < 0 {
		return nil
	}
	var chain []*gtree.Node
	for i, it := range items {
		var n *gtree.Node
		if it.D == 1 {
			n = root
			chain = []*gtree.Node{root}
		} else {
			n = chain[it.D-2].Add(it.N)
			chain = append(chain[:it.D-1], n)
		}
		if i == k {
			return n
		}
	}
	return root
}

func handleReq(rq wproto.Req) (rp wproto.Rep) {
	if len(rq.Par) > 0 {
		// several calls at the same time, one goroutine each (they share what a process shares: the extension slice,
		// the WithMassive option value, the package state of gtree)
		rp.Class = "par"
		rp.Sub = make([]wproto.Rep, len(rq.Par))
		// The calls share the process's current directory as well: it is the parent of their jails, and the second call
		// names its targets relative to it (a call that changes the working directory disturbs the other one).
		if parent, err := os.MkdirTemp("", "verif-par-"); err == nil {
			defer os.RemoveAll(parent)
			if old, err := os.Getwd(); err == nil && os.Chdir(parent) == nil {
				defer os.Chdir(old)
				for i := range rq.Par {
					rq.Par[i].JailIn = filepath.Join(parent, fmt.Sprintf("j%d", i))
					rq.Par[i].RelJail = i == 1
					for _, t := range rq.Par[i].OptSeq {
						if t == "massive" || t == "mcancel" {
							// (goroutines of a failed massive call may still be at work when the pair is over and the
							// directory has been changed back: they would create directories relative to it)
							rq.Par[i].RelJail = false
						}
					}
				}
			}
		}
		// Mkdir with dry run prints its report to the colour package's process-wide writer (stdout, here the protocol
		// channel): one locked sink for the calls that run at the same time (those reports are not compared)
		color.Output = &faultWriter{buf: &bytes.Buffer{}}
		var wg sync.WaitGroup
		for i := range rq.Par {
			wg.Add(1)
			go func(i int) {
				defer wg.Done()
				rp.Sub[i] = handleOne(rq.Par[i], false)
			}(i)
		}
		wg.Wait()
		return rp
	}
	return handleOne(rq, true)
}

// handleOne serves one request; alone tells whether it is the only one running (process-wide settings allowed)
func handleOne(rq wproto.Req, alone bool) (rp wproto.Rep) {
	var buf, cbuf bytes.Buffer
	// fw is the sink of the operation: the writer handed to Output*, or - for Mkdir, which takes no writer - the colour
	// package's process-wide writer, where its dry-run report goes by design.  cw is color.Output for the operations
	// that were GIVEN a writer: nothing may arrive there (reported as Stray).
	fw := &faultWriter{buf: &buf, fault: rq.WFault, yield: rq.Yield, wbig: rq.WBig, e: wrapErr(errWriter, rq.ErrWrap)}
	cw := &faultWriter{buf: &cbuf}
	if alone {
		if rq.Op == "mkdir" {
			color.Output = fw
		} else {
			color.Output = cw
		}
		if rq.Color {
			color.NoColor = false
			defer func() { color.NoColor = true }()
		}
	}
	opts := reqOpts(rq)
	if rq.Procs > 0 {
		defer runtime.GOMAXPROCS(runtime.GOMAXPROCS(rq.Procs))
	}
	hc := newHookCtl(rq)
	if rq.Record || rq.Delays != 0 || len(rq.Plan) > 0 || rq.Stall != nil {
		hc.install()
		defer hc.uninstall()
	}
	var stallCh chan struct{}
	var lastSeen chan struct{}
	if rq.Stall != nil {
		stallCh, lastSeen = make(chan struct{}), make(chan struct{})
		fw.stall = stallCh
		sends := 0
		hc.watch = func(point, item string) {
			if point == "split.send.pre" {
				sends++
				if sends == rq.Stall.Blocks {
					close(lastSeen)
				}
			}
		}
	}
	var cancelUser func()
	if rq.Massive {
		ctx, cancel := context.WithCancel(context.Background())
		if rq.CtxKind == "deadline" {
			// a context that ends the way an expired deadline does, at the instant the harness chooses
			mc := &manualCtx{done: make(chan struct{})}
			ctx, cancel = mc, mc.expire
		}
		defer cancel()
		cancelUser = func() { hc.log("env.cancel", ""); cancel() }
		if rq.CancelAt != nil && *rq.CancelAt < 0 {
			cancelUser()
		}
		for _, st := range rq.Plan {
			if st.Point == "env.cancel.pre" { // the plan says when the caller cancels: a goroutine waits at the gate for its turn
				go func() { hc.hook("env.cancel.pre", 0, ""); cancelUser() }()
				break
			}
		}
		opts = append(opts, gtree.WithMassive(ctx))
	}
	var jail string
	if rq.OptMode {
		var err error
		if rq.JailIn != "" {
			jail = rq.JailIn
			err = os.MkdirAll(jail, 0o755)
		} else {
			jail, err = os.MkdirTemp("", "verif-jail-")
			defer os.RemoveAll(jail)
		}
		if err != nil {
			return wproto.Rep{Class: "err", Err: "harness: " + err.Error()}
		}
		os.Mkdir(filepath.Join(jail, "A"), 0o755)
		os.Mkdir(filepath.Join(jail, "B"), 0o755)
		octx, ocancel := context.WithCancel(context.Background())
		defer ocancel()
		base := jail // how the call names its directories: absolute, or relative to the current directory
		if rq.RelJail {
			base = filepath.Base(jail)
		}
		opts = []gtree.Option{gtree.WithTargetDir(filepath.Join(base, "A"))}
		for _, t := range rq.OptSeq {
			opts = append(opts, optOf(t, base, octx))
		}
	} else if rq.Target != "" {
		target := rq.Target
		if rq.TargetSpell != "" && alone {
			// the same directory, spelled differently and relative to the current directory
			dir := filepath.Dir(rq.Target)
			p, t := filepath.Base(dir), filepath.Base(rq.Target)
			if old, err := os.Getwd(); err == nil && os.Chdir(filepath.Dir(dir)) == nil {
				defer os.Chdir(old)
				switch rq.TargetSpell {
				case "slash":
					target = p + "/" + t + "/"
				case "dot":
					target = "./" + p + "/" + t
				case "dslash":
					target = p + "//" + t
				case "dotin":
					target = p + "/./" + t
				case "dotdot":
					target = p + "/gone/../" + t // lexically the same directory; "gone" does not exist
				}
			}
		}
		opts = append(opts, gtree.WithTargetDir(target))
	} else if rq.Jail || rq.Op == "mkdir" || rq.Op == "verify" {
		var err error
		jail, err = os.MkdirTemp("", "verif-jail-")
		if err != nil {
			return wproto.Rep{Class: "err", Err: "harness: " + err.Error()}
		}
		defer os.RemoveAll(jail)
		os.Mkdir(filepath.Join(jail, "t"), 0o755)
		opts = append(opts, gtree.WithTargetDir(filepath.Join(jail, "t")))
	}
	var mu sync.Mutex // massive mode calls back from several goroutines
	visits := 0
	var kept []*gtree.WalkerNode // a callback may keep the nodes it is handed and read them when the walk is over
	var walk []string            // callbacks may still arrive while a cancelled call is winding down: never touch rp from them
	cb := func(wn *gtree.WalkerNode) error {
		if stallCh != nil {
			<-stallCh
		}
		yieldNow(rq.Yield)
		mu.Lock()
		defer mu.Unlock()
		walk = append(walk, wn.Row())
		kept = append(kept, wn)
		visits++
		if rq.FailVisit > 0 && visits == rq.FailVisit {
			return errCallback
		}
		for _, n := range rq.FailNames {
			if n == wn.Name() {
				return errCallback
			}
		}
		return nil
	}
	var theReader *yieldReader
	var before map[string]string
	if rq.Leaks || rq.Record || rq.Delays != 0 || len(rq.Plan) > 0 {
		before = real.GtreeGoroutines()
	}
	if rq.PreDoc != "" && jail != "" {
		// the directory state the case needs: made with the simple mode before the call under test
		sub, exts := "t", []string(nil)
		if rq.OptMode {
			sub, exts = "A", []string{".x"}
		}
		if err := gtree.MkdirFromMarkdown(strings.NewReader(rq.PreDoc), gtree.WithTargetDir(filepath.Join(jail, sub)), gtree.WithFileExtensions(exts)); err != nil && !rq.PreLoose {
			return wproto.Rep{Class: "err", Err: "harness: pre-mkdir: " + err.Error()}
		}
	}
	for _, f := range rq.PreFiles {
		if jail != "" {
			os.WriteFile(filepath.Join(jail, f), []byte("x"), 0o644)
		}
	}
	var stallUnforced atomic.Bool
	if rq.Stall != nil {
		go func() {
			select {
			case <-lastSeen:
				time.Sleep(50 * time.Millisecond) // the splitter goes from its hook into the hand-over
				switch rq.Stall.Then {
				case "cancel":
					if cancelUser != nil {
						cancelUser()
					}
				case "wfail":
					fw.mu.Lock()
					fw.fault = &wproto.WFault{How: "fail", At: 1}
					fw.mu.Unlock()
				}
			case <-time.After(10 * time.Second):
				stallUnforced.Store(true)
			}
			close(stallCh)
		}()
	}
	start := time.Now()
	o := real.Guard(func() error {
		if rq.Route == "root" {
			root := buildItems(rq.Items)
			for _, po := range rq.PreOps { // earlier operations on the very same tree
				switch po {
				case "output":
					gtree.OutputFromRoot(io.Discard, root)
				case "json":
					gtree.OutputFromRoot(io.Discard, root, gtree.WithEncodeJSON())
				case "walk":
					gtree.WalkFromRoot(root, func(*gtree.WalkerNode) error { return nil })
				case "walkiter":
					for range gtree.WalkIterFromRoot(root) {
					}
				case "massive-output":
					gtree.OutputFromRoot(io.Discard, root, gtree.WithMassive(context.Background()))
				case "dry-color":
					// a dry run with colours on (a program on a terminal), then the operation under test on the same tree
					color.NoColor = false
					gtree.OutputFromRoot(io.Discard, root, gtree.WithDryRun())
					color.NoColor = true
				case "mkdir-elsewhere":
					if tmp, err := os.MkdirTemp("", "verif-premk-"); err == nil {
						gtree.MkdirFromRoot(root, gtree.WithTargetDir(tmp))
						os.RemoveAll(tmp)
					}
				}
			}
			if rq.NodeIdx != 0 {
				root = nthNode(root, rq.NodeIdx, rq.Items)
			}
			switch {
			case rq.Op == "output" && rq.Alias:
				return gtree.OutputProgrammably(fw, root, opts...)
			case rq.Op == "output":
				return gtree.OutputFromRoot(fw, root, opts...)
			case rq.Op == "walk" && rq.Alias:
				return gtree.WalkProgrammably(root, cb, opts...)
			case rq.Op == "walk":
				return gtree.WalkFromRoot(root, cb, opts...)
			case rq.Op == "mkdir" && rq.Alias:
				return gtree.MkdirProgrammably(root, opts...)
			case rq.Op == "mkdir":
				return gtree.MkdirFromRoot(root, opts...)
			case rq.Op == "verify" && rq.Alias:
				return gtree.VerifyProgrammably(root, opts...)
			case rq.Op == "verify":
				return gtree.VerifyFromRoot(root, opts...)
			}
			return fmt.Errorf("harness: unknown op %q", rq.Op)
		}
		var r io.Reader = strings.NewReader(rq.Doc)
		if rq.ReadFail != nil && rq.Yield == 0 && rq.CancelAt == nil {
			r = &failReader{s: rq.Doc, n: *rq.ReadFail, e: wrapErr(errReader, rq.ErrWrap), once: rq.ReadOnce}
		} else if rq.ReadFail != nil || rq.Yield > 0 || (rq.CancelAt != nil && *rq.CancelAt >= 0) {
			yr := &yieldReader{s: rq.Doc, failAt: -1, cancelAt: -1, cancel: cancelUser, yield: rq.Yield, e: wrapErr(errReader, rq.ErrWrap)}
			if rq.ReadFail != nil {
				yr.failAt = *rq.ReadFail
			}
			if rq.CancelAt != nil {
				yr.cancelAt = *rq.CancelAt
			}
			r = yr
			theReader = yr
		}
		switch {
		case rq.Op == "output" && rq.Alias:
			return gtree.Output(fw, r, opts...)
		case rq.Op == "output":
			return gtree.OutputFromMarkdown(fw, r, opts...)
		case rq.Op == "walk" && rq.Alias:
			return gtree.Walk(r, cb, opts...)
		case rq.Op == "walk":
			return gtree.WalkFromMarkdown(r, cb, opts...)
		case rq.Op == "mkdir" && rq.Alias:
			return gtree.Mkdir(r, opts...)
		case rq.Op == "mkdir":
			return gtree.MkdirFromMarkdown(r, opts...)
		case rq.Op == "verify" && rq.Alias:
			return gtree.Verify(r, opts...)
		case rq.Op == "verify":
			return gtree.VerifyFromMarkdown(r, opts...)
		}
		return fmt.Errorf("harness: unknown op %q", rq.Op)
	})
	mu.Lock()
	rp.Walk = append([]string{}, walk...)
	if o.Class() == "ok" {
		// collect first, report later: a node kept from its visit still answers what it answered then
		for i, wn := range kept {
			if now := wn.Row(); i < len(rp.Walk) && now != rp.Walk[i] {
				rp.Walk[i] = fmt.Sprintf("<the node handed to a visit said Row=%q when visited and says Row=%q after the walk>", rp.Walk[i], now)
			}
		}
	}
	mu.Unlock()
	fw.mu.Lock() // a spreader goroutine may still be inside a Write when the call has returned an error
	rp.Class, rp.Out, rp.Err = o.Class(), buf.String(), o.ErrString()
	fw.mu.Unlock()
	heldMu.Lock()
	for _, e := range heldErrs {
		if e == nil {
			rp.Held = append(rp.Held, "")
		} else {
			rp.Held = append(rp.Held, e.Error())
		}
	}
	if o.Err != nil {
		rp.RawErr = o.Err.Error()
	}
	if len(heldErrs) < 8 {
		heldErrs = append(heldErrs, o.Err)
	}
	heldMu.Unlock()
	rp.ElapsedUs = time.Since(start).Microseconds()
	rp.IsReaderErr = o.Err != nil && errors.Is(o.Err, errReader)
	rp.IsCtxErr = o.Err != nil && errors.Is(o.Err, context.Canceled)
	if rq.CtxKind == "deadline" {
		rp.IsCtxErr = o.Err != nil && errors.Is(o.Err, context.DeadlineExceeded)
	}
	fw.mu.Lock()
	rp.WCalls, rp.WRefused, rp.WSizes = fw.calls, fw.refused, fw.sizes
	fw.mu.Unlock()
	if alone {
		cw.mu.Lock()
		rp.Stray = cw.buf.String()
		cw.mu.Unlock()
	}
	if o.Panic != "" {
		rp.Err = firstLine(o.Panic)
	}
	if jail != "" {
		rp.Entries = snapshot(jail)
		if rq.OptMode { // every call has its own jail: make the texts comparable
			rp.Err = strings.ReplaceAll(rp.Err, jail, "$JAIL")
			if rq.RelJail {
				rp.Err = strings.ReplaceAll(rp.Err, filepath.Base(jail)+"/", "$JAIL/")
			}
			// the verifier lists paths in map order: sort the lines below each heading
			var blocks [][]string
			for _, l := range strings.Split(rp.Err, "\n") {
				if !strings.HasPrefix(l, "\t") || len(blocks) == 0 {
					blocks = append(blocks, []string{l})
				} else {
					blocks[len(blocks)-1] = append(blocks[len(blocks)-1], l)
				}
			}
			var ls []string
			for _, b := range blocks {
				sort.Strings(b[1:])
				ls = append(ls, b...)
			}
			rp.Err = strings.Join(ls, "\n")
			rp.Out = strings.ReplaceAll(rp.Out, jail, "$JAIL")
		}
	}
	hc.release()
	if theReader != nil {
		theReader.returned.Store(true)
	}
	if rq.Leaks && rp.Class != "hang" {
		leaks, unsettled := real.SettledLeaks(before, 150*time.Millisecond, 20*time.Second)
		if unsettled {
			rp.Unsettled = true
		} else {
			rp.Leaked, rp.LeakSigs = len(leaks), leaks
		}
		hc.log("settled", fmt.Sprint(rp.Leaked))
		if theReader != nil {
			rp.ReadsAfter = int(theReader.after.Load())
		}
	}
	hc.mu.Lock()
	rp.Events, rp.Unforced, rp.PlanDone = append([]wproto.Event{}, hc.events...), hc.unforced || stallUnforced.Load(), hc.planIdx
	hc.mu.Unlock()
	if rq.Record || rq.Delays != 0 || len(rq.Plan) > 0 {
		// goroutines still held at the gate, or still winding down, must not spill their hook events into
		// the next request's recording
		hc.release()
		if !rq.Leaks {
			real.SettledLeaks(before, 300*time.Millisecond, 5*time.Second)
		}
	}
	return rp
}
