package main

import (
	"context"
	"errors"
	"fmt"
	"runtime"
	"sort"
	"strings"
	"sync"
	"time"

	"github.com/ddddddO/gtree"

	"verif/harness/evid"
	"verif/harness/real"
	"verif/harness/tla"
	"verif/harness/tlcrun"
	"verif/harness/tok"
)

// apiCall is one entry of Api.tla's hist.
type apiCall struct {
	Op   string   `json:"op"` // NewRoot | Add | Op
	Name []string `json:"name,omitempty"`
	P    int      `json:"p"`
	Kind string   `json:"kind,omitempty"`
}

type apiExp struct {
	K      string
	Err    string
	Rows   [][]string
	Forest []*Tree
	Walk   []WalkObs
	ID     int
}

type apiState struct {
	N     int
	Hist  []apiCall
	Exp   apiExp
	Snaps [][]WalkObs // per iterator held by the program: what a walk gave when it was created
}

func apiStateOf(st *tla.State) *apiState {
	a := &apiState{N: st.N}
	for _, c := range tla.Q(st.Get("hist")) {
		r := tla.R(c)
		a.Hist = append(a.Hist, apiCall{Op: tla.S(r["op"]), Name: tla.Strs(r["name"]), P: tla.I(r["p"]), Kind: tla.S(r["kind"])})
	}
	e := tla.R(st.Get("exp"))
	a.Exp = apiExp{K: tla.S(e["k"]), Err: tla.S(e["err"]), Rows: tla.Lines(e["rows"]), ID: tla.I(e["id"])}
	for _, t := range tla.Q(e["forest"]) {
		a.Exp.Forest = append(a.Exp.Forest, treeOf(t))
	}
	a.Exp.Walk = walkObsOf(e["walk"])
	for _, it := range tla.Q(st.Get("iters")) {
		a.Snaps = append(a.Snaps, walkObsOf(tla.R(it)["snap"]))
	}
	return a
}

func walkObsOf(v tla.Value) []WalkObs {
	var ws []WalkObs
	for _, w := range tla.Q(v) {
		wr := tla.R(w)
		ws = append(ws, WalkObs{Name: tla.Strs(wr["name"]), Branch: tla.Strs(wr["branch"]),
			Path: tla.Lines(wr["path"]), Level: tla.I(wr["level"]), HasChild: tla.B(wr["hasChild"])})
	}
	return ws
}

func histString(h []apiCall) string {
	var parts []string
	for _, c := range h {
		switch c.Op {
		case "NewRoot":
			parts = append(parts, fmt.Sprintf("NewRoot(%s)", strings.Join(c.Name, "")))
		case "Add":
			parts = append(parts, fmt.Sprintf("Add(#%d,%s)", c.P, strings.Join(c.Name, "")))
		case "Open":
			parts = append(parts, fmt.Sprintf("it:=WalkIter(#%d)", c.P))
		case "Range":
			parts = append(parts, fmt.Sprintf("range it%d", c.P))
		case "RangeBreak":
			parts = append(parts, fmt.Sprintf("range it%d{break}", c.P))
		default:
			parts = append(parts, fmt.Sprintf("%s(#%d)", c.Kind, c.P))
		}
	}
	return strings.Join(parts, "; ")
}

type apiReplayRec struct {
	Hist    []apiCall `json:"history"`
	Conc    *tok.Conc `json:"concretisation"`
	Variant int       `json:"variant"`
	Want    any       `json:"want"`
	Got     any       `json:"got"`
}

// runOp executes one From-Root operation of the model's kind through one of the real entry points that
// implement it (variant selects which: current function / deprecated alias / encoder) and compares the
// result with exp when check is set. It returns "" or a description of the deviation.
func runOp(kind string, node *gtree.Node, c *tok.Conc, variant int, exp *apiExp, mdDiff bool) (string, string) {
	bo := branchOpts(c)
	var mo []gtree.Option // "mtext" / "mtree": the same operation with the massive option
	if kind == "mtext" || kind == "mtree" {
		kind = kind[1:]
		mo = []gtree.Option{gtree.WithMassive(context.Background())}
		bo = append(append([]gtree.Option{}, bo...), mo...)
	}
	switch kind {
	case "text":
		var o real.Outcome
		if variant%2 == 0 {
			o = real.OutputRoot(node, bo...)
		} else {
			o = real.OutputRootAlias(node, bo...)
		}
		if exp == nil {
			return "", ""
		}
		if exp.K == "err" {
			return checkSentinel(o, exp.Err), "sentinel"
		}
		want := ""
		for _, row := range exp.Rows {
			want += c.Seq(row) + "\n"
		}
		if o.Class() != "ok" || o.Out != want {
			return fmt.Sprintf("text: want=%q got=%q err=%v %s", want, o.Out, o.Err, firstLine(o.Panic)), "rows-differ"
		}
		if mdDiff {
			md := real.OutputMD(canonDoc(exp, c), bo...)
			if md.Class() != "ok" || md.Out != o.Out {
				return fmt.Sprintf("text: From-Root=%q From-Markdown=%q (%v)", o.Out, md.Out, md.Err), "differs-from-markdown"
			}
		}
	case "tree":
		er := encRoutes[variant%len(encRoutes)]
		var o real.Outcome
		if variant%2 == 0 {
			o = real.OutputRoot(node, append([]gtree.Option{er.opt}, mo...)...)
		} else {
			o = real.OutputRootAlias(node, append([]gtree.Option{er.opt}, mo...)...)
		}
		if exp == nil {
			return "", ""
		}
		if exp.K == "err" {
			return checkSentinel(o, exp.Err), "sentinel"
		}
		if o.Class() != "ok" {
			return fmt.Sprintf("%s: class=%s err=%v %s", er.name, o.Class(), o.Err, firstLine(o.Panic)), er.name + "-failed"
		}
		dt, err := er.decode(o.Out)
		if err != nil || !sameForest(dt, exp.Forest, c) {
			return fmt.Sprintf("%s: out=%q decode err=%v", er.name, o.Out, err), er.name + "-not-isomorphic"
		}
		if mdDiff {
			md := real.OutputMD(canonDocTree(exp.Forest[0], c), er.opt)
			if md.Class() != "ok" || md.Out != o.Out {
				return fmt.Sprintf("%s: From-Root=%q From-Markdown=%q (%v)", er.name, o.Out, md.Out, md.Err), "differs-from-markdown"
			}
		}
	case "verify":
		// a directory that does not exist: the call fails (missing paths, or an invalid name) and must leave no trace
		o := real.VerifyRootMissing(node)
		if exp == nil {
			return "", ""
		}
		if exp.K == "err" {
			return checkSentinel(o, exp.Err), "sentinel"
		}
		if o.Class() != "err" {
			return fmt.Sprintf("verify of a missing directory: class=%s %s", o.Class(), firstLine(o.Panic)), "verify-missing-dir"
		}
	case "mkdir":
		got, o := real.MkdirRootFresh(node)
		if exp == nil {
			return "", ""
		}
		if exp.K == "err" {
			return checkSentinel(o, exp.Err), "sentinel"
		}
		var want []string
		var rec func(t *Tree, prefix string)
		rec = func(t *Tree, prefix string) {
			p := prefix + c.Seq(t.Name) + "/"
			want = append(want, p)
			for _, k := range t.Kids {
				rec(k, p)
			}
		}
		rec(exp.Forest[0], "")
		sort.Strings(want)
		if o.Class() != "ok" || !sameStrs(got, want) {
			return fmt.Sprintf("mkdir into a fresh directory: want=%v got=%v err=%v %s", want, got, o.Err, firstLine(o.Panic)), "mkdir-not-the-tree"
		}
	case "walk":
		var recs []real.WalkRec
		var o real.Outcome
		switch variant % 4 {
		case 0:
			recs, o = real.WalkRoot(node, 0, nil, bo...)
		case 1:
			recs, o = real.WalkRootAlias(node, bo...)
		case 2:
			recs, o = real.WalkIterRoot(node, 0, bo...)
		case 3:
			recs, o = real.WalkIterRootAlias(node, bo...)
		}
		if exp == nil {
			return "", ""
		}
		if exp.K == "err" {
			if len(recs) != 0 {
				return fmt.Sprintf("walk: %d callbacks for a rejected argument", len(recs)), "sentinel"
			}
			return checkSentinel(o, exp.Err), "sentinel"
		}
		want := expectWalk(exp.Walk, c)
		if o.Class() != "ok" || !sameWalk(recs, want) {
			return fmt.Sprintf("walk(variant %d): want=%v got=%v err=%v %s", variant%4, want, recs, o.Err, firstLine(o.Panic)), "walk-differs"
		}
		if mdDiff {
			mrecs, mo := real.WalkMD(canonDocWalk(exp.Walk, c), 0, nil, bo...)
			if mo.Class() != "ok" || !sameWalk(mrecs, recs) {
				return fmt.Sprintf("walk: From-Root=%v From-Markdown=%v (%v)", recs, mrecs, mo.Err), "differs-from-markdown"
			}
		}
	}
	return "", ""
}

func checkSentinel(o real.Outcome, want string) string {
	var sentinel error
	switch want {
	case "ErrNilNode":
		sentinel = gtree.ErrNilNode
	case "ErrNotRoot":
		sentinel = gtree.ErrNotRoot
	}
	if o.Class() != "err" || !errors.Is(o.Err, sentinel) {
		return fmt.Sprintf("want %s, got class=%s err=%v %s", want, o.Class(), o.Err, firstLine(o.Panic))
	}
	if o.Out != "" {
		return fmt.Sprintf("want %s and nothing written, but %q was written", want, o.Out)
	}
	return ""
}

// canonical Markdown spelling of the expected tree
func canonDocTree(t *Tree, c *tok.Conc) string {
	var sb strings.Builder
	var rec func(t *Tree, d int)
	rec = func(t *Tree, d int) {
		sb.WriteString(strings.Repeat("  ", d-1) + "- " + c.Seq(t.Name) + "\n")
		for _, k := range t.Kids {
			rec(k, d+1)
		}
	}
	rec(t, 1)
	return sb.String()
}

func canonDoc(exp *apiExp, c *tok.Conc) string {
	// rebuild from rows: depth = number of branch tokens; name = after the SP following the branch
	var sb strings.Builder
	for _, row := range exp.Rows {
		d := 0
		for d < len(row) && (row[d] == "LD" || row[d] == "LI" || row[d] == "MD" || row[d] == "MI") {
			d++
		}
		name := row
		if d > 0 {
			name = row[d+1:]
		}
		sb.WriteString(strings.Repeat("  ", d) + "- " + c.Seq(name) + "\n")
	}
	return sb.String()
}

func canonDocWalk(ws []WalkObs, c *tok.Conc) string {
	var sb strings.Builder
	for _, w := range ws {
		sb.WriteString(strings.Repeat("  ", w.Level-1) + "- " + c.Seq(w.Name) + "\n")
	}
	return sb.String()
}

// replayHistory executes a history on the real API, checking the identity rules of NewRoot/Add on the
// way and the result of the LAST call against the specification. It returns "" or (description, kind).
func replayHistory(a *apiState, c *tok.Conc, mdDiff bool) (string, string) {
	nodes := []*gtree.Node{nil}
	kids := map[int]map[string]int{}
	type heldIter struct {
		it func(func(*gtree.WalkerNode, error) bool)
		c  *tok.Conc
	}
	var held []heldIter
	for i, call := range a.Hist {
		last := i == len(a.Hist)-1
		switch call.Op {
		case "Open":
			// the iterator is only created here; its branch strings are those given now
			ci := tok.WithBranches(c, a.N+i)
			var it func(func(*gtree.WalkerNode, error) bool)
			if (a.N+i)%2 == 0 {
				it = gtree.WalkIterFromRoot(nodes[call.P], branchOpts(ci)...)
			} else {
				it = gtree.WalkIterProgrammably(nodes[call.P], branchOpts(ci)...)
			}
			held = append(held, heldIter{it, ci})
		case "Range", "RangeBreak":
			h := held[call.P-1]
			var recs []real.WalkRec
			var o real.Outcome
			if call.Op == "RangeBreak" {
				recs, o = real.RangeWalkBreak(h.it, 1) // the loop is left after its first visit
			} else {
				recs, o = real.RangeWalk(h.it)
			}
			if last {
				want := expectWalk(a.Exp.Walk, h.c)
				// the walk of the tree as it is now; a snapshot taken when the iterator was created would be a
				// function of a tree too - anything else is not
				atOpen := expectWalk(a.Snaps[call.P-1], h.c)
				if call.Op == "RangeBreak" && len(atOpen) > 1 {
					atOpen = atOpen[:1]
				}
				if o.Class() != "ok" || !(sameWalk(recs, want) || sameWalk(recs, atOpen)) {
					return fmt.Sprintf("call %d range over iterator %d: want=%v (or, as of its creation, %v) got=%v err=%v %s",
						i+1, call.P, want, atOpen, recs, o.Err, firstLine(o.Panic)), "deferred-iterator-walk-differs"
				}
			}
		case "NewRoot":
			n := gtree.NewRoot(c.Seq(call.Name))
			if n == nil {
				return "NewRoot returned nil", "newroot-nil"
			}
			nodes = append(nodes, n)
		case "Add":
			name := c.Seq(call.Name)
			got := nodes[call.P].Add(name)
			if id, ok := kids[call.P][name]; ok {
				if got != nodes[id] {
					return fmt.Sprintf("call %d: Add of an existing name returned a different node", i+1), "add-existing-not-identical"
				}
			} else {
				for _, n := range nodes[1:] {
					if n == got {
						return fmt.Sprintf("call %d: Add of a new name returned an existing node", i+1), "add-new-returned-old"
					}
				}
				if kids[call.P] == nil {
					kids[call.P] = map[string]int{}
				}
				kids[call.P][name] = len(nodes)
				nodes = append(nodes, got)
			}
			if last && a.Exp.ID != 0 && nodes[a.Exp.ID] != got {
				return fmt.Sprintf("call %d: Add returned a node other than #%d", i+1, a.Exp.ID), "add-wrong-node"
			}
		case "Op":
			variant := a.N + i
			// every operation of a history gets its own branch strings: results must not remember an earlier call's options
			c := tok.WithBranches(c, variant)
			if last {
				if d, k := runOp(call.Kind, nodes[call.P], c, variant, &a.Exp, mdDiff); d != "" {
					return fmt.Sprintf("call %d %s(#%d): %s", i+1, call.Kind, call.P, d), call.Kind + ":" + k
				}
			} else {
				runOp(call.Kind, nodes[call.P], c, variant, nil, false)
			}
		}
	}
	return "", ""
}

// runApiModel model-checks an Api.tla instance; `each` gets every state (parsed in parallel).
func runApiModel(r *evid.Run, cfg string, timeout time.Duration, each func(a *apiState)) *tlcrun.Result {
	nw := runtime.NumCPU()
	ch := make(chan *tla.State, 256)
	var wg sync.WaitGroup
	for i := 0; i < nw; i++ {
		wg.Add(1)
		go func() {
			defer wg.Done()
			for st := range ch {
				each(apiStateOf(st))
			}
		}()
	}
	res, err := tlcrun.Run(tlcrun.Opts{SpecDir: specDir, Module: "MC_Api", Cfg: cfg, Timeout: timeout, Dump: true},
		func(st *tla.State) error { ch <- st; return nil })
	close(ch)
	wg.Wait()
	if err != nil {
		r.Broken("TLC MC_Api/%s: %v\n%s", cfg, err, tail(res))
		return res
	}
	if res.Violated != "" || res.ErrorText != "" {
		r.Broken("the specified design violates its own property in MC_Api/%s: %s %s\n%s", cfg, res.Violated, res.ErrorText, tail(res))
		return res
	}
	if res.Distinct == 0 || res.Dumped != res.Distinct {
		r.Broken("TLC MC_Api/%s: %d distinct states but %d dumped", cfg, res.Distinct, res.Dumped)
	}
	r.Count("states", res.Distinct)
	r.Count("transitions", res.Generated)
	r.Count("replayed_states", res.Dumped)
	fmt.Printf("model MC_Api/%s: %d distinct states, %d generated, depth %d, %.1fs, replayed %d\n", cfg, res.Distinct, res.Generated, res.Depth, res.Wall.Seconds(), res.Dumped)
	return res
}
