package main

import (
	"fmt"
	"runtime"
	"strings"
	"time"

	"github.com/ddddddO/gtree"

	"verif/harness/evid"
	"verif/harness/real"
	"verif/harness/tok"
	"verif/harness/wproto"
)

func init() { register("C04", "model_checking", checkC04) }

// hostile chunk pairs (a, b): quotes, colons, hashes, backslashes, Unicode, control characters and
// scalars that YAML/TOML/JSON treat specially when unquoted
var c04Pools = [][2]string{
	{"a", "b"},
	{`q"uo`, `k:`}, {`w\x`, `'t`}, {"yes", "~"}, {"1e3", "null"}, {"x\x01y", "\x7f"}, {"日本", "🌳"},
	{"[z]", "{m}"}, {"&a", "!t"}, {"%p", "@"}, {"|", ">"}, {"true", "0x1F"}, {"é", "é"},
	{" ", "\u0085x"}, {`\n`, `\"`}, {"=", ","}, {"?", ":"}, {"''", `""`}, {"<<", "y"}, {"\x1b[0m", "\x00"},
	{"2001:12:14", "0o7"}, {".inf", "_"}, {"N", "Off"}, {"`", "$("}, {"key=", "[["},
	{"null", "~"}, {"~", "Null"}, {"123", "2001-12-14"}, {"0x1f", "-.5"},
	// text that looks like an escape sequence of the target notation (a backslash and a hex escape, an entity, a YAML tag)
	{`C:\u003cdir`, `\u0026amp;`}, {`&lt;\x41`, `\U0001F333`}, {`!!str x`, `%YAML`},
}

// names Markdown cannot spell (one line per item, a trailing CR belongs to the line ending)
var c04RootOnly = &tok.Conc{Name: "c04-root-only", Chunks: map[string]string{"a": "x\ny", "b": "z\r"}, WS: " ",
	LD: "└──", LI: "    ", MD: "├──", MI: "│   ", FinalNL: true}

func c04Conc(i int) *tok.Conc {
	p := c04Pools[i%len(c04Pools)]
	return &tok.Conc{Name: fmt.Sprintf("c04pool%d", i), Chunks: map[string]string{"a": p[0], "b": p[1]}, WS: " ",
		LD: "└──", LI: "    ", MD: "├──", MI: "│   ", FinalNL: i%2 == 0}
}

type encRoute struct {
	name   string
	opt    gtree.Option
	decode func(string) ([]*real.DTree, error)
	single bool
}

var encRoutes = []encRoute{
	{"json", gtree.WithEncodeJSON(), real.DecodeJSON, false},
	{"yaml", gtree.WithEncodeYAML(), real.DecodeYAML, false},
	{"toml", gtree.WithEncodeTOML(), real.DecodeTOML, true},
}

func checkEncoders(r *evid.Run, d *DocState, concs []*tok.Conc) {
	for _, c := range concs {
		doc := c.Doc(d.Doc)
		for _, er := range encRoutes {
			if er.single && len(d.Forest) != 1 {
				continue
			}
			// From-Markdown, both generator routes
			for _, noiter := range []bool{false, true} {
				opts := []gtree.Option{er.opt}
				route := "md-" + er.name
				if noiter {
					opts = append(opts, gtree.WithNoUseIterOfSimpleOutput())
					route += "/slice"
				}
				o := real.OutputMD(doc, opts...)
				r.Count("real_calls", 1)
				checkDecoded(r, d, c, doc, route, er, o, d.Forest)
			}
			// From-Root, one tree per call; every fourth state under names only a program can give a node (a line break
			// inside, a trailing CR): the encoders carry them, Markdown could not
			rootConcs := []*tok.Conc{c}
			if d.N%4 == 0 {
				rootConcs = append(rootConcs, c04RootOnly)
			}
			for _, c := range rootConcs {
				for i, t := range d.Forest {
					o := real.OutputRoot(buildRoot(t, c), er.opt)
					r.Count("real_calls", 1)
					checkDecoded(r, d, c, doc, fmt.Sprintf("root-%s", er.name), er, o, d.Forest[i:i+1])
					if (d.N+i)%3 == 0 { // the deprecated alias
						oa := real.OutputRootAlias(buildRoot(t, c), er.opt)
						r.Count("real_calls", 1)
						checkDecoded(r, d, c, doc, fmt.Sprintf("root-%s/alias", er.name), er, oa, d.Forest[i:i+1])
					}
				}
			}
		}
	}
}

// checkEncodersMassive: the massive-mode encoders (worker process: a crash in a pipeline goroutine must
// not take the driver down); roots may come in any order
func checkEncodersMassive(r *evid.Run, pool *wproto.Pool, d *DocState, c *tok.Conc) {
	doc := c.Doc(d.Doc)
	for _, er := range encRoutes {
		if er.single && len(d.Forest) != 1 {
			continue
		}
		rp := pool.Call(wproto.Req{Op: "output", Doc: doc, Format: er.name, Massive: true}, 30*time.Second)
		r.Count("real_calls", 1)
		route := "md-" + er.name + "/massive"
		rec := docReplay{Doc: d.Doc, Conc: c, Bytes: doc, Route: route, Got: rp.Out, Err: rp.Err}
		if rp.Class != "ok" {
			r.Mismatch(route+":"+rp.Class, fmt.Sprintf("doc=%q conc=%s err=%s", doc, c.Name, rp.Err), rec)
			continue
		}
		dt, err := er.decode(rp.Out)
		if err != nil {
			r.Mismatch(route+":not-well-formed", fmt.Sprintf("doc=%q conc=%s out=%q decode error: %v", doc, c.Name, rp.Out, err), rec)
			continue
		}
		var got, want []string
		for _, t := range dt {
			got = append(got, treeKey(t))
		}
		for _, t := range d.Forest {
			want = append(want, specTreeKey(t, c))
		}
		if !sameStrs(sortedCopy(got), sortedCopy(want)) {
			r.Mismatch(route+":not-isomorphic", fmt.Sprintf("doc=%q conc=%s out=%q", doc, c.Name, rp.Out), rec)
		}
	}
}

// c04Composition: one root with more than 10000 leaves (120 directories of 100 entries, then nodes with children of
// their own) - far beyond what TLC evaluates.  Forest.tla 3a (TrieComposes, an invariant of MC_C04): the tree of the
// root is its name over the trees of its children's sub-documents.  So the big output, decoded, must hold under its
// root exactly the trees that the same call gives for the 120+ small sub-documents (which are of the sizes the
// trace validation covers).
func c04Composition(r *evid.Run) {
	var subs []string
	for d := 0; d < 124; d++ {
		var sb strings.Builder
		fmt.Fprintf(&sb, "- dir%03d\n", d)
		n := 100
		if d >= 120 {
			n = 3 // (after the 12000th leaf: nodes with children, two levels)
		}
		for f := 0; f < n; f++ {
			fmt.Fprintf(&sb, "  - f%02d\n", f)
			if d >= 120 {
				fmt.Fprintf(&sb, "    - g%d\n", f)
			}
		}
		subs = append(subs, sb.String())
	}
	var big strings.Builder
	big.WriteString("- R\n")
	for _, s := range subs {
		for _, l := range strings.SplitAfter(s, "\n") {
			if l != "" {
				big.WriteString("  " + l)
			}
		}
	}
	for _, er := range encRoutes {
		var want []string
		for _, s := range subs {
			o := real.OutputMD(s, er.opt)
			r.Count("real_calls", 1)
			dt, err := er.decode(o.Out)
			if o.Class() != "ok" || err != nil || len(dt) != 1 {
				r.Mismatch("md-"+er.name+":composition:sub-document", fmt.Sprintf("sub-document %q: %s %v %v", clip(s, 60), o.Class(), o.Err, err), map[string]any{"doc": s})
				return
			}
			want = append(want, treeKey(dt[0]))
		}
		for _, noiter := range []bool{false, true} {
			opts := []gtree.Option{er.opt}
			route := "md-" + er.name
			if noiter {
				opts = append(opts, gtree.WithNoUseIterOfSimpleOutput())
				route += "/slice"
			}
			o := real.OutputMD(big.String(), opts...)
			r.Count("real_calls", 1)
			r.Count("composition_checks", 1)
			dt, err := er.decode(o.Out)
			if o.Class() != "ok" || err != nil || len(dt) != 1 || dt[0].Value != "R" {
				r.Mismatch(route+":composition:big-document", fmt.Sprintf("one root with 12012 leaves: %s %v decode=%v roots=%d", o.Class(), o.Err, err, len(dt)), map[string]any{"route": route})
				continue
			}
			var got []string
			for _, k := range dt[0].Children {
				got = append(got, treeKey(k))
			}
			if !sameStrs(got, want) {
				at := 0
				for at < len(got) && at < len(want) && got[at] == want[at] {
					at++
				}
				r.Mismatch(route+":composition:not-isomorphic", fmt.Sprintf("one root R with 124 directories (12012 leaves): child #%d of R differs from the tree of its sub-document (children of R: %d, sub-documents: %d); got %s want %s",
					at, len(got), len(want), clip(at2(got, at), 200), clip(at2(want, at), 200)), map[string]any{"route": route, "child": at})
			}
		}
	}
}

func at2(s []string, i int) string {
	if i < len(s) {
		return s[i]
	}
	return "<none>"
}

func checkDecoded(r *evid.Run, d *DocState, c *tok.Conc, doc, route string, er encRoute, o real.Outcome, want []*Tree) {
	rp := docReplay{Doc: d.Doc, Conc: c, Bytes: doc, Route: route, Got: o.Out, Err: o.ErrString()}
	if o.Class() != "ok" {
		r.Mismatch(route+":"+o.Class(), fmt.Sprintf("doc=%q conc=%s err=%v %s", doc, c.Name, o.Err, firstLine(o.Panic)), rp)
		return
	}
	dt, err := er.decode(o.Out)
	if err != nil {
		r.Mismatch(route+":not-well-formed", fmt.Sprintf("doc=%q conc=%s out=%q decode error: %v", doc, c.Name, o.Out, err), rp)
		return
	}
	if !sameForest(dt, want, c) {
		r.Mismatch(route+":not-isomorphic", fmt.Sprintf("doc=%q conc=%s out=%q", doc, c.Name, o.Out), rp)
	}
}

func checkC04(r *evid.Run) {
	cfg, timeout := "MC_C04_quick.cfg", 5*time.Minute
	npools := 10
	if r.Tier == "thorough" {
		cfg, timeout, npools = "MC_C04_thorough.cfg", 25*time.Minute, len(c04Pools)
	}
	var concs []*tok.Conc
	names := []string{}
	for i := 0; i < npools; i++ {
		k := i
		if i > 0 && r.Tier != "thorough" {
			k = 1 + (i-1+int(r.Seed)*7)%(len(c04Pools)-1)
		}
		if i == 1 && r.Tier != "thorough" {
			k = len(c04Pools) - 3 // (always: text that looks like an escape sequence of the target notation)
		}
		concs = append(concs, c04Conc(k))
		names = append(names, fmt.Sprintf("%q/%q", c04Pools[k%len(c04Pools)][0], c04Pools[k%len(c04Pools)][1]))
	}
	r.Set("hostile_chunk_pairs", names)
	pool := workerPool(r, runtime.NumCPU())
	if pool == nil {
		return
	}
	defer pool.Close()
	runDocModel(r, modelRun{Module: "MC_C04", Cfg: cfg, Timeout: timeout}, func(d *DocState) {
		if len(d.Forest) == 0 {
			return
		}
		if d.Nodes() >= 2 {
			r.Count("distinct_nontrivial", 1)
		}
		if d.N%97 == 0 {
			r.Sample(map[string]any{"doc": concs[1].Doc(d.Doc)})
		}
		cs := concs
		if r.Tier == "thorough" && d.Nodes() > 4 {
			cs = concs[:4] // the largest forests under a subset of the pools
		}
		checkEncoders(r, d, cs)
		checkEncodersMassive(r, pool, d, cs[d.N%len(cs)])
	})
	// beyond the bound: random forests (wide nodes: 9 - 16 children, half of the time below a root; deep chains) through
	// the encoders in simple and massive mode, the decoded forests validated by TLC (TraceDoc.tla: "tree" / "mtree")
	traceDocs(r, "C04", traceSpec{Ops: []string{"tree"}, Params: genParams{MaxNodes: 60, MaxDepth: 7, MaxRoots: 4, NChunks: 12}, NQuick: 80, NThorough: 800})
	fant := traceSpecFan // one level of 300-450 siblings
	fant.Ops, fant.NQuick, fant.NThorough = []string{"tree"}, 2, 12
	traceDocs(r, "C04", fant)
	c04Composition(r)
	sessionPhase(r) // Session.tla: the calls this property owns, after every other call of the alphabet
	r.Set("exhaustive", true)
	r.Set("rule", "every forest up to the bound over 4 names x {JSON, YAML, TOML(single root)} x {From-Markdown iter, From-Markdown slice, From-Root}, decoded with the decoders gtree links and compared structurally; each under hostile concretisations of the chunks; non-trivial = at least 2 nodes")
	r.Assume("the specification decides the structure handed to the encoders; that a name survives quoting is observed on the listed chunk pools only (third-party encoders)")
}
