package main

import (
	"fmt"
	"strings"
	"time"

	"verif/harness/evid"
	"verif/harness/tlcrun"
	"verif/harness/tok"
	"verif/harness/wproto"

	"math/rand"
)

// selftest: the binding between specification and code is demonstrated, not assumed.
//  1. every as-built instantiation of the specification is violated (the invariants are not vacuous);
//  2. a recorded trace is accepted, and is rejected once one logged field is corrupted or one event is dropped;
//  3. a logged leak violates LeakFree.
func init() { register("selftest", "other", selftest) }

func selftest(r *evid.Run) {
	fail := func(format string, a ...any) { r.Broken("selftest: "+format, a...) }
	// 1. as-built models
	asbuilt := []struct{ module, cfg, want string }{
		{"MC_C02", "MC_C02_asbuilt.cfg", "RejectsMalformed"},
		{"MC_Api", "MC_C13_asbuilt.cfg", "HistoryIndependent"},
		{"MC_FsC", "MC_Fs_asbuilt.cfg", ""},
		{"MC_Io", "MC_C14_asbuilt.cfg", ""},
		{"MC_Pipe", "MC_Pipe_asbuilt_leak.cfg", "NoStuck"},
		{"MC_Pipe", "MC_Pipe_asbuilt_nil.cfg", ""},
		{"MC_Pipe", "MC_Pipe_asbuilt_feeder.cfg", ""}, // NoStuck or NilMeansComplete, whichever TLC meets first
		{"MC_Pipe", "MC_Pipe_live_asbuilt.cfg", ""},   // Termination/NoLeak under fairness
		{"MC_Cli", "MC_C16_asbuilt.cfg", "TruthfulExit"},
		{"MC_PS", "MC_PS_asbuilt.cfg", "SplitAgreement"},
		{"MC_PS", "MC_PS_mixed.cfg", "ParseAgreement"},
		{"MC_Opt", "MC_Opt_beforefix_violates.cfg", ""}, // FamiliesAgree or OptionsMeanWhatTheySay, whichever TLC meets first
		{"MC_Io", "MC_C14_asbuilt_retry.cfg", "ReaderErrReturned"},
		{"MC_Pipe", "MC_Pipe_backpressure_reach.cfg", "NeverBackedUp"}, // (reachability: the backed-up state exists in the model)
		{"MC_Pipe", "MC_Pipe_asbuilt_lastsend.cfg", "NoStuck"},
		{"MC_Session", "MC_Session_asbuilt_PooledBuffer.cfg", "CallsAreIndependent"},
		{"MC_Session", "MC_Session_asbuilt_SharedGrower.cfg", "CallsAreIndependent"},
		{"MC_Session", "MC_Session_asbuilt_PooledParser.cfg", "CallsAreIndependent"},
		{"MC_Session", "MC_Session_asbuilt_CallerSlice.cfg", "CallsAreIndependent"},
		{"MC_Session", "MC_Session_asbuilt_OptionOwnsCtx.cfg", "CallsAreIndependent"},
	}
	for _, a := range asbuilt {
		res, err := tlcrun.Run(tlcrun.Opts{SpecDir: specDir, Module: a.module, Cfg: a.cfg, Timeout: 5 * time.Minute}, nil)
		if err != nil {
			fail("%s: %v", a.cfg, err)
			continue
		}
		if res.Violated == "" || (a.want != "" && res.Violated != a.want) {
			fail("%s: expected a violation of %s, TLC reports %q", a.cfg, a.want, res.Violated)
			continue
		}
		r.Count("asbuilt_models_violated", 1)
		fmt.Printf("selftest: %s violates %s as expected\n", a.cfg, res.Violated)
	}
	// 2. document traces
	rng := rand.New(rand.NewSource(42))
	c := tok.TraceConc(rng, 8)
	doc := spell(rng, randForest(rng, genParams{MaxNodes: 12, MaxDepth: 4, MaxRoots: 2, NChunks: 8}), spelling{unit: []string{"SP", "SP"}})
	good := recordText(doc, c, "iter")
	bad := *good
	bad.Rows = append([][]string{}, good.Rows...)
	if len(bad.Rows) > 0 {
		row := append([]string{}, bad.Rows[len(bad.Rows)-1]...)
		row[len(row)-1] = "k8k8" // one token of one row corrupted
		bad.Rows[len(bad.Rows)-1] = row
	}
	flags, ok := validateTrace(r, "TraceDoc.cfg", []*traceRec{good, &bad})
	if !ok || flags[0] != "" || !strings.Contains(flags[1], "P") {
		fail("TraceDoc: good=%q corrupted=%q", flags[0], flags[1])
	} else {
		fmt.Println("selftest: TraceDoc accepts the recorded call and rejects the corrupted row")
		r.Count("trace_corruptions_rejected", 1)
	}
	// 2b. filesystem traces: a recorded mkdir is accepted; the same record with one created directory missing
	// from the logged snapshot violates C06_ExactlyTheTree, with the logged result changed it is model drift
	{
		tk := func(p ...string) []string { return p }
		before := fsJ{Dirs: [][]string{tk("t")}, Files: [][]string{}}
		after := fsJ{Dirs: [][]string{tk("t"), tk("t", "SL", "a"), tk("t", "SL", "a", "SL", "b")}, Files: [][]string{}}
		short := fsJ{Dirs: [][]string{tk("t"), tk("t", "SL", "a")}, Files: [][]string{}}
		reset := func() *fsEv {
			return (&fsEv{Op: "reset", Items: []itemJ{{1, tk("a")}, {2, tk("b")}}, Fs: before}).fill()
		}
		evs := []any{reset(), (&fsEv{Op: "mkdir", Route: "md", Fs: after, K: "ok"}).fill(),
			reset(), (&fsEv{Op: "mkdir", Route: "md", Fs: short, K: "ok"}).fill(),
			reset(), (&fsEv{Op: "mkdir", Route: "md", Fs: before, K: "exists"}).fill()}
		bad, ok := validateTraceIn(r, "TraceFs", "TraceFs.cfg", "ftrace.ndjson", evs)
		if !ok || bad[1] != "" || !strings.Contains(bad[3], "P:C06_ExactlyTheTree") || !strings.Contains(bad[5], "M:") {
			fail("TraceFs: good=%q missing-directory=%q wrong-result=%q", bad[1], bad[3], bad[5])
		} else {
			fmt.Println("selftest: TraceFs accepts the recorded mkdir, rejects the snapshot with a directory missing (Layer P) and the wrong result (Layer M)")
			r.Count("trace_corruptions_rejected", 2)
		}
	}
	// 2c. parser traces: the calls "- a", "  - b" as the real parser answers them are accepted; with the learnt unit
	// logged as 3 instead of 2, or the hierarchy of the second row as 3, the step is not MdLine.Parse's
	{
		mk := func(spaces, hier int) []any {
			return []any{&parseEv{Op: "new", Line: []string{}, Text: []string{}},
				&parseEv{Op: "parse", Line: []string{"HY", "SP", "a"}, Res: "ok", Hier: 1, Text: []string{"a"}, Sep: "none"},
				&parseEv{Op: "parse", Line: []string{"SP", "SP", "HY", "SP", "b"}, Res: "ok", Hier: hier, Text: []string{"b"}, Sep: "sp", Spaces: spaces}}
		}
		good, ok1 := validateTraceIn(r, "TraceParser", "TraceParser.cfg", "ptrace.ndjson", mk(2, 2))
		bad1, ok2 := validateTraceIn(r, "TraceParser", "TraceParser.cfg", "ptrace.ndjson", mk(3, 2))
		bad2, ok3 := validateTraceIn(r, "TraceParser", "TraceParser.cfg", "ptrace.ndjson", mk(2, 3))
		if !ok1 || !ok2 || !ok3 || len(good) != 0 || bad1[2] == "" || bad2[2] == "" {
			fail("TraceParser: good=%v wrong-unit=%v wrong-hierarchy=%v", good, bad1, bad2)
		} else {
			fmt.Println("selftest: TraceParser accepts the recorded Parse calls and rejects a wrong learnt unit and a wrong hierarchy")
			r.Count("trace_corruptions_rejected", 2)
		}
	}
	// 3. pipeline traces
	pool := workerPool(r, 2)
	if pool == nil {
		return
	}
	defer pool.Close()
	pc := buildPipeCase("text", []string{"ok", "ok", "ok"}, 4) // no failing block: every block is handed over to every stage
	rp := pool.Call(pc.Req, 30*time.Second)
	tr, why := pc.preprocess(rp, false)
	if tr == nil {
		fail("pipeline trace: %s", why)
		return
	}
	if v := validatePTrace(&pc, tr, 10); !v.Accepted || v.Violated != "" {
		fail("pipeline trace not accepted: hwm=%d/%d violated=%q %s", v.HWM, v.Len, v.Violated, v.Broken)
		return
	}
	// (a) a received block id changed
	mut := clonePTrace(tr)
	for _, e := range mut {
		if e["ev"] == "xfer" && e["s"] == "grow" {
			e["b"] = 3 - e["b"].(int) + 1
			break
		}
	}
	if v := validatePTrace(&pc, mut, 10); v.Accepted {
		fail("pipeline trace with a changed block id was accepted")
	} else {
		r.Count("trace_corruptions_rejected", 1)
		fmt.Printf("selftest: changed block id rejected at event %d/%d\n", v.HWM, v.Len)
	}
	// (b) one event dropped (a worker's hand-over)
	var dropped []pev
	done := false
	for _, e := range tr {
		if !done && e["ev"] == "xfer" && e["s"] == "sink" {
			done = true
			continue
		}
		dropped = append(dropped, e)
	}
	if v := validatePTrace(&pc, dropped, 10); v.Accepted {
		fail("pipeline trace with a dropped hand-over was accepted")
	} else {
		r.Count("trace_corruptions_rejected", 1)
		fmt.Printf("selftest: dropped hook event rejected at event %d/%d\n", v.HWM, v.Len)
	}
	// (c) goroutines reported alive at "settled"
	leak := clonePTrace(tr)
	for _, e := range leak {
		if e["ev"] == "settled" {
			e["n"] = 3
		}
	}
	if v := validatePTrace(&pc, leak, 10); v.Violated != "LeakFree" {
		fail("a logged leak does not violate LeakFree (violated=%q)", v.Violated)
	} else {
		r.Count("trace_corruptions_rejected", 1)
		fmt.Println("selftest: a logged leak violates LeakFree")
	}
	// 4. the race-report filter
	if sig := raceSignatures(cannedRaceReport); len(sig) != 1 || !strings.Contains(sig[0], "spreadBranch") {
		fail("race-report filter: %v", sig)
	} else {
		fmt.Println("selftest: race-report filter extracts", sig[0])
	}
	r.Set("explanation", "as-built models violated, corrupted traces rejected, leak flagged, race filter ok")
	r.Count("distinct_nontrivial", 2)
	r.Count("real_calls", 2)
	_ = wproto.Req{}
}

func clonePTrace(tr []pev) []pev {
	out := make([]pev, len(tr))
	for i, e := range tr {
		m := pev{}
		for k, v := range e {
			m[k] = v
		}
		out[i] = m
	}
	return out
}

const cannedRaceReport = `==================
WARNING: DATA RACE
Read at 0x00c0001262c0 by goroutine 36:
  github.com/ddddddO/gtree.(*defaultSpreaderSimple).spreadBranch()
      /repo/simple_tree_spreader.go:82 +0x155
  github.com/ddddddO/gtree.(*defaultSpreaderPipeline).worker()
      /repo/pipeline_tree_spreader.go:79 +0x37c

Previous write at 0x00c0001262c0 by goroutine 42:
  github.com/ddddddO/gtree.(*defaultSpreaderPipeline).worker()
      /repo/pipeline_tree_spreader.go:85 +0x504

Goroutine 36 (running) created at:
  github.com/ddddddO/gtree.(*defaultSpreaderPipeline).spread.func1()
      /repo/pipeline_tree_spreader.go:52 +0x176
==================
==================
WARNING: DATA RACE
Read at 0x00c000216998 by main goroutine:
  main.handleReq()
      /verif/harness/cmd/driver/worker.go:336 +0x27b6

Previous write at 0x00c000216998 by goroutine 136:
  main.handleReq.func2()
      /verif/harness/cmd/driver/worker.go:234 +0x30a
  github.com/ddddddO/gtree.(*defaultWalkerSimple).walkNode()
      /repo/simple_tree_walker.go:63 +0x81
==================
`
