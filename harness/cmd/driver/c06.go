package main

import (
	"fmt"
	"os"
	"path/filepath"
	"runtime"
	"sort"
	"strings"
	"time"

	"verif/harness/evid"
	"verif/harness/tla"
	"verif/harness/tok"
	"verif/harness/wproto"
)

func init() {
	register("C06", "model_checking", checkC06)
	register("C07", "model_checking", checkC07)
	register("C08", "model_checking", checkC08)
	register("C09", "model_checking", checkC09)
}

func fsTraceN(r *evid.Run) int {
	if r.Tier == "thorough" {
		return 600
	}
	return 60
}

func fsTier(r *evid.Run, id string) (string, time.Duration) {
	if r.Tier == "thorough" {
		return "MC_" + id + "_thorough.cfg", 40 * time.Minute
	}
	return "MC_" + id + "_quick.cfg", 10 * time.Minute
}

func keptAndConfined(before, after map[string]string) (string, string) {
	var changed, escaped []string
	for p, k := range before {
		if g, ok := after[p]; !ok {
			changed = append(changed, "removed "+p)
		} else if g != k {
			changed = append(changed, "changed "+p)
		}
	}
	for p := range after {
		if _, ok := before[p]; !ok && p != "t" && !strings.HasPrefix(p, "t/") {
			escaped = append(escaped, p)
		}
	}
	sort.Strings(changed)
	sort.Strings(escaped)
	return strings.Join(changed, ", "), strings.Join(escaped, ", ")
}

func callString(s *fsState, c *tok.Conc) string {
	call := s.Hist[len(s.Hist)-1]
	return fmt.Sprintf("%s(route=%s dry=%v strict=%v exts=%v) on items [%s] with fs before: dirs=%v files=%v", call.Op, call.Route, call.Dry, call.Strict,
		extStrings(call.Exts, c), itemsString(s.Items), concPaths(s.Pre.Dirs, c), concPaths(s.Pre.Files, c))
}

func rec(s *fsState, c *tok.Conc, o *fsOutcome, massive bool, diff string) fsReplayRec {
	return fsReplayRec{Items: s.Items, Conc: c.Name, Pre: s.Pre, Call: s.Hist[len(s.Hist)-1], Massive: massive, Req: o.req, Rep: o.rp, Diff: diff}
}

// ---------------------------------------------------------------- C06

func checkC06(r *evid.Run) {
	pool := workerPool(r, runtime.NumCPU())
	if pool == nil {
		return
	}
	defer pool.Close()
	cfg, timeout := fsTier(r, "C06")
	cfgs := []string{cfg}
	if r.Tier != "thorough" {
		// names the operating system refuses (longer than NAME_MAX) at every position of small forests; the
		// thorough configuration has such a name in its alphabet
		cfgs = append(cfgs, "MC_C06_long.cfg")
	}
	for _, cfg := range cfgs {
		checkC06Model(r, pool, cfg, timeout)
	}
	// beyond the bound: random histories (bigger forests, more names, environment steps, several calls) validated by TLC
	traceFsHistories(r, pool, fsTraceN(r), fsTraceMix{hostile: 0.05, long: 0.1, mkdir: 6, dry: 1, verify: 1, envw: 3}, []string{"C06_"})
	// Mkdir under every option sequence (Options.tla): the last extension list and target win, nothing else matters
	checkOptions(r, "rule", []int{0}, func(s *optState) bool { return s.Op == "mkdir" && tla.S(s.Rule["k"]) == "mkdir" })
	sessionPhase(r) // Session.tla: the calls this property owns, after every other call of the alphabet
	r.Set("exhaustive", true)
	r.Set("rule", "every forest up to the bound over plain names (incl. a dotted name and an over-long name) x extension lists (empty, suffix, whole name, overlapping, a directory-looking name) x initial targets (present, missing, a regular file) x 0-1 environment step (a root pre-created as file or directory) x up to 2 mkdir calls (so: mkdir twice) x {From-Markdown, From-Root, deprecated aliases}; each replayed in a jail with full before/after snapshots; non-trivial = at least 2 items")
}

func checkC06Model(r *evid.Run, pool *wproto.Pool, cfg string, timeout time.Duration) {
	runFsModel(r, cfg, timeout, func(s *fsState) {
		call := s.Hist[len(s.Hist)-1]
		if call.Op != "mkdir" || call.Dry {
			return
		}
		f := factsOf(s.Items)
		if !f.allPlain || !f.distinctRoots {
			return
		}
		c := fsConc(s.N + int(r.Seed))
		o, err := runFsCall(pool, s, c, false, s.N%2 == 1)
		if err != nil {
			r.Broken("jail: %v", err)
			return
		}
		r.Count("real_calls", 1)
		r.Count("replayed_states", 1)
		r.Count("res_"+s.Res.K, 1)
		if len(s.Items) >= 2 {
			r.Count("distinct_nontrivial", 1)
		}
		if s.N%2503 == 0 {
			r.Sample(map[string]any{"call": callString(s, c), "expected_result": s.Res.K, "entries_after": concPaths(append(append([][]string{}, s.Post.Dirs...), s.Post.Files...), c)})
		}
		if o.rp.Class == "panic" || o.rp.Class == "hang" {
			r.Mismatch("mkdir-"+call.Route+":"+o.rp.Class, callString(s, c)+": "+o.rp.Err, rec(s, c, o, false, ""))
			return
		}
		switch s.Res.K {
		case "ok":
			want := expectSnapshot(s.Post, o.before, c)
			if d := diffSnap(want, o.after); o.rp.Class != "ok" || d != "" {
				r.Mismatch("mkdir-"+call.Route+":not-exactly-the-tree", fmt.Sprintf("%s: class=%s err=%q diff: %s", callString(s, c), o.rp.Class, o.rp.Err, d), rec(s, c, o, false, d))
			}
			// the massive option is a mode of the same Mkdir: a call that succeeds leaves exactly the tree as well
			// (every other state; which root fails first when some do is C10's)
			if s.N%2 == 0 {
				if om, err := runFsCall(pool, s, c, true, false); err == nil {
					r.Count("real_calls", 1)
					wantM := expectSnapshot(s.Post, om.before, c)
					if d := diffSnap(wantM, om.after); om.rp.Class != "ok" || d != "" {
						r.Mismatch("mkdir-"+call.Route+"/massive:not-exactly-the-tree", fmt.Sprintf("%s: class=%s err=%q diff: %s", callString(s, c), om.rp.Class, om.rp.Err, d), rec(s, c, om, true, d))
					}
				}
			}
		case "exists":
			d := diffSnap(o.before, o.after)
			// "exists" in the model also covers a Stat that fails (over-long name, a file on the way): the
			// statement then only demands an error
			statFails := !f.noLong || targetIsFile(s)
			if o.rp.Class != "err" || d != "" || (!statFails && o.rp.Err != "path already exists") {
				r.Mismatch("mkdir-"+call.Route+":existing-root", fmt.Sprintf("%s: class=%s err=%q diff: %s", callString(s, c), o.rp.Class, o.rp.Err, d), rec(s, c, o, false, d))
			}
		case "oserr":
			ch, esc := keptAndConfined(o.before, o.after)
			if o.rp.Class != "err" || ch != "" || esc != "" {
				r.Mismatch("mkdir-"+call.Route+":os-refusal-not-an-error", fmt.Sprintf("%s: class=%s err=%q %s %s", callString(s, c), o.rp.Class, o.rp.Err, ch, esc), rec(s, c, o, false, ch+esc))
			}
		default:
			r.Count("drift_states", 1)
		}
	})
}

func targetIsFile(s *fsState) bool {
	for _, f := range s.Pre.Files {
		if len(f) == 1 && f[0] == "t" {
			return true
		}
	}
	return false
}

// ---------------------------------------------------------------- C07

func checkC07(r *evid.Run) {
	pool := workerPool(r, runtime.NumCPU())
	if pool == nil {
		return
	}
	defer pool.Close()
	cfg, timeout := fsTier(r, "C07")
	// (+ chains four deep over {a, '.. ', '..'}: leaving the target takes two steps up from below a root)
	for _, cfg := range []string{cfg, "MC_C07_deep.cfg"} {
		checkC07Model(r, pool, cfg, timeout)
	}
	traceFsHistories(r, pool, fsTraceN(r), fsTraceMix{hostile: 0.6, long: 0.05, mkdir: 5, dry: 3, verify: 0, envw: 2}, []string{"C07_"})
	r.Set("exhaustive", true)
	r.Set("rule", "every forest up to the bound over {a, '.', '..', 'a/b', '/a', '../a'} at every node position x {From-Markdown, From-Root, deprecated aliases} x {dry-run, real} x {simple, massive} x 2 extension lists x {target present, missing}, and every forest of 4 items up to depth 4 over {a, '.. ', '..'}; the jail sits three directories below a scratch root that is snapshotted as a whole; non-trivial = forest with a hostile name")
	r.Assume("checks run as root: permissions are not relied on as a guard; an escape of up to three levels is visible")
	// a tree with a name that is no path element, under every option sequence (Options.tla): rejected all the same
	checkOptions(r, "rule", []int{1}, func(s *optState) bool { return s.Op == "mkdir" })
}

func checkC07Model(r *evid.Run, pool *wproto.Pool, cfg string, timeout time.Duration) {
	runFsModel(r, cfg, timeout, func(s *fsState) {
		call := s.Hist[len(s.Hist)-1]
		if call.Op != "mkdir" {
			return
		}
		f := factsOf(s.Items)
		c := fsConc(s.N + int(r.Seed))
		r.Count("replayed_states", 1)
		if f.hostile {
			r.Count("distinct_nontrivial", 1)
		}
		if s.N%1009 == 0 {
			r.Sample(map[string]any{"call": callString(s, c), "expected_result": s.Res.K})
		}
		for _, massive := range []bool{false, true} {
			o, err := runFsCall(pool, s, c, massive, s.N%2 == 1) // odd states: the deprecated aliases
			if err != nil {
				r.Broken("jail: %v", err)
				return
			}
			r.Count("real_calls", 1)
			mode := "simple"
			if massive {
				mode = "massive"
			}
			route := fmt.Sprintf("mkdir-%s/%s/dry=%v", call.Route, mode, call.Dry)
			if o.rp.Class == "panic" || o.rp.Class == "hang" {
				r.Mismatch(route+":"+o.rp.Class, callString(s, c)+": "+o.rp.Err, rec(s, c, o, massive, ""))
				continue
			}
			ch, esc := keptAndConfined(o.before, o.after)
			if o.ancBefore != o.ancAfter {
				r.Mismatch(route+":modifies-outside-target", fmt.Sprintf("%s (target spelled %q): the directories above the target had modes %s, now %s", callString(s, c), o.req.TargetSpell, o.ancBefore, o.ancAfter), rec(s, c, o, massive, o.ancAfter))
			}
			if esc != "" {
				r.Mismatch(route+":escapes-target", fmt.Sprintf("%s: created outside the target: %s", callString(s, c), esc), rec(s, c, o, massive, esc))
			}
			if ch != "" {
				r.Mismatch(route+":modifies-existing", fmt.Sprintf("%s: %s", callString(s, c), ch), rec(s, c, o, massive, ch))
			}
			if f.hostile {
				d := diffSnap(o.before, o.after)
				if o.rp.Class != "err" {
					r.Mismatch(route+":invalid-name-accepted", fmt.Sprintf("%s: returned nil (out=%q)", callString(s, c), o.rp.Out), rec(s, c, o, massive, d))
				} else if !massive && d != "" {
					r.Mismatch(route+":invalid-name-partial-creation", fmt.Sprintf("%s: rejected (%s) but created: %s", callString(s, c), o.rp.Err, d), rec(s, c, o, massive, d))
				}
			}
		}
	})
}

// ---------------------------------------------------------------- C08

func checkC08(r *evid.Run) {
	pool := workerPool(r, runtime.NumCPU())
	if pool == nil {
		return
	}
	defer pool.Close()
	cfg, timeout := fsTier(r, "C08")
	runFsModel(r, cfg, timeout, func(s *fsState) {
		call := s.Hist[len(s.Hist)-1]
		if call.Op != "verify" {
			return
		}
		f := factsOf(s.Items)
		if !f.allPlain || !f.distinctRoots {
			return
		}
		c := fsConc(s.N + int(r.Seed))
		r.Count("replayed_states", 1)
		r.Count("res_"+s.Res.K, 1)
		if len(s.Pre.Dirs)+len(s.Pre.Files) > 3 {
			r.Count("distinct_nontrivial", 1)
		}
		if s.N%2503 == 0 {
			r.Sample(map[string]any{"call": callString(s, c), "expected": s.Res.K, "missing": concPaths(s.Res.Missing, c), "extra": concPaths(s.Res.Extra, c)})
		}
		routes := []string{"md"}
		if f.nroots == 1 {
			routes = append(routes, "root")
		}
		type rm struct {
			route   string
			massive bool
		}
		var rms []rm
		for _, route := range routes {
			rms = append(rms, rm{route, false}, rm{route, true})
		}
		for _, x := range rms {
			route, massive := x.route, x.massive
			s2 := *s
			s2.Hist = append([]fsCall{}, s.Hist...)
			s2.Hist[len(s2.Hist)-1].Route = route
			o, err := runFsCall(pool, &s2, c, massive, s.N%2 == 1)
			if err != nil {
				r.Broken("jail: %v", err)
				return
			}
			r.Count("real_calls", 1)
			name := fmt.Sprintf("verify-%s/strict=%v", route, call.Strict)
			if massive {
				// the massive option: the same verdict; with one root also the same lists (with several, WHICH differing
				// root is reported is the schedule's choice)
				name += "/massive"
				if o.rp.Class == "panic" || o.rp.Class == "hang" {
					r.Mismatch(name+":"+o.rp.Class, callString(s, c)+": "+o.rp.Err, rec(&s2, c, o, true, ""))
					continue
				}
				if d := diffSnap(o.before, o.after); d != "" {
					r.Mismatch(name+":changes-the-filesystem", callString(s, c)+": "+d, rec(&s2, c, o, true, d))
				}
				if (s.Res.K == "ok") != (o.rp.Class == "ok") && s.Res.K != "" && (s.Res.K == "ok" || s.Res.K == "diff" || s.Res.K == "oserr") {
					r.Mismatch(name+":verdict-differs", fmt.Sprintf("%s: expected %s, massive mode returned %q", callString(s, c), s.Res.K, o.rp.Err), rec(&s2, c, o, true, ""))
					continue
				}
				if f.nroots != 1 {
					continue
				}
			}
			if o.rp.Class == "panic" || o.rp.Class == "hang" {
				r.Mismatch(name+":"+o.rp.Class, callString(s, c)+": "+o.rp.Err, rec(&s2, c, o, false, ""))
				continue
			}
			if d := diffSnap(o.before, o.after); d != "" {
				r.Mismatch(name+":changes-the-filesystem", callString(s, c)+": "+d, rec(&s2, c, o, false, d))
			}
			switch s.Res.K {
			case "ok":
				if o.rp.Class != "ok" {
					r.Mismatch(name+":false-alarm", fmt.Sprintf("%s: everything required exists%s but err=%q", callString(s, c), map[bool]string{true: " and nothing else", false: ""}[call.Strict], o.rp.Err), rec(&s2, c, o, false, ""))
				}
			case "diff":
				extra, missing := parseVerifyErr(o.rp.Err, o.jailRoot)
				we, wm := concPaths(s.Res.Extra, c), concPaths(s.Res.Missing, c)
				if o.rp.Class != "err" {
					r.Mismatch(name+":difference-not-reported", fmt.Sprintf("%s: want missing=%v extra=%v, got nil", callString(s, c), wm, we), rec(&s2, c, o, false, ""))
				} else if !sameStrs(extra, we) || !sameStrs(missing, wm) {
					kind := "lists-differ"
					if len(missing) < len(wm) {
						kind = "missing-list-short"
					}
					r.Mismatch(name+":"+kind, fmt.Sprintf("%s: want missing=%v extra=%v, got missing=%v extra=%v (%q)", callString(s, c), wm, we, missing, extra, o.rp.Err), rec(&s2, c, o, false, ""))
				}
			case "oserr":
				if o.rp.Class != "err" {
					r.Mismatch(name+":os-refusal-not-an-error", callString(s, c), rec(&s2, c, o, false, ""))
				}
			default:
				r.Count("drift_states", 1)
			}
		}
	})
	// a root that is a symbolic link to the directory holding the tree (releases/current -> v2): every node path exists
	// through the link, so a verdict "everything is there" stays (symbolic links are not part of Fs.tla's file system:
	// this is the one relation about them that the statement settles - existence follows links)
	runFsModel(r, cfg, timeout, func(s *fsState) {
		call := s.Hist[len(s.Hist)-1]
		f := factsOf(s.Items)
		if call.Op != "verify" || s.Res.K != "ok" || f.nroots != 1 || !f.allPlain || len(s.Items) < 2 || s.N%3 != 0 {
			return
		}
		c := fsConc(s.N + int(r.Seed))
		for _, massive := range []bool{false, true} {
			o, err := runFsCallVia(pool, s, c, massive, false, c.Seq(s.Items[0].N))
			if err != nil {
				return // (the root is not a directory in this state: the relation does not apply)
			}
			r.Count("real_calls", 1)
			r.Count("verify_through_symlinked_root", 1)
			if o.rp.Class != "ok" {
				r.Mismatch(fmt.Sprintf("verify-%s/strict=%v/massive=%v:root-is-a-link:false-alarm", call.Route, call.Strict, massive),
					fmt.Sprintf("%s, the root directory moved aside and linked: err=%q", callString(s, c), o.rp.Err), rec(s, c, o, massive, ""))
			}
		}
	})
	nonUTF8Extras(r, pool)
	traceFsHistories(r, pool, fsTraceN(r), fsTraceMix{hostile: 0.05, long: 0.05, mkdir: 3, dry: 0, verify: 6, envw: 4}, []string{"C08_"})
	// Verify under every option sequence (Options.tla): the last target and strictness win, nothing else matters
	checkOptions(r, "rule", []int{0}, func(s *optState) bool { return s.Op == "verify" })
	sessionPhase(r) // Session.tla: the calls this property owns, after every other call of the alphabet
	r.Set("exhaustive", true)
	r.Set("rule", "every forest up to the bound x directory states reached by Mkdir of the same tree and/or 0-2 environment steps (any node path or an extra entry at any depth, as file or directory) x {strict, non-strict} x {From-Markdown, From-Root (single root)}; the error text is parsed into the two documented lists and compared as sets; non-trivial = more than 3 entries in the directory")
}

// nonUTF8Extras: "arbitrary extra files and directories at any depth" includes entries whose names are not valid
// UTF-8 (a Latin-1 file name on a UTF-8 system).  Such an entry is an extra entry like any other: non-strict
// verification ignores it, strict verification lists it (and what lies beneath it).
func nonUTF8Extras(r *evid.Run, pool *wproto.Pool) {
	doc := "- a\n  - b\n"
	for _, kind := range []string{"file", "directory"} {
		for _, strict := range []bool{false, true} {
			for _, massive := range []bool{false, true} {
				j, err := newJail()
				if err != nil {
					r.Broken("jail: %v", err)
					return
				}
				target := filepath.Join(j.root, "t")
				os.MkdirAll(filepath.Join(target, "a", "b"), 0o755)
				extra := filepath.Join(target, "a", "caf\xe9")
				if kind == "file" {
					extra += ".txt"
					os.WriteFile(extra, nil, 0o644)
				} else {
					os.Mkdir(extra, 0o755)
				}
				rp := pool.Call(wproto.Req{Op: "verify", Route: "md", Doc: doc, Target: target, Strict: strict, Massive: massive}, 30*time.Second)
				j.close()
				r.Count("real_calls", 1)
				name := fmt.Sprintf("verify-md/strict=%v:extra-%s-name-not-utf8", strict, kind)
				what := fmt.Sprintf("VerifyFromMarkdown(%q, strict=%v, massive=%v) on a directory that holds a, a/b and the extra %s a/caf\\xe9", doc, strict, massive, kind)
				rep := map[string]any{"doc": doc, "strict": strict, "massive": massive, "extra": kind, "err": rp.Err}
				switch {
				case rp.Class != "ok" && rp.Class != "err":
					r.Mismatch(name+":"+rp.Class, what+": "+rp.Err, rep)
				case !strict && rp.Class != "ok":
					r.Mismatch(name+":false-alarm", fmt.Sprintf("%s: everything required exists but err=%q", what, rp.Err), rep)
				case strict:
					ex, miss := parseVerifyErr(rp.Err, j.root)
					if rp.Class != "err" {
						r.Mismatch(name+":difference-not-reported", what+": nil", rep)
					} else if len(miss) != 0 || len(ex) != 1 || !strings.HasPrefix(ex[0], "t/a/caf") {
						r.Mismatch(name+":lists-differ", fmt.Sprintf("%s: want extra=[t/a/caf\\xe9...], got missing=%v extra=%v (%q)", what, miss, ex, rp.Err), rep)
					}
				}
			}
		}
	}
}

// lineBreakNames: a programmatic tree may carry names Markdown cannot spell - a line break inside a name is a valid file
// name.  The dry-run counts (the report's last line) must predict what the real run creates for them too.
func lineBreakNames(r *evid.Run, pool *wproto.Pool) {
	trees := [][]wproto.Item{
		{{D: 1, N: "r"}, {D: 2, N: "a\nb"}, {D: 2, N: "c"}},
		{{D: 1, N: "r\nq"}, {D: 2, N: "a"}, {D: 3, N: "x\n\ny"}, {D: 2, N: "f.x"}},
		{{D: 1, N: "r"}, {D: 2, N: "line one\nline two.x"}, {D: 2, N: "d"}, {D: 3, N: "e\n"}},
	}
	for ti, items := range trees {
		for _, massive := range []bool{false, true} {
			for _, op := range []string{"mkdir", "output"} {
				dry := pool.Call(wproto.Req{Op: op, Route: "root", Items: items, DryRun: true, Exts: []string{".x"}, Massive: massive, Jail: true}, 30*time.Second)
				realRun := pool.Call(wproto.Req{Op: "mkdir", Route: "root", Items: items, Exts: []string{".x"}, Massive: massive}, 30*time.Second)
				r.Count("real_calls", 2)
				if realRun.Class != "ok" || dry.Class != "ok" {
					r.Mismatch("dryrun-"+op+"-root:line-break-name:rejected", fmt.Sprintf("tree %d (names with line breaks) massive=%v: dry run %s(%q), real run %s(%q)", ti, massive, dry.Class, dry.Err, realRun.Class, realRun.Err), map[string]any{"items": items, "massive": massive})
					continue
				}
				dirs, files := 0, 0
				for _, e := range realRun.Entries {
					if strings.HasPrefix(e, "d:t/") {
						dirs++
					} else if strings.HasPrefix(e, "f:t/") {
						files++
					}
				}
				lines := strings.Split(strings.TrimRight(dry.Out, "\n"), "\n")
				want := fmt.Sprintf("%d directories, %d files", dirs, files)
				if got := lines[len(lines)-1]; got != want {
					r.Mismatch("dryrun-"+op+"-root:line-break-name:counts-differ", fmt.Sprintf("tree %d (names with line breaks) massive=%v: the report ends %q, the real run made %s", ti, massive, got, want), map[string]any{"items": items, "massive": massive, "report": dry.Out, "made": realRun.Entries})
				}
				for _, e := range dry.Entries {
					if strings.HasPrefix(e, "d:t/") || strings.HasPrefix(e, "f:t/") {
						r.Mismatch("dryrun-"+op+"-root:line-break-name:touches-the-filesystem", fmt.Sprintf("tree %d: %v", ti, dry.Entries), map[string]any{"items": items})
						break
					}
				}
			}
		}
	}
}

// ---------------------------------------------------------------- C09

func checkC09(r *evid.Run) {
	pool := workerPool(r, runtime.NumCPU())
	if pool == nil {
		return
	}
	defer pool.Close()
	lineBreakNames(r, pool)
	cfg, timeout := fsTier(r, "C09")
	runFsModel(r, cfg, timeout, func(s *fsState) {
		call := s.Hist[len(s.Hist)-1]
		if call.Op != "mkdir" || !call.Dry {
			return
		}
		f := factsOf(s.Items)
		c := fsConc(s.N + int(r.Seed))
		r.Count("replayed_states", 1)
		r.Count("res_"+s.Res.K, 1)
		if len(s.Items) >= 2 {
			r.Count("distinct_nontrivial", 1)
		}
		if s.N%1009 == 0 {
			r.Sample(map[string]any{"call": callString(s, c), "expected": s.Res.K, "counts": s.Res.Counts})
		}
		// the three dry-run routes: Mkdir-from-Markdown, Mkdir-from-root, Output+dry-run (the CLI route)
		type route struct {
			name string
			op   string
		}
		routes := []route{{"mkdir-" + call.Route, "mkdir"}}
		if call.Route == "md" {
			routes = append(routes, route{"output-md", "output"})
		}
		for _, rt := range routes {
			for _, massive := range []bool{false, true} {
				s2 := *s
				s2.Hist = append([]fsCall{}, s.Hist...)
				s2.Hist[len(s2.Hist)-1].Op = rt.op
				o, err := runFsCall(pool, &s2, c, massive, false)
				if err != nil {
					r.Broken("jail: %v", err)
					return
				}
				r.Count("real_calls", 1)
				name := fmt.Sprintf("dryrun-%s/%s", rt.name, map[bool]string{false: "simple", true: "massive"}[massive])
				if o.rp.Class == "panic" || o.rp.Class == "hang" {
					r.Mismatch(name+":"+o.rp.Class, callString(s, c)+": "+o.rp.Err, rec(&s2, c, o, massive, ""))
					continue
				}
				if d := diffSnap(o.before, o.after); d != "" {
					r.Mismatch(name+":touches-the-filesystem", callString(s, c)+": "+d, rec(&s2, c, o, massive, d))
				}
				switch s.Res.K {
				case "invalid":
					if f.hostile && o.rp.Class != "err" {
						r.Mismatch(name+":invalid-name-accepted", fmt.Sprintf("%s: dry run returned nil, out=%q", callString(s, c), o.rp.Out), rec(&s2, c, o, massive, ""))
					}
				case "report":
					if o.rp.Class != "ok" {
						if f.allPlain {
							r.Mismatch(name+":valid-tree-rejected", fmt.Sprintf("%s: err=%q", callString(s, c), o.rp.Err), rec(&s2, c, o, massive, ""))
						}
						continue
					}
					if !f.allPlain {
						continue // a root named "." : grey zone
					}
					want := dryRunBlocks(pool, s, c)
					got := splitReport(o.rp.Out)
					sort.Strings(want)
					sort.Strings(got)
					if !sameStrs(want, got) {
						r.Mismatch(name+":report-differs", fmt.Sprintf("%s: want blocks %q got %q", callString(s, c), want, got), rec(&s2, c, o, massive, ""))
					}
				}
			}
		}
		// the counts predict what a real Mkdir with the same extensions creates (fresh target)
		if s.Res.K == "report" && f.allPlain && f.distinctRoots && f.noLong {
			s3 := *s
			s3.Pre = absFS{Dirs: [][]string{{"t"}}}
			s3.Hist = append([]fsCall{}, s.Hist...)
			s3.Hist[len(s3.Hist)-1].Dry = false
			// ... and a tree the dry run accepts is not rejected by the real run because of its names
			for _, massive := range []bool{false, true} {
				if o, err := runFsCall(pool, &s3, c, massive, false); err == nil && o.rp.Class == "err" && strings.Contains(o.rp.Err, "invalid") {
					r.Count("real_calls", 1)
					r.Mismatch("dryrun:accepted-but-real-mkdir-rejects-the-names", fmt.Sprintf("%s: the dry run reports %v, the real mkdir (massive=%v, fresh target) returns %q", callString(s, c), s.Res.Counts, massive, o.rp.Err),
						fsReplayRec{Items: s.Items, Conc: c.Name, Call: call})
					break
				}
			}
			// ... nor does it fail otherwise: on a fresh target (present, or not there yet) the real run creates what was
			// counted
			s4 := s3
			s4.Pre = absFS{}
			for _, sx := range []*fsState{&s3, &s4} {
				if o, err := runFsCall(pool, sx, c, false, false); err == nil && o.rp.Class != "ok" {
					r.Count("real_calls", 1)
					r.Mismatch("dryrun:counts-but-real-mkdir-fails", fmt.Sprintf("%s: the dry run reports %v, the real mkdir into a fresh target (present=%v) returns %s %q", callString(s, c), s.Res.Counts, len(sx.Pre.Dirs) > 0, o.rp.Class, o.rp.Err),
						fsReplayRec{Items: s.Items, Conc: c.Name, Call: call})
					break
				}
			}
			if got, ok := realCounts(pool, &s3, c); ok {
				r.Count("real_calls", 1)
				for i, cnt := range s.Res.Counts {
					if i < len(got) && got[i] != cnt {
						r.Mismatch("dryrun:counts-differ-from-real-mkdir", fmt.Sprintf("%s: report says %v, real mkdir created %v", callString(s, c), s.Res.Counts, got), fsReplayRec{Items: s.Items, Conc: c.Name, Call: call})
						break
					}
				}
			}
		}
	})
	traceFsHistories(r, pool, fsTraceN(r), fsTraceMix{hostile: 0.3, long: 0.05, mkdir: 1, dry: 6, verify: 1, envw: 2}, []string{"C09_"})
	// dry run under every option sequence (Options.tla): dry run wins over an encoder; report and name validation as without
	checkOptions(r, "rule", []int{0, 1}, func(s *optState) bool { return tla.S(s.Rule["k"]) == "report" })
	sessionPhase(r) // Session.tla: the calls this property owns, after every other call of the alphabet
	r.Set("exhaustive", true)
	r.Set("rule", "every forest up to the bound (hostile names included) x 5 extension lists x {Mkdir-from-Markdown+dry-run, Mkdir-from-root+dry-run, Output+dry-run} x {simple, massive} x {target present, missing}; jail snapshot before/after; report compared with the real plain output per root + the specification's counts; counts compared with what a real Mkdir creates; non-trivial = at least 2 items")
}

// dryRunBlocks: per root, the plain text output of that root (real library) + the specification's counts
func dryRunBlocks(pool *wproto.Pool, s *fsState, c *tok.Conc) []string {
	var blocks []string
	start := 0
	ri := 0
	for i := 1; i <= len(s.Items); i++ {
		if i == len(s.Items) || s.Items[i].D == 1 {
			doc := canonItemsDoc(s.Items[start:i], c)
			rp := pool.Call(wproto.Req{Op: "output", Doc: doc}, 30*time.Second)
			cnt := [2]int{}
			if ri < len(s.Res.Counts) {
				cnt = s.Res.Counts[ri]
			}
			blocks = append(blocks, fmt.Sprintf("%s\n%d directories, %d files\n", rp.Out, cnt[0], cnt[1]))
			start = i
			ri++
		}
	}
	return blocks
}

// splitReport cuts a dry-run report into per-root blocks (each ends with its summary line)
func splitReport(out string) []string {
	var blocks []string
	cur := ""
	for _, l := range strings.SplitAfter(out, "\n") {
		cur += l
		if strings.HasSuffix(strings.TrimSuffix(l, "\n"), " files") && strings.Contains(l, " directories, ") {
			blocks = append(blocks, cur)
			cur = ""
		}
	}
	if cur != "" {
		blocks = append(blocks, cur)
	}
	return blocks
}

// realCounts runs the real Mkdir on a fresh target and counts directories and files under each root
func realCounts(pool *wproto.Pool, s *fsState, c *tok.Conc) ([][2]int, bool) {
	o, err := runFsCall(pool, s, c, false, false)
	if err != nil || o.rp.Class != "ok" {
		return nil, false
	}
	var out [][2]int
	for _, it := range s.Items {
		if it.D != 1 {
			continue
		}
		root := "t/" + c.Seq(it.N)
		cnt := [2]int{}
		for p, k := range o.after {
			if p == root || strings.HasPrefix(p, root+"/") {
				if strings.HasPrefix(k, "d") {
					cnt[0]++
				} else {
					cnt[1]++
				}
			}
		}
		out = append(out, cnt)
	}
	return out, true
}
