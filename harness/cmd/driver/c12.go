package main

import (
	"fmt"
	"math/rand"
	"os"
	"runtime"
	"strings"
	"sync"
	"time"

	"verif/harness/evid"
	"verif/harness/real"
	"verif/harness/tok"
	"verif/harness/wproto"
)

func init() { register("C12", "model_checking", checkC12) }

type entryRoute struct {
	name string
	req  wproto.Req
}

func allEntryRoutes() []entryRoute {
	base := []entryRoute{
		{"output-text", wproto.Req{Op: "output"}},
		{"output-json", wproto.Req{Op: "output", Format: "json"}},
		{"output-yaml", wproto.Req{Op: "output", Format: "yaml"}},
		{"output-toml", wproto.Req{Op: "output", Format: "toml"}},
		{"output-dryrun", wproto.Req{Op: "output", DryRun: true, Exts: []string{"a"}}},
		{"walk", wproto.Req{Op: "walk"}},
		{"mkdir", wproto.Req{Op: "mkdir", Exts: []string{"a"}}},
		{"mkdir-dryrun", wproto.Req{Op: "mkdir", DryRun: true}},
		{"verify", wproto.Req{Op: "verify", Strict: true}},
		// branch strings of any shape: the two connectors and the two fillers of unequal byte lengths, and all empty
		{"output-text-branches-long-last", wproto.Req{Op: "output", Branches: []string{"`------", "  ", "+", "|"}}},
		{"walk-branches-long-mid", wproto.Req{Op: "walk", Branches: []string{"`", "", "+------", "|     "}}},
		{"output-dryrun-branches-empty", wproto.Req{Op: "output", DryRun: true, Branches: []string{"", "", "", ""}}},
	}
	out := []entryRoute{{"output-text/slice", wproto.Req{Op: "output", NoIter: true}}}
	for _, b := range base {
		out = append(out, entryRoute{b.name + "/simple", b.req})
		m := b.req
		m.Massive = true
		m.Leaks = true
		out = append(out, entryRoute{b.name + "/massive", m})
	}
	return out
}

// inputClass names the kind of degenerate input (used in signatures so that a different crash is a
// different violation).
func inputClass(lines []string) string {
	if len(lines) == 0 {
		return "empty-input"
	}
	allBlank := true
	firstNonBlank := ""
	heading := false
	for _, l := range lines {
		if strings.TrimSpace(l) != "" {
			allBlank = false
			if firstNonBlank == "" {
				firstNonBlank = l
			}
			if strings.HasPrefix(l, "#") {
				heading = true
			}
		}
	}
	switch {
	case allBlank:
		return "blank-only-input"
	case strings.TrimSpace(lines[0]) == "":
		if heading {
			return "leading-blank-line+heading"
		}
		return "leading-blank-line"
	case heading:
		return "heading-document"
	case !strings.ContainsAny(firstNonBlank[:1], "-*+#"):
		return "first-line-not-a-root"
	}
	return "rooted-document"
}

func splitLines(doc string) []string {
	if doc == "" {
		return nil
	}
	ls := strings.Split(doc, "\n")
	if ls[len(ls)-1] == "" {
		ls = ls[:len(ls)-1]
	}
	return ls
}

type c12Replay struct {
	Bytes string     `json:"doc_bytes"`
	Route string     `json:"route"`
	Req   wproto.Req `json:"request"`
	Rep   wproto.Rep `json:"reply"`
}

func crashSite(err string) string {
	// first gtree function (other than the trivial Node accessors) named in the crash summary
	for _, part := range strings.Split(err, " | ") {
		if i := strings.Index(part, "github.com/ddddddO/gtree."); i >= 0 {
			f := part[i+len("github.com/ddddddO/gtree."):]
			if j := strings.LastIndex(f, "("); j > 0 {
				f = f[:j]
			}
			if !strings.HasPrefix(f, "(*Node)") {
				return f
			}
		}
	}
	return "unknown-site"
}

// checkEntryPoints runs one input through every entry point x {simple, massive} in worker processes.
func checkEntryPoints(r *evid.Run, pool *wproto.Pool, doc string, routes []entryRoute, verdict string, rooted bool) {
	lines := splitLines(doc)
	ic := inputClass(lines)
	blankOnly := ic == "empty-input" || ic == "blank-only-input"
	for _, rt := range routes {
		rq := rt.req
		rq.Doc = doc
		rp := pool.Call(rq, 30*time.Second)
		r.Count("real_calls", 1)
		if rp.Leaked > 0 {
			r.Count("calls_with_goroutines_left(C11)", 1)
		}
		replay := c12Replay{Bytes: doc, Route: rt.name, Req: rq, Rep: rp}
		switch rp.Class {
		case "panic":
			r.Mismatch(fmt.Sprintf("%s:panic:%s:%s", rt.name, ic, crashSite(rp.Err)), fmt.Sprintf("doc=%q %s", doc, rp.Err), replay)
			continue
		case "hang":
			r.Mismatch(fmt.Sprintf("%s:hang:%s", rt.name, ic), fmt.Sprintf("doc=%q no reply within the deadline", doc), replay)
			continue
		}
		if blankOnly {
			created := 0
			for _, e := range rp.Entries {
				if e != "d:t" {
					created++
				}
			}
			if rp.Class != "ok" || rp.Out != "" || len(rp.Walk) != 0 || created != 0 {
				r.Mismatch(fmt.Sprintf("%s:blank-input-not-empty-nil:%s", rt.name, ic),
					fmt.Sprintf("doc=%q class=%s out=%q err=%q", doc, rp.Class, rp.Out, rp.Err), replay)
			}
			continue
		}
		// simple-mode output/walk: the specification's accept/reject decision (massive mode: C10)
		if rooted && !rq.Massive && !rq.DryRun && (rq.Op == "output" || rq.Op == "walk") { // dry-run also validates names: C09
			if verdict == "accept" && rp.Class != "ok" {
				r.Mismatch(rt.name+":wellformed-rejected", fmt.Sprintf("doc=%q err=%q", doc, rp.Err), replay)
			}
			if verdict == "reject" && rp.Class == "ok" {
				r.Mismatch(rt.name+":malformed-accepted", fmt.Sprintf("doc=%q out=%q", doc, rp.Out), replay)
			}
		}
	}
}

func workerPool(r *evid.Run, n int) *wproto.Pool {
	self, err := os.Executable()
	if err != nil {
		r.Broken("os.Executable: %v", err)
		return nil
	}
	pool, err := wproto.NewPool(n, self, "worker")
	if err != nil {
		r.Broken("cannot start workers: %v", err)
		return nil
	}
	return pool
}

func checkC12(r *evid.Run) {
	pool := workerPool(r, runtime.NumCPU())
	if pool == nil {
		return
	}
	defer pool.Close()
	routes := allEntryRoutes()
	cfg, timeout := "MC_C12_quick.cfg", 10*time.Minute
	if r.Tier == "thorough" {
		cfg, timeout = "MC_C12_thorough.cfg", 40*time.Minute
	}
	// one concretisation per run (seeded): the token alphabet is complete, the chunk is opaque
	c := tok.MakeConc(int(r.Seed)%5, 0, r.Seed%2 == 1, allChunkIDs, rand.New(rand.NewSource(r.Seed)))
	r.Set("concretisation", c.Name)
	runDocModel(r, modelRun{Module: "MC_C12", Cfg: cfg, Timeout: timeout}, func(d *DocState) {
		if len(d.Doc) >= 1 {
			r.Count("distinct_nontrivial", 1)
		}
		if d.N%1201 == 0 {
			r.Sample(map[string]any{"doc": c.Doc(d.Doc), "verdict": d.Verdict, "model": d.GsStatus + "/" + d.GsErrK})
		}
		rs := routes
		if r.Tier == "thorough" && len(d.Doc) == 3 && d.N%4 != 0 {
			rs = routes[:7] // the 3-line documents: every 4th one through all routes, the others through the output routes
		}
		checkEntryPoints(r, pool, c.Doc(d.Doc), rs, d.Verdict, hasRootLine(d.Doc))
	})
	// every single line of up to 3 tokens (an indented item with text needs three)
	runDocModel(r, modelRun{Module: "MC_C12", Cfg: "MC_C12_wide1.cfg", Timeout: timeout}, func(d *DocState) {
		r.Count("distinct_nontrivial", 1)
		checkEntryPoints(r, pool, c.Doc(d.Doc), routes, d.Verdict, hasRootLine(d.Doc))
		// ... and the same line after a well-formed root block
		if len(d.Doc) == 1 {
			two := c.Doc([][]string{{"HY", "SP", "a"}, {"SP", "SP", "HY", "SP", "a"}, d.Doc[0]})
			checkEntryPoints(r, pool, two, routes[:7], "grey", false)
		}
	})
	// the malformed-line pool of C02 (items of several depths, every malformation class): every document
	// through every entry point, simple and massive
	runDocModel(r, modelRun{Module: "MC_C02", Cfg: "MC_C02_quick.cfg", Timeout: timeout}, func(d *DocState) {
		if len(d.Doc) == 0 {
			return
		}
		rs := routes
		if d.N%3 != 0 {
			rs = routes[:7]
		}
		checkEntryPoints(r, pool, c.Doc(d.Doc), rs, d.Verdict, hasRootLine(d.Doc))
	})
	r.Set("exhaustive", true)
	r.Set("rule", "every document of at most MaxLines lines of at most MaxTok tokens over the full 11-token alphabet, run through every entry point (output text/json/yaml/toml/dry-run, walk, mkdir and mkdir dry-run in a jail, verify) x {simple, massive} in isolated worker processes; plus seeded raw byte strings, byte mutations of valid documents and over-long lines; non-trivial = non-empty document")
	fuzzBytes(r, pool, routes)
	r.Set("worker_deaths", pool.Deaths())
}

// fuzzBytes: what tokens cannot express - raw bytes, invalid UTF-8, NUL, binary, over-long lines, and
// byte mutations of valid documents.  The accept/reject decision of every mutated document is checked
// against the specification through trace validation (TraceDoc, op "class").
func fuzzBytes(r *evid.Run, pool *wproto.Pool, routes []entryRoute) {
	n := 250
	if r.Tier == "thorough" {
		n = 4000
	}
	rng := rand.New(rand.NewSource(r.Seed*104729 + 5))
	p := genParams{MaxNodes: 12, MaxDepth: 5, MaxRoots: 3, NChunks: 8, Hostile: true}
	var inputs []string
	for i := 0; i < n; i++ {
		switch i % 5 {
		case 0: // raw random bytes
			b := make([]byte, rng.Intn(120))
			for j := range b {
				alphabet := []byte("\x00\x01\xff\xfe\xc3\x28 \t\r\n-*+#/.ab\xe2\x80\xa8\xf0\x9f")
				b[j] = alphabet[rng.Intn(len(alphabet))]
			}
			inputs = append(inputs, string(b))
		case 1, 2, 3: // grammar-aware mutation of a valid document
			c := tok.TraceConc(rng, p.NChunks)
			doc := []byte(c.Doc(spell(rng, randForest(rng, p), randSpelling(rng))))
			for k := 1 + rng.Intn(3); k > 0 && len(doc) > 0; k-- {
				pos := rng.Intn(len(doc))
				switch rng.Intn(4) {
				case 0:
					doc[pos] = []byte(" \t\n\r-*+#\x00\xff")[rng.Intn(10)]
				case 1:
					doc = append(doc[:pos], doc[pos+1:]...)
				case 2:
					ins := []string{"\n", "\n\n", "  ", "\t", "#", "- ", "\r\n", "\xc3"}[rng.Intn(8)]
					doc = append(doc[:pos], append([]byte(ins), doc[pos:]...)...)
				case 3:
					doc = doc[:pos]
				}
			}
			inputs = append(inputs, string(doc))
		case 4: // over-long line (bufio.Scanner's 64 KiB token limit) in different positions
			long := strings.Repeat("x", 65536+rng.Intn(100))
			inputs = append(inputs, []string{"- " + long, "- a\n  - " + long + "\n- b", long, "- a\n" + strings.Repeat(" ", 70000) + "- b"}[rng.Intn(4)])
		}
	}
	// fixed degenerate inputs: a carriage return as the very last byte, a CRLF document larger than one
	// read buffer, lone symbols, NUL bytes
	big := strings.Repeat("- r\r\n  - c\r\n", 400)
	inputs = append(inputs, "- a\n  - b\r", "\r", "- a\r", "\r\n\r", big, big[:len(big)-1], big[:4096], big[:4097], "#", "##\n#", "-", "*\n+", "- a\x00b\n\x00", "\xef\xbb\xbf- a\n")
	var wg sync.WaitGroup
	sem := make(chan struct{}, runtime.NumCPU())
	for _, in := range inputs {
		wg.Add(1)
		sem <- struct{}{}
		go func(in string) {
			defer wg.Done()
			defer func() { <-sem }()
			checkEntryPoints(r, pool, in, routes, "grey", false)
			if strings.Contains(in, strings.Repeat("x", 65536)) || strings.Contains(in, strings.Repeat(" ", 70000)) {
				// an over-long line must be reported as an error by the simple output
				if o := real.OutputMD(in); o.Class() != "err" {
					r.Mismatch("output-text/simple:overlong-line-not-an-error", fmt.Sprintf("len=%d class=%s", len(in), o.Class()), c12Replay{Bytes: in[:40] + "...", Route: "output-text/simple"})
				}
			}
		}(in)
	}
	wg.Wait()
	r.Count("fuzz_inputs", len(inputs))
	// decision of each short input vs the specification (TLC as the oracle over abstracted tokens)
	var recs []*traceRec
	for _, in := range inputs {
		if len(in) > 2000 {
			continue
		}
		ab := tok.NewAbstractor()
		doc := [][]string{}
		for _, l := range splitLines(in) {
			doc = append(doc, ab.Line(l))
		}
		for _, gen := range []string{"iter", "slice"} {
			rec := emptyRec("class", gen, doc)
			rec.bytes = in
			var o real.Outcome
			if gen == "iter" {
				o = real.OutputMD(in)
			} else {
				o = real.OutputMD(in, noIterOpt())
			}
			rec.out, rec.err = o.Out, o.ErrString()
			switch o.Class() {
			case "ok":
				rec.Res = "ok"
			case "err":
				rec.Res = "err"
				msg := o.Err.Error()
				switch {
				case msg == "empty text":
					rec.ErrK = "empty"
				case msg == "nil stack":
					rec.ErrK = "nilstack"
				case strings.HasPrefix(msg, "incorrect input format: "):
					rec.ErrK = "fmt"
					rec.ErrRow = ab.Line(strings.TrimPrefix(msg, "incorrect input format: "))
				default:
					rec.ErrK = "other"
				}
			default:
				rec.Res = o.Class()
			}
			recs = append(recs, rec)
		}
	}
	for len(recs) > 0 {
		k := 400
		if k > len(recs) {
			k = len(recs)
		}
		bad, ok := validateTrace(r, "TraceDoc.cfg", recs[:k])
		if !ok {
			return
		}
		r.Count("traces_validated_against_impl", k)
		for i, layers := range bad {
			rec := recs[i]
			if strings.Contains(layers, "P") {
				r.Mismatch("fuzz-decision:"+rec.Gen+":"+rec.Res, fmt.Sprintf("doc=%q class=%s err=%q", rec.bytes, rec.Res, rec.err),
					c12Replay{Bytes: rec.bytes, Route: "output-text/" + rec.Gen})
			} else {
				r.Count("drift_traces", 1)
				fmt.Printf("SPEC-DRIFT layer=M gen=%s doc=%q res=%s errk=%s\n", rec.Gen, rec.bytes, rec.Res, rec.ErrK)
			}
		}
		recs = recs[k:]
	}
}
