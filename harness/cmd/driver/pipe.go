package main

import (
	"encoding/json"
	"fmt"
	"os"
	"strings"
	"time"

	"verif/harness/tla"
	"verif/harness/tlcrun"
	"verif/harness/wproto"
)

// pipeCase is one massive-mode call with a known per-block fate vector.
type pipeCase struct {
	Sink     string   // model sink kind: text | enc | dry | mkdir | verify | walk
	Entry    string   // md | root
	Fates    []string // per block: ok | genErr | growErr | sinkErr
	ReadFail int      // blocks delivered before the reader fails; len(Fates)+1 = never
	Req      wproto.Req
	Blocks   []string // block texts in document order
	Names    []string // root name of each block
}

// buildPipeCase writes a document whose k-th root block has the given fate, and the request that makes
// that fate happen for the chosen sink.
//
//	genErr : an item with empty text ("  -")           -> the generator stage fails
//	growErr: a name containing '/' on a validating route -> the grower stage fails
//	sinkErr: walk: the callback fails for that root; mkdir: the root already exists (see pre-created)
func buildPipeCase(sink string, fates []string, readFail int) pipeCase {
	pc := pipeCase{Sink: sink, Entry: "md", Fates: fates, ReadFail: readFail}
	var doc strings.Builder
	rq := wproto.Req{Massive: true, Record: true, Leaks: true}
	switch sink {
	case "text":
		rq.Op = "output"
	case "enc":
		rq.Op, rq.Format = "output", "json"
	case "dry":
		rq.Op, rq.DryRun = "output", true
	case "mkdir":
		rq.Op = "mkdir"
	case "verify":
		rq.Op = "verify"
	case "walk":
		rq.Op = "walk"
	}
	for k, f := range fates {
		name := fmt.Sprintf("r%d", k+1)
		b := "- " + name + "\n"
		switch f {
		case "ok":
			b += "  - c\n    - d\n"
		case "genErr":
			// the three ways a block fails in the generator: empty item text, a level jump, no bullet
			b += []string{"  - c\n  -\n", "  - c\n        - jump\n", "  - c\n  nobullet\n"}[k%3]
		case "growErr":
			b += "  - x/y\n"
		case "sinkErr":
			b += "  - c\n"
			rq.FailNames = append(rq.FailNames, name) // walk: the callback fails for this root
			if sink == "mkdir" {
				rq.PreDoc += "- " + name + "\n" // mkdir: the root already exists
			}
		}
		if sink == "verify" && f != "sinkErr" {
			if f == "ok" {
				rq.PreDoc += b // verify: everything but the failing roots exists
			} else {
				rq.PreDoc += "- " + name + "\n"
			}
		}
		pc.Blocks = append(pc.Blocks, b)
		pc.Names = append(pc.Names, name)
		doc.WriteString(b)
	}
	rq.Doc = doc.String()
	if readFail <= len(fates) {
		off := 0
		for k := 0; k < readFail; k++ {
			off += len(pc.Blocks[k])
		}
		// fail inside the first line of the next block (or right at the end of the input)
		if readFail < len(fates) {
			off += 1
		}
		rq.ReadFail = &off
		rq.Yield = 1
	}
	pc.Req = rq
	return pc
}

// growErr needs a validating route; sinkErr needs a sink that can fail per root
func fateFeasible(sink, fate string) bool {
	switch fate {
	case "growErr":
		return sink == "dry" || sink == "mkdir" || sink == "verify"
	case "sinkErr":
		return sink == "walk" || sink == "mkdir" || sink == "verify"
	}
	return true
}

type pev map[string]any

// preprocess turns the recorded hook events into the trace TracePipeline.tla consumes.
func (pc *pipeCase) preprocess(rp wproto.Rep, preCancelled bool) ([]pev, string) {
	blockNo := map[string]int{}
	for i, b := range pc.Blocks {
		blockNo[b] = i + 1
	}
	nameNo := map[string]int{}
	for i, n := range pc.Names {
		nameNo[n] = i + 1
	}
	itemNo := func(e wproto.Event) int {
		if n, ok := blockNo[e.Item]; ok {
			return n
		}
		if n, ok := nameNo[e.Item]; ok {
			return n
		}
		return 0
	}
	// worker indexes per stage in order of first appearance
	widx := map[string]map[uint64]int{"gen": {}, "grow": {}, "sink": {}}
	stageOf := func(point string) string { return strings.SplitN(point, ".", 2)[0] }
	for _, e := range rp.Events {
		st := stageOf(e.Point)
		if m, ok := widx[st]; ok && e.Gid != 0 {
			if _, seen := m[e.Gid]; !seen {
				m[e.Gid] = len(m) + 1
			}
		}
	}
	// pair the two halves of every hand-over: key = receiving stage + block
	type half struct{ pos, idx int }
	sendPos, recvPos := map[string]half{}, map[string]half{}
	down := map[string]string{"split": "gen", "gen": "grow", "grow": "sink", "feeder": "grow"}
	for pos, e := range rp.Events {
		st := stageOf(e.Point)
		switch {
		case strings.HasSuffix(e.Point, ".send.post"):
			key := fmt.Sprintf("%s/%d", down[st], itemNo(e))
			sendPos[key] = half{pos, widx[st][e.Gid]}
		case strings.HasSuffix(e.Point, ".recv.post"):
			key := fmt.Sprintf("%s/%d", st, itemNo(e))
			recvPos[key] = half{pos, widx[st][e.Gid]}
		}
	}
	hchan := []string{"split", "gen", "grow", "sink"}
	if pc.Entry == "root" {
		hchan = []string{"grow", "sink"}
	}
	res := "nil"
	if rp.Class == "err" {
		res = "err"
		if rp.IsCtxErr {
			res = "ctx"
		}
	}
	out := []pev{{"ev": "init", "fate": pc.Fates, "readerfail": pc.ReadFail, "precancelled": preCancelled}}
	erred := map[uint64]bool{} // workers that went down the error path for their current item
	for pos, e := range rp.Events {
		st := stageOf(e.Point)
		op := strings.TrimPrefix(e.Point, st+".")
		i := widx[st][e.Gid]
		b := itemNo(e)
		add := func(ev string, kv ...any) {
			m := pev{"ev": ev, "s": st, "i": i, "j": 0, "b": b, "n": 0, "res": ""}
			for k := 0; k+1 < len(kv); k += 2 {
				m[kv[k].(string)] = kv[k+1]
			}
			out = append(out, m)
		}
		switch st {
		case "split", "feeder":
			switch op {
			case "send.pre":
				if st == "split" {
					if b == 0 {
						return nil, fmt.Sprintf("unknown block %q", e.Item)
					}
					add("scan")
				}
			case "send.post":
				key := fmt.Sprintf("%s/%d", down[st], b)
				r, ok := recvPos[key]
				if !ok {
					return nil, "unpaired hand-over " + key
				}
				if pos < r.pos {
					add("xfer", "s", down[st], "i", 0, "j", r.idx)
				}
			case "send.ctx":
				add("sendctx")
			case "scan.ctx":
				add("scanctx")
			case "errsend.pre":
				add("scanerr")
			case "errsend.post":
				add("errsent")
			case "errsend.ctx":
				add("errctx")
			case "exit":
				add("srcexit")
			}
		case "gen", "grow", "sink":
			switch op {
			case "recv.post":
				erred[e.Gid] = false
				key := fmt.Sprintf("%s/%d", st, b)
				s, ok := sendPos[key]
				if !ok {
					return nil, "unpaired hand-over " + key
				}
				if pos < s.pos {
					add("xfer", "i", s.idx, "j", i)
				}
			case "send.post":
				key := fmt.Sprintf("%s/%d", down[st], b)
				r, ok := recvPos[key]
				if !ok {
					return nil, "unpaired hand-over " + key
				}
				if pos < r.pos {
					add("xfer", "s", down[st], "i", i, "j", r.idx)
				}
			case "recv.ctx":
				add("recvctx")
			case "recv.closed":
				add("recvclosed")
			case "send.pre":
				add("worksend")
			case "send.ctx":
				add("sendctx")
			case "errsend.pre":
				erred[e.Gid] = true
				if b == 0 && st == "sink" {
					b = -1 // dry-run flush error: the item of the worker
				}
				add("workerr")
			case "errsend.post":
				add("errsent")
			case "errsend.ctx":
				add("errctx")
			case "lock":
				add("lock")
			case "unlock":
				add("unlock")
			case "done":
				if pc.Sink != "text" && !erred[e.Gid] {
					add("sinkdone")
				}
			case "close":
				add("close")
			case "skip":
				return nil, "block without a root (not modelled)"
			}
		case "h":
			c := hchan[int(e.Gid)]
			switch op {
			case "select.closed":
				add("hclosed", "s", c)
			case "select.ctx":
				add("hctx", "s", c)
			case "select.err":
				add("herr", "s", c)
			}
		case "main":
			switch op {
			case "wait.post":
				add("waitpost", "res", res)
			case "return":
				add("return")
			}
		case "env":
			if op == "cancel" && !preCancelled { // ("env.cancel.pre" is only the gate's waiting point)
				add("cancel")
			}
		case "settled":
			add("settled", "n", rp.Leaked)
		}
	}
	return out, ""
}

type ptraceVerdict struct {
	Accepted bool
	HWM      int
	Len      int
	Violated string // Layer-P invariant that failed, "" if none
	Output   string
	Broken   string
}

// validatePTrace runs TLC on TracePipeline for one trace.
func validatePTrace(pc *pipeCase, trace []pev, workers int) ptraceVerdict {
	var sb strings.Builder
	for _, e := range trace {
		b, _ := json.Marshal(e)
		sb.Write(b)
		sb.WriteByte('\n')
	}
	cfg := fmt.Sprintf(`SPECIFICATION TSpec
CONSTANTS
  N = %d
  W = %d
  Fates <- TraceFates
  ReaderFails <- TraceReaderFails
  Entry = "%s"
  Sink = "%s"
  CanCancel = TRUE
  PreCancelled = TRUE
  Dev = {}
INVARIANTS LeakFree SettledMeansDone ResultAgrees NilMeansComplete FaultMeansErr BlockIntegrity NoDupNoGhost
POSTCONDITION HWM
CHECK_DEADLOCK FALSE
`, len(pc.Fates), workers, pc.Entry, pc.Sink)
	res, err := tlcrun.Run(tlcrun.Opts{SpecDir: specDir, Module: "TracePipeline", Cfg: "ptrace.cfg", Workers: 1, Timeout: 3 * time.Minute,
		Extra: map[string]string{"ptrace.ndjson": sb.String(), "ptrace.cfg": cfg}}, nil)
	v := ptraceVerdict{Len: len(trace)}
	if res != nil {
		v.Output = res.Tail(40)
		v.Accepted = strings.Contains(res.Output, "\"TRACE-ACCEPTED\"")
		v.Violated = res.Violated
		if k := strings.Index(res.Output, "\"TRACE-HWM\""); k >= 0 {
			if st := strings.LastIndex(res.Output[:k], "<<"); st >= 0 {
				if e := strings.Index(res.Output[st:], ">>"); e >= 0 {
					if val, perr := tla.Parse(res.Output[st : st+e+2]); perr == nil {
						v.HWM = tla.I(tla.Q(val)[1])
					}
				}
			}
		}
	}
	if os.Getenv("VERIF_DEBUG") != "" && res != nil && strings.Contains(res.Output, "unexpected exception") {
		os.WriteFile("/tmp/ptrace_broken.ndjson", []byte(sb.String()), 0o644)
		os.WriteFile("/tmp/ptrace_broken.out", []byte(res.Output), 0o644)
	}
	if err != nil {
		v.Broken = err.Error()
	} else if !v.Accepted && v.Violated == "" && res.ErrorText != "" {
		v.Broken = res.ErrorText
	}
	return v
}
