package main

import (
	"errors"
	"fmt"
	"math/rand"

	"github.com/ddddddO/gtree/markdown"

	"verif/harness/evid"
	"verif/harness/tok"
)

// TraceParser.tla: markdown.Parser driven line by line through its public API; every Parse call is logged with what
// it returned and the parser's learnt state afterwards (markdown.VerifState, build tag verif) and TLC checks that each
// call is the step MdLine.Parse takes.  Layer M only: a mismatch is SPEC-DRIFT (counted, printed), not a verdict.

type parseEv struct {
	Op     string   `json:"op"`
	Line   []string `json:"line"`
	Res    string   `json:"res"`
	Hier   int      `json:"hier"`
	Text   []string `json:"text"`
	Sep    string   `json:"sep"`
	Spaces int      `json:"spaces"`
	Sharp  bool     `json:"sharp"`
	bytes  string
}

func traceParser(r *evid.Run, nDocs int, p genParams) {
	rng := rand.New(rand.NewSource(r.Seed*104729 + 5))
	var evs []any
	for d := 0; d < nDocs; d++ {
		c := tok.TraceConc(rng, p.NChunks)
		doc := spell(rng, randForest(rng, p), randSpelling(rng))
		if d%2 == 1 {
			doc = injectMalformations(rng, doc)
		}
		ps := markdown.NewParser()
		evs = append(evs, &parseEv{Op: "new", Line: []string{}, Text: []string{}})
		for _, line := range doc {
			if n := len(line); n > 0 && line[n-1] == "CR" {
				line = line[:n-1] // the line scanner drops one trailing CR before the parser sees the row
			}
			row := c.Seq(line)
			ev := &parseEv{Op: "parse", Line: append([]string{}, line...), Text: []string{}, bytes: row}
			md, err := ps.Parse(row)
			switch {
			case err == nil && md != nil:
				ev.Res, ev.Hier = "ok", int(md.Hierarchy())
				if t, ok := c.Decode(md.Text()); ok {
					ev.Text = t
				} else {
					ev.Text = []string{"UNDECODABLE"}
				}
			case errors.Is(err, markdown.ErrBlankLine):
				ev.Res = "blank"
			case errors.Is(err, markdown.ErrEmptyText):
				ev.Res = "empty"
			case errors.Is(err, markdown.ErrIncorrectFormat):
				ev.Res = "fmt"
			default:
				ev.Res = "other"
			}
			spaces, sep, sharp := ps.VerifState()
			ev.Spaces, ev.Sharp = spaces, sharp
			switch sep {
			case "":
				ev.Sep = "none"
			case " ":
				ev.Sep = "sp"
			case "\t":
				ev.Sep = "tab"
			default:
				ev.Sep = "other:" + sep
			}
			if ev.Line == nil {
				ev.Line = []string{}
			}
			evs = append(evs, ev)
		}
	}
	bad, ok := validateTraceIn(r, "TraceParser", "TraceParser.cfg", "ptrace.ndjson", evs)
	if !ok {
		return
	}
	r.Count("parser_calls_validated_against_impl", len(evs)-nDocs)
	r.Count("traces_validated_against_impl", nDocs)
	for i := range bad {
		ev := evs[i].(*parseEv)
		r.Count("drift_traces", 1)
		fmt.Printf("SPEC-DRIFT layer=parser row=%q -> res=%s hier=%d text=%v state(sep=%s spaces=%d sharp=%v): not the step MdLine.Parse takes\n",
			ev.bytes, ev.Res, ev.Hier, ev.Text, ev.Sep, ev.Spaces, ev.Sharp)
	}
}
