package main

import (
	"context"
	"encoding/json"
	"fmt"
	"math/rand"
	"os"
	"strings"
	"time"

	"github.com/ddddddO/gtree"

	"verif/harness/evid"
	"verif/harness/real"
	"verif/harness/tla"
	"verif/harness/tlcrun"
	"verif/harness/tok"
)

// traceRec is one recorded From-Markdown call (see TraceDoc.tla).
type traceRec struct {
	Op     string     `json:"op"`
	Gen    string     `json:"gen"`
	Doc    [][]string `json:"doc"`
	Res    string     `json:"res"`
	Rows   [][]string `json:"rows"`
	Walk   []walkJ    `json:"walk"`
	Forest []treeJ    `json:"forest"`
	ErrK   string     `json:"errk"`
	ErrRow []string   `json:"errrow"`
	// not read by TLC
	bytes string
	conc  *tok.Conc
	out   string
	err   string
}

type walkJ struct {
	Name     []string   `json:"name"`
	Branch   []string   `json:"branch"`
	Level    int        `json:"level"`
	Path     [][]string `json:"path"`
	HasChild bool       `json:"hasChild"`
}

type treeJ struct {
	Name []string `json:"name"`
	Kids []treeJ  `json:"kids"`
}

type traceSpec struct {
	Ops       []string
	Params    genParams
	Malform   bool // inject 0..2 malformations
	NQuick    int
	NThorough int
}

var traceSpecC01 = traceSpec{Ops: []string{"text"}, Params: genParams{MaxNodes: 60, MaxDepth: 8, MaxRoots: 5, NChunks: 16, Hostile: true}, NQuick: 120, NThorough: 1500}

// documents of several KiB (more than one 4096-byte buffer of the line scanner, hundreds of lines): a handful per run
var traceSpecBig = traceSpec{Ops: []string{"text", "walk"}, Params: genParams{MinNodes: 350, MaxNodes: 700, MaxDepth: 6, MaxRoots: 40, NChunks: 16, Hostile: true}, NQuick: 4, NThorough: 40}

// chains of only children 66 - 90 levels deep with a few siblings on the way
// one level of 300-450 siblings, every fifth with children of its own
var traceSpecFan = traceSpec{Ops: []string{"text", "walk"}, Params: genParams{MinNodes: 10, MaxNodes: 40, MaxDepth: 5, MaxRoots: 3, NChunks: 16, Fan: 300}, NQuick: 3, NThorough: 24}

var traceSpecDeep = traceSpec{Ops: []string{"text", "walk"}, Params: genParams{MinNodes: 100, MaxNodes: 140, MaxDepth: 120, MaxRoots: 2, NChunks: 8, Chain: 66}, NQuick: 3, NThorough: 30}

func classifyErr(err error, c *tok.Conc) (string, []string) {
	if err == nil {
		return "", []string{}
	}
	msg := err.Error()
	switch {
	case msg == "empty text":
		return "empty", []string{}
	case msg == "nil stack":
		return "nilstack", []string{}
	case strings.HasPrefix(msg, "incorrect input format: "):
		row, ok := c.Decode(strings.TrimPrefix(msg, "incorrect input format: "))
		if !ok {
			row = []string{"UNDECODABLE"}
		}
		return "fmt", row
	}
	return "other", []string{}
}

func decodeRows(out string, c *tok.Conc) [][]string {
	rows := [][]string{}
	if out == "" {
		return rows
	}
	ls := strings.Split(out, "\n")
	if ls[len(ls)-1] == "" {
		ls = ls[:len(ls)-1]
	} else {
		rows = append(rows, []string{"NO-FINAL-NEWLINE"})
	}
	for _, l := range ls {
		t, ok := c.Decode(l)
		if !ok {
			t = []string{"UNDECODABLE"}
		}
		rows = append(rows, t)
	}
	return rows
}

func emptyRec(op, gen string, doc [][]string) *traceRec {
	return &traceRec{Op: op, Gen: gen, Doc: doc, Rows: [][]string{}, Walk: []walkJ{}, Forest: []treeJ{}, ErrRow: []string{}}
}

// recordText runs OutputFromMarkdown (text) through one generator route.
func recordText(doc [][]string, c *tok.Conc, gen string) *traceRec {
	rec := emptyRec("text", gen, doc)
	rec.bytes, rec.conc = c.Doc(doc), c
	opts := branchOpts(c)
	if gen == "slice" {
		opts = append(opts, gtree.WithNoUseIterOfSimpleOutput())
	}
	o := real.OutputMD(rec.bytes, opts...)
	rec.out, rec.err = o.Out, o.ErrString()
	switch o.Class() {
	case "ok":
		rec.Res = "ok"
		rec.Rows = decodeRows(o.Out, c)
	case "err":
		rec.Res = "err"
		rec.ErrK, rec.ErrRow = classifyErr(o.Err, c)
	default:
		rec.Res = o.Class() // panic / hang: never equal to what the spec expects
		rec.err = firstLine(o.Panic)
	}
	return rec
}

// recordTree runs an encoder (JSON or YAML by turns; massive: JSON in massive mode) and decodes what it wrote.
func recordTree(doc [][]string, c *tok.Conc, massive bool, k int) *traceRec {
	rec := emptyRec("tree", "iter", doc)
	rec.bytes, rec.conc = c.Doc(doc), c
	opts, dec := []gtree.Option{gtree.WithEncodeJSON()}, real.DecodeJSON
	if k%2 == 1 && !massive {
		opts, dec = []gtree.Option{gtree.WithEncodeYAML()}, real.DecodeYAML
	}
	if massive {
		rec.Op = "mtree"
		opts = append(opts, gtree.WithMassive(context.Background()))
	} else if k%4 >= 2 {
		rec.Gen = "slice"
		opts = append(opts, gtree.WithNoUseIterOfSimpleOutput())
	}
	o := real.OutputMD(rec.bytes, opts...)
	rec.out, rec.err = o.Out, o.ErrString()
	switch o.Class() {
	case "ok":
		rec.Res = "ok"
		dt, err := dec(o.Out)
		if err != nil {
			rec.Res, rec.err = "undecodable", err.Error()
			break
		}
		for _, t := range dt {
			rec.Forest = append(rec.Forest, dtreeToJ(t, c))
		}
	case "err":
		rec.Res = "err"
		rec.ErrK, rec.ErrRow = classifyErr(o.Err, c)
	default:
		rec.Res = o.Class()
		rec.err = firstLine(o.Panic)
	}
	return rec
}

func recordWalk(doc [][]string, c *tok.Conc) *traceRec {
	rec := emptyRec("walk", "slice", doc)
	rec.bytes, rec.conc = c.Doc(doc), c
	recs, o := real.WalkMD(rec.bytes, 0, nil, branchOpts(c)...)
	rec.err = o.ErrString()
	switch o.Class() {
	case "ok":
		rec.Res = "ok"
		for _, w := range recs {
			rec.Walk = append(rec.Walk, walkToJ(w, c))
		}
	case "err":
		rec.Res = "err"
		rec.ErrK, rec.ErrRow = classifyErr(o.Err, c)
	default:
		rec.Res = o.Class()
		rec.err = firstLine(o.Panic)
	}
	return rec
}

func walkToJ(w real.WalkRec, c *tok.Conc) walkJ {
	dec := func(s string) []string {
		t, ok := c.Decode(s)
		if !ok {
			return []string{"UNDECODABLE"}
		}
		return t
	}
	j := walkJ{Name: dec(w.Name), Branch: dec(w.Branch), Level: int(w.Level), HasChild: w.HasChild, Path: [][]string{}}
	// Path is names joined by '/': split on "/" is only meaningful for names without SL (C05's premise)
	for _, p := range strings.Split(w.Path, "/") {
		j.Path = append(j.Path, dec(p))
	}
	return j
}

// validateTrace runs TLC on TraceDoc with the records; returns the set of (index, layer) failures.
func validateTrace(r *evid.Run, cfg string, recs []*traceRec) (map[int]string, bool) {
	anyRecs := make([]any, len(recs))
	for i, rec := range recs {
		anyRecs[i] = rec
	}
	return validateTraceIn(r, "TraceDoc", cfg, "trace.ndjson", anyRecs)
}

// validateTraceIn runs TLC on a trace module; returns the failing (index, layers).
func validateTraceIn(r *evid.Run, module, cfg, file string, recs []any) (map[int]string, bool) {
	var sb strings.Builder
	for _, rec := range recs {
		b, _ := json.Marshal(rec)
		sb.Write(b)
		sb.WriteByte('\n')
	}
	if keep := os.Getenv("VERIF_KEEP_TRACE"); keep != "" { // debugging aid: a copy of the trace handed to TLC
		os.WriteFile(keep, []byte(sb.String()), 0o644)
	}
	res, err := tlcrun.Run(tlcrun.Opts{SpecDir: specDir, Module: module, Cfg: cfg, Workers: 1, Timeout: 15 * time.Minute,
		Extra: map[string]string{file: sb.String()}}, nil)
	if err != nil {
		r.Broken("trace validation: %v\n%s", err, tail(res))
		return nil, false
	}
	var verdict tla.Value
	if k := strings.Index(res.Output, "\"TRACE-VERDICT\""); k >= 0 {
		if st := strings.LastIndex(res.Output[:k], "<<"); st >= 0 {
			txt := res.Output[st:]
			depth, end := 0, -1
			for i := 0; i < len(txt)-1; i++ {
				if txt[i] == '<' && txt[i+1] == '<' {
					depth++
					i++
				} else if txt[i] == '>' && txt[i+1] == '>' {
					depth--
					i++
					if depth == 0 {
						end = i + 1
						break
					}
				}
			}
			if end > 0 {
				verdict, _ = tla.Parse(txt[:end])
			}
		}
	}
	if verdict == nil || res.ErrorText != "" {
		r.Broken("trace validation produced no verdict: %s\n%s", res.ErrorText, tail(res))
		return nil, false
	}
	v := tla.Q(verdict)
	if tla.I(v[1]) != len(recs) {
		r.Broken("trace validation consumed %d of %d records", tla.I(v[1]), len(recs))
		return nil, false
	}
	bad := map[int]string{}
	for _, e := range v[2].(tla.Set) {
		p := tla.Q(e)
		i := tla.I(p[0]) - 1
		if len(p) >= 3 { // <<index, layer, detail>>
			bad[i] += tla.S(p[1]) + ":" + tla.S(p[2]) + ";"
		} else {
			bad[i] += tla.S(p[1])
		}
	}
	r.Count("trace_tlc_states", res.Distinct)
	return bad, true
}

// traceDocs: random documents far beyond the exhaustive bounds, run on the real code, validated by TLC.
func traceDocs(r *evid.Run, id string, ts traceSpec) {
	n := ts.NQuick
	if r.Tier == "thorough" {
		n = ts.NThorough
	}
	rng := rand.New(rand.NewSource(r.Seed*7919 + 17))
	batch := 150
	total := 0
	for total < n {
		var recs []*traceRec
		for len(recs) < batch && total < n {
			c := tok.TraceConc(rng, ts.Params.NChunks)
			f := randForest(rng, ts.Params)
			doc := spell(rng, f, randSpelling(rng))
			if ts.Malform {
				doc = injectMalformations(rng, doc)
			}
			for _, op := range ts.Ops {
				switch op {
				case "text":
					recs = append(recs, recordText(doc, c, "iter"), recordText(doc, c, "slice"))
				case "walk":
					recs = append(recs, recordWalk(doc, c))
				case "tree":
					recs = append(recs, recordTree(doc, c, false, total), recordTree(doc, c, true, total))
				}
			}
			total++
		}
		bad, ok := validateTrace(r, "TraceDoc.cfg", recs)
		if !ok {
			return
		}
		r.Count("traces_validated_against_impl", len(recs))
		r.Count("real_calls", len(recs))
		for i, layers := range bad {
			rec := recs[i]
			if strings.Contains(layers, "P") {
				r.Mismatch(fmt.Sprintf("trace:%s/%s:%s", rec.Op, rec.Gen, rec.Res),
					fmt.Sprintf("doc=%q out=%q err=%q", rec.bytes, rec.out, rec.err),
					docReplay{Doc: rec.Doc, Conc: rec.conc, Bytes: rec.bytes, Route: "trace:" + rec.Op + "/" + rec.Gen, Got: rec.out, Err: rec.err})
			} else {
				r.Count("drift_traces", 1)
				fmt.Printf("SPEC-DRIFT layer=M op=%s gen=%s doc=%q res=%s errk=%s\n", rec.Op, rec.Gen, rec.bytes, rec.Res, rec.ErrK)
			}
		}
		if len(recs) > 0 {
			r.Sample(map[string]any{"trace_record": map[string]any{"op": recs[0].Op, "doc_bytes": recs[0].bytes, "res": recs[0].Res, "out": recs[0].out}})
		}
	}
}

// injectMalformations is filled in by C02 (malformed-document classes).
var injectMalformations = func(rng *rand.Rand, doc [][]string) [][]string { return doc }

// replayFile re-runs a stored violation.
func replayFile(r *evid.Run, path string) int {
	b, err := readFile(path)
	if err != nil {
		fmt.Println(err)
		return 2
	}
	var hdr struct {
		Sig  string `json:"sig"`
		What string `json:"what"`
	}
	json.Unmarshal(b, &hdr)
	fmt.Printf("replay of %s (property %s)\n  stored signature: %s\n  stored observation: %s\n", path, r.ID, hdr.Sig, hdr.What)
	var rp struct {
		Replay docReplay `json:"replay"`
	}
	if json.Unmarshal(b, &rp) == nil && rp.Replay.Bytes != "" {
		c := rp.Replay.Conc
		opts := []gtree.Option{}
		if c != nil {
			opts = branchOpts(c)
		}
		if strings.Contains(rp.Replay.Route, "slice") {
			opts = append(opts, gtree.WithNoUseIterOfSimpleOutput())
		}
		o := real.OutputMD(rp.Replay.Bytes, opts...)
		fmt.Printf("re-run: class=%s out=%q err=%v\n", o.Class(), o.Out, o.Err)
		if rp.Replay.Want != "" && (o.Out != rp.Replay.Want || o.Class() != "ok") {
			fmt.Printf("VIOLATION property=%s replay=%s\n", r.ID, path)
			return 1
		}
	}
	if rp.Replay.Bytes != "" {
		return 0
	}
	var sp struct {
		Replay sessReplay `json:"replay"`
	}
	if json.Unmarshal(b, &sp) == nil && len(sp.Replay.Session) > 0 {
		// a session of Session.tla: run it again in a fresh process
		self, _ := os.Executable()
		args := []string{"worker"}
		if sp.Replay.Build == "/tinywasm" {
			if self = buildWasmDriver(r); self == "" {
				return 2
			}
			args = nil
		}
		s := &sessionRunner{r: r, self: self, args: args, alone: map[string]*sessObs{}, build: sp.Replay.Build}
		if sp.Replay.Concurrent {
			s.runPair(sp.Replay.Session)
		} else {
			s.runSession(sp.Replay.Session)
		}
		if r.Violations() > 0 {
			return 1
		}
		fmt.Println("the stored session gives the same reply as its last call alone on the current tree")
		return 0
	}
	// not a single-document replay: re-run the check and see whether the same signature comes back
	r.OnlySig = hdr.Sig
	checks[r.ID](r)
	if r.Violations() > 0 {
		return 1
	}
	fmt.Println("the stored violation does not reproduce on the current tree")
	return 0
}
