package main

import (
	"fmt"
	"runtime"
	"sort"
	"strings"
	"sync"
	"time"

	"verif/harness/evid"
	"verif/harness/tla"
	"verif/harness/tlcrun"
	"verif/harness/wproto"
)

// Options.tla replayed: every option sequence up to the bound x every entry point x both API families.
//
// Layer P, "families" (C03, "x all options accepted by both API families"): with the same option sequence
// the From-Root call and the From-Markdown call give the same result.
// Layer P, "rule" (C05 walk, C06/C07 mkdir, C08 verify, C09 dry run): the call gives what the call with the
// CANONICAL option sequence of its declarative effect gives - the last setting of a field wins and an option
// the operation has no use for changes nothing, so the property holds under every option sequence if it
// holds under the canonical ones (which the property's own check explores).
// Layer M: the same comparison against the code-shaped effect; a deviation is SPEC-DRIFT, not a violation.

func (s *optState) has(opt string) bool {
	for _, o := range s.Opts {
		if o == opt {
			return true
		}
	}
	return false
}

type optState struct {
	N    int
	Opts []string
	Op   string
	Fam  string
	Code map[string]tla.Value
	Rule map[string]tla.Value
}

func optStateOf(st *tla.State) *optState {
	op := tla.S(st.Get("op"))
	if op == "none" {
		return nil
	}
	return &optState{N: st.N, Opts: tla.Strs(st.Get("opts")), Op: op, Fam: tla.S(st.Get("fam")),
		Code: tla.R(st.Get("code")), Rule: tla.R(st.Get("rule"))}
}

// canonical option sequence of an effect
func canonOpts(e map[string]tla.Value) []string {
	var out []string
	k := tla.S(e["k"])
	switch k {
	case "json", "yaml", "toml":
		out = append(out, k)
	case "flatreport", "walk-nopaths", "mkdir-nopaths", "verify-nopaths":
		out = append(out, "json")
	case "cancelled":
		out = append(out, "mcancel")
	}
	if k == "report" || k == "flatreport" {
		out = append(out, "dry")
	}
	if v, ok := e["validate"]; ok && tla.B(v) {
		out = append(out, "dry")
	}
	if v, ok := e["exts"]; ok {
		switch tla.S(v) {
		case "e1":
			out = append(out, "exts1")
		case "e2":
			out = append(out, "exts2")
		}
	}
	if v, ok := e["target"]; ok && tla.S(v) == "B" {
		out = append(out, "targetB")
	}
	if v, ok := e["strict"]; ok && tla.B(v) {
		out = append(out, "strict")
	}
	if v, ok := e["brL"]; ok {
		switch tla.S(v) {
		case "L1":
			out = append(out, "brL1")
		case "L2":
			out = append(out, "brL2")
		}
	}
	if v, ok := e["brI"]; ok && tla.S(v) == "I1" {
		out = append(out, "brI1")
	}
	if out == nil {
		out = []string{}
	}
	return out
}

func effString(e map[string]tla.Value) string {
	var ks []string
	for k := range e {
		ks = append(ks, k)
	}
	sort.Strings(ks)
	var parts []string
	for _, k := range ks {
		parts = append(parts, fmt.Sprintf("%s=%v", k, e[k]))
	}
	return strings.Join(parts, " ")
}

// documents the entry points are run on: a plain tree, and one with a name that is no path element
var optDocs = []struct {
	name  string
	doc   string
	items []wproto.Item
}{
	{"r{a{f.x} b}", "- r\n  - a\n    - f.x\n  - b\n", []wproto.Item{{D: 1, N: "r"}, {D: 2, N: "a"}, {D: 3, N: "f.x"}, {D: 2, N: "b"}}},
	{"r{a{../../x} b}", "- r\n  - a\n    - ../../x\n  - b\n", []wproto.Item{{D: 1, N: "r"}, {D: 2, N: "a"}, {D: 3, N: "../../x"}, {D: 2, N: "b"}}},
	// malformed (From-Markdown only): an item two levels below its predecessor, then an item without text
	{"malformed 'r / a / (jump) x / -'", "- r\n  - a\n      - x\n  -\n", nil},
}

func optReq(op, fam string, seq []string, di int) wproto.Req {
	rq := wproto.Req{Op: op, OptMode: true, OptSeq: seq}
	if fam == "root" {
		rq.Route, rq.Items = "root", optDocs[di].items
	} else {
		rq.Doc = optDocs[di].doc
	}
	if op == "verify" {
		// A holds the plain tree (made with extension .x) and one entry too many; B is empty
		rq.PreDoc = optDocs[0].doc
		rq.PreFiles = []string{"A/r/extra"}
	}
	return rq
}

type optResult struct {
	Class, Out, Err string
	Walk, Entries   []string
}

func optResultOf(rp wproto.Rep) optResult {
	return optResult{rp.Class, rp.Out, rp.Err, rp.Walk, rp.Entries}
}

// a call whose context was cancelled beforehand: only the returned error is determined (how far the
// pipeline got before it noticed is not)
func (a optResult) cancelledOnly() optResult { return optResult{Class: a.Class, Err: a.Err} }

func (a optResult) same(b optResult) bool {
	return a.Class == b.Class && a.Out == b.Out && a.Err == b.Err && sameStrs(a.Walk, b.Walk) && sameStrs(a.Entries, b.Entries)
}

func (a optResult) String() string {
	return fmt.Sprintf("class=%s err=%q out=%q walk=%q entries=%v", a.Class, a.Err, a.Out, a.Walk, a.Entries)
}

// checkOptions replays MC_Opt. want(s) selects the states of the calling property; layer is "families" or "rule".
func checkOptions(r *evid.Run, layer string, docs []int, want func(s *optState) bool) {
	pool := workerPool(r, runtime.NumCPU())
	if pool == nil {
		return
	}
	defer pool.Close()
	cfg, timeout := "MC_Opt_quick.cfg", 10*time.Minute
	if r.Tier == "thorough" {
		cfg, timeout = "MC_Opt_thorough.cfg", 40*time.Minute
	}
	var mu sync.Mutex
	cache := map[string]optResult{} // (op, family, sequence, document) -> result: the calls are deterministic
	call := func(op, fam string, seq []string, di int) optResult {
		key := fmt.Sprintf("%s|%s|%s|%d", op, fam, strings.Join(seq, ","), di)
		mu.Lock()
		res, ok := cache[key]
		mu.Unlock()
		if ok {
			return res
		}
		rp := pool.Call(optReq(op, fam, seq, di), 30*time.Second)
		r.Count("real_calls", 1)
		res = optResultOf(rp)
		mu.Lock()
		cache[key] = res
		mu.Unlock()
		return res
	}
	drift := map[string]bool{}
	replay := func(s *optState) {
		r.Count("option_sequences_x_entry_points", 1)
		if s.N%997 == 0 {
			r.Sample(map[string]any{"options": s.Opts, "op": s.Op, "family": s.Fam, "effect": effString(s.Rule)})
		}
		for _, di := range docs {
			if (di == 1 && s.Op == "verify") || (optDocs[di].items == nil && s.Fam == "root") {
				continue
			}
			got := call(s.Op, s.Fam, s.Opts, di)
			cancelled := tla.S(s.Rule["k"]) == "cancelled"
			if cancelled {
				got = got.cancelledOnly()
			}
			desc := fmt.Sprintf("%s (%s) of %s with options %v", s.Op, s.Fam, optDocs[di].name, s.Opts)
			rec := map[string]any{"options": s.Opts, "op": s.Op, "family": s.Fam, "document": optDocs[di].doc, "got": got}
			if got.Class == "panic" || got.Class == "hang" {
				r.Mismatch("options:"+s.Op+":"+got.Class, desc+": "+got.Err, rec)
				continue
			}
			switch layer {
			case "families":
				if s.Fam == "root" {
					md := call(s.Op, "md", s.Opts, di)
					if cancelled {
						md = md.cancelledOnly()
					}
					if !got.same(md) {
						rec["from_markdown"] = md
						r.Mismatch(fmt.Sprintf("options:%s:from-root-differs-from-markdown:%s", s.Op, tla.S(s.Rule["k"])),
							fmt.Sprintf("%s: From-Root gives %v; From-Markdown gives %v", desc, got, md), rec)
					}
				}
			case "rule":
				ref := call(s.Op, "md", canonOpts(s.Rule), di)
				if cancelled {
					ref = ref.cancelledOnly()
				}
				if !got.same(ref) {
					rec["canonical_options"], rec["canonical_result"] = canonOpts(s.Rule), ref
					r.Mismatch(fmt.Sprintf("options:%s/%s:result-changed-by-an-option-it-has-no-use-for:%s", s.Op, s.Fam, tla.S(s.Rule["k"])),
						fmt.Sprintf("%s: gives %v; the options %v, which mean the same, give %v", desc, got, canonOpts(s.Rule), ref), rec)
				}
			}
			// Layer M
			ref := call(s.Op, "md", canonOpts(s.Code), di)
			if tla.S(s.Code["k"]) == "cancelled" {
				ref = ref.cancelledOnly()
			}
			if !got.same(ref) {
				key := s.Op + "/" + s.Fam + "/" + tla.S(s.Code["k"])
				mu.Lock()
				first := !drift[key]
				drift[key] = true
				mu.Unlock()
				r.Count("drift_option_states", 1)
				if first {
					fmt.Printf("SPEC-DRIFT layer=options %s effect={%s}: got %v; the canonical options %v give %v\n", desc, effString(s.Code), got, canonOpts(s.Code), ref)
				}
			}
		}
	}
	ch := make(chan *optState, 256)
	var wg sync.WaitGroup
	for i := 0; i < runtime.NumCPU(); i++ {
		wg.Add(1)
		go func() {
			defer wg.Done()
			for s := range ch {
				replay(s)
			}
		}()
	}
	// the bounded option sequences, then every configuration record there is (each through its canonical sequence):
	// the configuration of a sequence of any length is one of them (CfgSpaceClosed)
	for _, cfg := range []string{cfg, "MC_Opt_cfgs.cfg"} {
		res, err := tlcrun.Run(tlcrun.Opts{SpecDir: specDir, Module: "MC_Opt", Cfg: cfg, Timeout: timeout, Dump: true},
			func(st *tla.State) error {
				if s := optStateOf(st); s != nil && want(s) {
					ch <- s
				}
				return nil
			})
		if err != nil || res.Violated != "" || res.ErrorText != "" || res.Dumped != res.Distinct {
			close(ch)
			wg.Wait()
			r.Broken("TLC MC_Opt/%s: %v %s %s\n%s", cfg, err, res.Violated, res.ErrorText, tail(res))
			return
		}
		r.Count("states", res.Distinct)
		r.Count("transitions", res.Generated)
		fmt.Printf("model MC_Opt/%s: %d distinct states, %d generated, %.1fs\n", cfg, res.Distinct, res.Generated, res.Wall.Seconds())
	}
	// beyond the bound: behaviours sampled by TLC (-simulate), 5 to 9 options from the full alphabet
	num := 400
	if r.Tier == "thorough" {
		num = 4000
	}
	sim, err := tlcrun.Run(tlcrun.Opts{SpecDir: specDir, Module: "MC_Opt", Cfg: "MC_Opt_sim.cfg", Workers: 1, Timeout: 10 * time.Minute,
		Args: []string{"-simulate", fmt.Sprintf("file=obeh,num=%d", num), "-depth", "12", "-seed", fmt.Sprint(r.Seed + 7)}, Collect: "obeh_*"}, nil)
	if err != nil || len(sim.Files) == 0 {
		close(ch)
		wg.Wait()
		r.Broken("TLC -simulate MC_Opt_sim.cfg: %v (%d behaviours)\n%s", err, len(sim.Files), tail(sim))
		return
	}
	n := 0
	for _, body := range sim.Files {
		states, _ := tla.ReadBehaviour(strings.NewReader(body))
		if len(states) == 0 {
			continue
		}
		last := states[len(states)-1]
		last.State.N = 1 + n
		if s := optStateOf(&last.State); s != nil && want(s) {
			ch <- s
			n++
		}
	}
	close(ch)
	wg.Wait()
	r.Count("simulated_option_behaviours", n)
}
