package main

import (
	"bytes"
	"fmt"
	"os"
	"os/exec"
	"path/filepath"
	"runtime"
	"sort"
	"strings"
	"sync"
	"syscall"
	"time"

	"verif/harness/evid"
	"verif/harness/tla"
	"verif/harness/tlcrun"
	"verif/harness/wproto"
)

func init() { register("C16", "model_checking", checkC16) }

type cliInv struct {
	Sub, Format, File, Target, Doc, Stdout            string
	Massive, DryRun, Strict, Stray, Unknown, MTimeout bool
	Watch, Desc                                       bool
	Exts                                              []string
	Sp, Usage                                         string
	Argv                                              []string // the words as Cli.tla spells them (Argv(inv))
}

type cliState struct {
	N      int
	Hist   []cliInv
	Exit0  bool
	Called bool
	Made   bool
	Why    string
}

func cliInvOf(v tla.Value) cliInv {
	r := tla.R(v)
	inv := cliInv{Sub: tla.S(r["sub"]), Format: tla.S(r["format"]), File: tla.S(r["file"]), Target: tla.S(r["target"]), Doc: tla.S(r["doc"]),
		Stdout: tla.S(r["stdout"]), Massive: tla.B(r["massive"]), DryRun: tla.B(r["dryrun"]), Strict: tla.B(r["strict"]), Stray: tla.B(r["stray"]), Unknown: tla.B(r["unknown"])}
	inv.Exts = tla.StrsOfSet(r["exts"])
	inv.MTimeout = tla.B(r["mtimeout"])
	inv.Watch = tla.B(r["watch"])
	inv.Desc, inv.Sp, inv.Usage = tla.B(r["desc"]), tla.S(r["sp"]), tla.S(r["usage"])
	for _, w := range tla.Q(r["argv"]) {
		inv.Argv = append(inv.Argv, tla.S(w))
	}
	return inv
}

var cliDocs = map[string]string{
	"wf":        "- a\n  - b\n  - f.x\n- c\n",
	"malformed": "- a\n  -\n",
	"empty":     "",
	"hostile":   "- a\n  - x/y\n",
	"dot":       "- .\n  - a\n    - b\n  - c\n", // the target directory itself as the root (f.x is left out: strict mode would need its kind)
}

// argv: the command line of an invocation. The words come from the specification (Cli.tla: Argv = Words(Lexed(inv)),
// the grammar with its aliases and spellings); the construction below is only used for invocations built by hand.
func init() {
	// "big": more than 1 MiB, tens of thousands of small roots (the order of the roots is observable)
	var sb strings.Builder
	for i := 0; sb.Len() < 1200000; i++ {
		fmt.Fprintf(&sb, "- r%05d\n  - c%d\n", i, i%7)
	}
	cliDocs["big"] = sb.String()
	// "many": a root with 255 children: a verification of it against a directory that has none of them lists
	// exactly 256 paths (a count that is 0 modulo 256 must not become the exit status)
	var mb strings.Builder
	mb.WriteString("- v\n")
	for i := 0; i < 255; i++ {
		fmt.Fprintf(&mb, "  - c%d\n", i)
	}
	cliDocs["many"] = mb.String()
}

func (inv cliInv) argv() []string {
	if inv.Argv != nil || inv.Sub == "none" {
		return inv.Argv
	}
	a := []string{inv.Sub}
	if inv.Unknown {
		a = append(a, "--nosuchflag")
	}
	if inv.Format != "" {
		a = append(a, "--format", inv.Format)
	}
	if inv.Massive {
		a = append(a, "--massive")
	}
	if inv.MTimeout {
		a = append(a, "--massive-timeout", "1ns")
	}
	if inv.Watch {
		a = append(a, "--watch")
	}
	switch inv.File {
	case "dash":
		a = append(a, "--file", "-")
	case "existing":
		a = append(a, "--file", "in.md")
	case "missing":
		a = append(a, "--file", "nope.md")
	case "dollar":
		a = append(a, "--file", "in$HOME.md")
	}
	if inv.DryRun {
		a = append(a, "--dry-run")
	}
	for _, e := range inv.Exts {
		a = append(a, "-e", e)
	}
	if inv.Target != "" {
		a = append(a, "--target-dir", inv.Target)
	}
	if inv.Strict {
		a = append(a, "--strict")
	}
	if inv.Stray {
		a = append(a, "extra")
	}
	return a
}

type cliRun struct {
	Argv   []string `json:"argv"`
	Stdin  string   `json:"stdin"`
	Exit   int      `json:"exit"`
	Signal bool     `json:"killed_by_signal"`
	Pipe   bool     `json:"killed_by_sigpipe"`
	// Harness: the run could not be set up or observed (no descriptors left, the child could not be started, it did not
	// end within two minutes): nothing is concluded from it
	Harness string `json:"harness_failure,omitempty"`
	Stdout  string `json:"stdout"`
	Stderr  string `json:"stderr"`
}

func runCLI(bin, dir string, inv cliInv) cliRun {
	doc := cliDocs[inv.Doc]
	if inv.File == "existing" {
		os.WriteFile(filepath.Join(dir, "in.md"), []byte(doc), 0o644)
	}
	if inv.File == "dollar" { // (the name is not what a shell-like expansion makes of it)
		os.WriteFile(filepath.Join(dir, "in$HOME.md"), []byte(doc), 0o644)
	}
	cmd := exec.Command(bin, inv.argv()...)
	cmd.Dir = dir
	cmd.Env = append(os.Environ(), "NO_COLOR=1")
	if inv.File == "stdin" || inv.File == "dash" || inv.File == "devstdin" {
		cmd.Stdin = strings.NewReader(doc)
	}
	// (file "null": Stdin stays nil, the child reads /dev/null - a character device that is not a terminal)
	var so, se bytes.Buffer
	cmd.Stderr = &se
	switch inv.Stdout {
	case "pipe":
		cmd.Stdout = &so
	case "full":
		f, err := os.OpenFile("/dev/full", os.O_WRONLY, 0)
		if err != nil {
			return cliRun{Argv: inv.argv(), Harness: "open /dev/full: " + err.Error()}
		}
		defer f.Close()
		cmd.Stdout = f
	case "broken":
		// a pipe whose reader has gone before the first write: EPIPE (the Go runtime turns it into SIGPIPE for fd 1)
		pr, pw, err := os.Pipe()
		if err != nil {
			return cliRun{Argv: inv.argv(), Harness: "pipe: " + err.Error()}
		}
		pr.Close()
		defer pw.Close()
		cmd.Stdout = pw
	case "closed":
		f, err := os.CreateTemp(dir, "closed")
		if err != nil {
			return cliRun{Argv: inv.argv(), Harness: "temp file: " + err.Error()}
		}
		f.Close()
		os.Remove(f.Name())
		cmd.Stdout = f // a closed descriptor: every write fails with EBADF
	}
	out := cliRun{Argv: inv.argv(), Stdin: clip(doc, 4000)}
	done := make(chan error, 1)
	if err := cmd.Start(); err != nil {
		// exec refuses a closed *os.File: emulate with a pipe whose read end is closed
		if inv.Stdout == "closed" {
			pr, pw, perr := os.Pipe()
			if perr != nil {
				out.Harness = "pipe: " + perr.Error()
				return out
			}
			pr.Close()
			cmd = exec.Command(bin, inv.argv()...)
			cmd.Dir, cmd.Env, cmd.Stderr, cmd.Stdout = dir, append(os.Environ(), "NO_COLOR=1"), &se, pw
			if inv.File == "stdin" || inv.File == "dash" {
				cmd.Stdin = strings.NewReader(doc)
			}
			if err2 := cmd.Start(); err2 != nil {
				out.Harness = "start: " + err2.Error()
				return out
			}
			pw.Close()
		} else {
			out.Harness = "start: " + err.Error()
			return out
		}
	}
	go func() { done <- cmd.Wait() }()
	select {
	case <-done:
	case <-time.After(2 * time.Minute):
		cmd.Process.Kill()
		out.Harness = "the process had not ended after two minutes"
		return out
	}
	out.Stdout, out.Stderr = so.String(), se.String()
	if ps := cmd.ProcessState; ps != nil {
		out.Exit = ps.ExitCode()
		out.Signal = ps.ExitCode() == -1
		if ws, ok := ps.Sys().(syscall.WaitStatus); ok && ws.Signaled() && ws.Signal() == syscall.SIGPIPE {
			// the conventional end of a process that writes to a pipe nobody reads: not a crash, not success either
			out.Signal, out.Pipe, out.Exit = false, true, 128+int(syscall.SIGPIPE)
		}
	}
	return out
}

func listDir(dir string) []string {
	var out []string
	filepath.Walk(dir, func(p string, fi os.FileInfo, err error) error {
		if err != nil || p == dir {
			return nil
		}
		rel, _ := filepath.Rel(dir, p)
		if rel == "in.md" || rel == "in$HOME.md" {
			return nil
		}
		k := "f:"
		if fi.IsDir() {
			k = "d:"
		}
		out = append(out, k+rel)
		return nil
	})
	sort.Strings(out)
	return out
}

// libTwin performs, through the library (worker process), the operation the invocation is wired to.
func libTwin(pool *wproto.Pool, inv cliInv, target string) wproto.Rep {
	rq := wproto.Req{Doc: cliDocs[inv.Doc], Massive: inv.Massive, Target: target}
	switch {
	case inv.Sub == "output":
		rq.Op, rq.Format, rq.Target = "output", inv.Format, ""
	case inv.Sub == "mkdir" && inv.DryRun:
		rq.Op, rq.DryRun, rq.Exts = "output", true, inv.Exts
	case inv.Sub == "mkdir":
		rq.Op, rq.Exts = "mkdir", inv.Exts
	case inv.Sub == "verify":
		rq.Op, rq.Strict, rq.Massive = "verify", inv.Strict, false
	}
	if rq.Exts == nil && (inv.Sub == "mkdir") {
		rq.Exts = []string{}
	}
	return pool.Call(rq, 30*time.Second)
}

// repoDir is the repository under test: /repo (VERIF_REPO only when a seeded change is evaluated in a scratch copy).
func repoDir() string {
	if d := os.Getenv("VERIF_REPO"); d != "" {
		return d
	}
	return "/repo"
}

func checkC16(r *evid.Run) {
	// the binary under test, built from /repo's working tree
	bin := filepath.Join(os.TempDir(), "gtree-cli")
	cmd := exec.Command("go", "build", "-o", bin, "./cmd/gtree")
	cmd.Dir = repoDir()
	cmd.Env = append(os.Environ(), "GOFLAGS=-mod=mod", "GOPROXY=off")
	if b, err := cmd.CombinedOutput(); err != nil {
		r.Broken("cannot build cmd/gtree: %v\n%s", err, b)
		return
	}
	pool := workerPool(r, runtime.NumCPU())
	if pool == nil {
		return
	}
	defer pool.Close()
	for _, cfg := range []string{"MC_C16_quick.cfg", "MC_C16_seq.cfg"} {
		ch := make(chan *tla.State, 64)
		var wg sync.WaitGroup
		for i := 0; i < runtime.NumCPU(); i++ {
			wg.Add(1)
			go func() {
				defer wg.Done()
				for st := range ch {
					h := tla.Q(st.Get("hist"))
					if len(h) == 0 {
						continue
					}
					s := &cliState{N: st.N}
					for _, v := range h {
						s.Hist = append(s.Hist, cliInvOf(v))
					}
					l := tla.R(st.Get("last"))
					s.Exit0, s.Called, s.Made, s.Why = tla.B(l["exit0"]), tla.B(l["called"]), tla.B(l["made"]), tla.S(l["why"])
					checkCLIState(r, bin, pool, s)
				}
			}()
		}
		res, err := tlcrun.Run(tlcrun.Opts{SpecDir: specDir, Module: "MC_Cli", Cfg: cfg, Timeout: 10 * time.Minute, Dump: true},
			func(st *tla.State) error { ch <- st; return nil })
		close(ch)
		wg.Wait()
		if err != nil || res.Violated != "" || res.ErrorText != "" || res.Dumped != res.Distinct {
			r.Broken("TLC MC_Cli/%s: %v %s %s\n%s", cfg, err, res.Violated, res.ErrorText, tail(res))
			return
		}
		r.Count("states", res.Distinct)
		r.Count("transitions", res.Generated)
		fmt.Printf("model MC_Cli/%s: %d distinct states\n", cfg, res.Distinct)
	}
	templatePipe(r, bin)
	r.Set("exhaustive", true)
	r.Set("rule", "every invocation of the bounded flag space (output/mkdir/verify/template x --format {none,json,yaml,toml,bad} x --massive x --file {stdin,-,existing,missing} x --dry-run x -e x --target-dir x --strict x stray argument x unknown flag) x document class (well-formed, malformed, empty, a name with '/') x stdout (pipe, closed, /dev/full), run as the real binary in a jail; output --watch (renders, keeps running, renders again when the file changes); plus every sequence of up to 3 mkdir/verify/dry-run invocations over one directory; non-trivial = the library is reached")
}

// lockedBuf: stdout of a process that is still running
type lockedBuf struct {
	mu sync.Mutex
	b  bytes.Buffer
}

func (l *lockedBuf) Write(p []byte) (int, error) {
	l.mu.Lock()
	defer l.mu.Unlock()
	return l.b.Write(p)
}

func (l *lockedBuf) String() string {
	l.mu.Lock()
	defer l.mu.Unlock()
	return l.b.String()
}

// checkWatch: output --watch --file in.md renders the file, keeps running, renders it again when it has changed
// (each rendering followed by an empty line), never exits by itself. What it prints is what the library writes.
func checkWatch(r *evid.Run, bin string, pool *wproto.Pool, inv cliInv, dir string) {
	desc := "gtree " + strings.Join(inv.argv(), " ") + " <" + inv.Doc
	os.WriteFile(filepath.Join(dir, "in.md"), []byte(cliDocs[inv.Doc]), 0o644)
	cmd := exec.Command(bin, inv.argv()...)
	cmd.Dir = dir
	cmd.Env = append(os.Environ(), "NO_COLOR=1")
	so, se := &lockedBuf{}, &lockedBuf{}
	cmd.Stdout, cmd.Stderr = so, se
	if err := cmd.Start(); err != nil {
		r.Broken("cannot start %s: %v", desc, err)
		return
	}
	done := make(chan struct{})
	go func() { cmd.Wait(); close(done) }()
	defer func() { cmd.Process.Kill(); <-done }()
	r.Count("real_calls", 1)
	libOf := func(doc string) string {
		rq := wproto.Req{Op: "output", Doc: doc, Format: inv.Format, Massive: inv.Massive}
		r.Count("real_calls", 1)
		return pool.Call(rq, 30*time.Second).Out
	}
	norm := func(s string) string {
		if inv.Massive {
			return sortedLines(s)
		}
		return s
	}
	// waitFor: stdout reaches the expected text (the verdict is the text, the deadline only bounds the wait)
	late := false
	waitFor := func(want string) (string, bool) {
		deadline := time.Now().Add(20 * time.Second)
		for {
			got := so.String()
			if len(got) >= len(want) || time.Now().After(deadline) {
				late = len(got) < len(want)
				time.Sleep(150 * time.Millisecond) // anything printed beyond it?
				return so.String(), true
			}
			select {
			case <-done:
				return so.String(), false
			case <-time.After(20 * time.Millisecond):
			}
		}
	}
	rec := func(got string) map[string]any {
		return map[string]any{"argv": inv.argv(), "file": cliDocs[inv.Doc], "stdout": got, "stderr": se.String()}
	}
	first := libOf(cliDocs[inv.Doc]) + "\n"
	got, running := waitFor(first)
	if !running {
		r.Mismatch("cli:watch:exits", fmt.Sprintf("%s: the process ended by itself (stdout=%q stderr=%q)", desc, got, firstLine(se.String())), rec(got))
		return
	}
	if late {
		r.Broken("%s: nothing complete on stdout 20 s after the start (%q): no verdict", desc, got)
		return
	}
	if norm(got) != norm(first) {
		r.Mismatch("cli:watch:stdout-differs-from-library", fmt.Sprintf("%s: first rendering cli=%q library(+empty line)=%q", desc, got, first), rec(got))
		return
	}
	// the file changes: one more rendering, of the new content
	doc2 := "- z\n  - y\n"
	time.Sleep(20 * time.Millisecond)
	os.WriteFile(filepath.Join(dir, "in.md"), []byte(doc2), 0o644)
	second := libOf(doc2) + "\n"
	got, running = waitFor(first + second)
	if !running {
		r.Mismatch("cli:watch:exits", fmt.Sprintf("%s: the process ended by itself after the file changed (stdout=%q stderr=%q)", desc, got, firstLine(se.String())), rec(got))
		return
	}
	if late {
		r.Broken("%s: no second rendering 20 s after the file changed (%q): no verdict", desc, got)
		return
	}
	if !strings.HasPrefix(got, first) && !inv.Massive || norm(strings.TrimPrefix(got, got[:min(len(got), len(first))])) != norm(second) {
		r.Mismatch("cli:watch:second-rendering-differs", fmt.Sprintf("%s: after the file changed cli printed %q, want %q then %q", desc, got, first, second), rec(got))
	}
}

func checkCLIState(r *evid.Run, bin string, pool *wproto.Pool, s *cliState) {
	dir, err := os.MkdirTemp("", "verif-cli-")
	if err != nil {
		r.Broken("mkdtemp: %v", err)
		return
	}
	defer os.RemoveAll(dir)
	if s.Why == "watching" {
		r.Count("distinct_nontrivial", 1)
		checkWatch(r, bin, pool, s.Hist[len(s.Hist)-1], dir)
		return
	}
	for _, inv := range s.Hist {
		if inv.Target == "reg/sub" {
			os.WriteFile(filepath.Join(dir, "reg"), nil, 0o644) // a regular file: the target lies below it
		}
	}
	var run cliRun
	var before []string
	for i, inv := range s.Hist {
		if i == len(s.Hist)-1 {
			before = listDir(dir)
		}
		run = runCLI(bin, dir, inv)
		r.Count("real_calls", 1)
	}
	inv := s.Hist[len(s.Hist)-1]
	if run.Harness != "" {
		// nothing observed, nothing concluded (a handful of these is a loaded machine; many are a broken harness)
		r.Count("cli_runs_without_verdict", 1)
		r.Note("gtree " + strings.Join(inv.argv(), " ") + ": " + run.Harness)
		if r.Get("cli_runs_without_verdict") > 20 {
			r.Broken("more than 20 runs of the binary could not be set up or observed: %s", run.Harness)
		}
		return
	}
	after := listDir(dir)
	if s.Called {
		r.Count("distinct_nontrivial", 1)
	}
	if s.N%409 == 0 {
		r.Sample(map[string]any{"argv": run.Argv, "stdin": run.Stdin, "stdout_state": inv.Stdout, "exit": run.Exit, "expected_exit_zero": s.Exit0})
	}
	hist := []string{}
	for _, h := range s.Hist {
		hist = append(hist, "gtree "+strings.Join(h.argv(), " ")+" <"+h.Doc+" >"+h.Stdout)
	}
	desc := strings.Join(hist, " ; ")
	runRec := run
	runRec.Stdout = clip(run.Stdout, 4000)
	rec := map[string]any{"history": hist, "last": runRec, "expected": map[string]any{"exit0": s.Exit0, "why": s.Why, "made": s.Made}}
	// never a crash
	if run.Signal || run.Exit < 0 || strings.Contains(run.Stderr, "panic:") || strings.Contains(run.Stderr, "goroutine ") {
		r.Mismatch("cli:crash:"+inv.Sub+":"+inv.Doc, fmt.Sprintf("%s: exit=%d stderr=%q", desc, run.Exit, firstLine(run.Stderr)), rec)
		return
	}
	// truthful exit status
	if (run.Exit == 0) != s.Exit0 {
		kind := "exit-0-on-failure:" + s.Why
		if run.Exit != 0 {
			kind = "non-zero-on-success"
		}
		r.Mismatch("cli:"+kind+":"+inv.Sub, fmt.Sprintf("%s: exit=%d, expected %s (%s); stderr=%q", desc, run.Exit, map[bool]string{true: "0", false: "non-zero"}[s.Exit0], s.Why, firstLine(run.Stderr)), rec)
	}
	if !s.Exit0 && run.Exit != 0 && strings.TrimSpace(run.Stderr) == "" && !run.Pipe {
		r.Mismatch("cli:no-diagnostic:"+s.Why+":"+inv.Sub, fmt.Sprintf("%s: exit=%d but nothing on stderr", desc, run.Exit), rec)
	}
	if !s.Called || inv.Sub == "template" || inv.MTimeout {
		if !s.Called && !sameStrs(before, after) {
			r.Mismatch("cli:filesystem-touched-without-a-call:"+inv.Sub, fmt.Sprintf("%s: %v -> %v", desc, before, after), rec)
		}
		return
	}
	// stdout and filesystem effect are the library's, for the options the invocation is wired to
	twinDir, terr := os.MkdirTemp("", "verif-cli-twin-")
	if terr != nil {
		r.Count("cli_runs_without_verdict", 1)
		return
	}
	defer os.RemoveAll(twinDir)
	for _, e := range before { // same starting directory
		p := filepath.Join(twinDir, e[2:])
		if e[0] == 'd' {
			os.MkdirAll(p, 0o755)
		} else {
			os.MkdirAll(filepath.Dir(p), 0o755)
			os.WriteFile(p, nil, 0o644)
		}
	}
	target := twinDir
	if inv.Target != "" {
		target = filepath.Join(twinDir, inv.Target)
	}
	lib := libTwin(pool, inv, target)
	r.Count("real_calls", 1)
	if inv.Stdout == "pipe" {
		same := run.Stdout == lib.Out
		if inv.Massive {
			same = sortedLines(run.Stdout) == sortedLines(lib.Out)
		}
		if !same {
			r.Mismatch("cli:stdout-differs-from-library:"+inv.Sub, fmt.Sprintf("%s: cli=%q library=%q", desc, clip(run.Stdout, 1500), clip(lib.Out, 1500)), rec)
		}
		if (lib.Class == "ok") != (run.Exit == 0) {
			r.Mismatch("cli:exit-disagrees-with-library:"+inv.Sub, fmt.Sprintf("%s: exit=%d library=%s(%q)", desc, run.Exit, lib.Class, lib.Err), rec)
		}
	}
	if tw := listDir(twinDir); !sameStrs(after, tw) && !(inv.Massive && lib.Class != "ok") {
		r.Mismatch("cli:filesystem-differs-from-library:"+inv.Sub, fmt.Sprintf("%s: cli=%v library=%v", desc, after, tw), rec)
	}
	if inv.DryRun && !sameStrs(before, after) {
		r.Mismatch("cli:dry-run-touches-filesystem", fmt.Sprintf("%s: %v -> %v", desc, before, after), rec)
	}
}

// templatePipe: `gtree template | gtree output` renders the tree documented in README.md
func templatePipe(r *evid.Run, bin string) {
	readme, err := os.ReadFile(filepath.Join(repoDir(), "README.md"))
	if err != nil {
		r.Broken("README.md: %v", err)
		return
	}
	marker := "$ gtree template | gtree output\n"
	i := strings.Index(string(readme), marker)
	if i < 0 {
		r.Note("README.md no longer documents 'gtree template | gtree output'")
		return
	}
	rest := string(readme)[i+len(marker):]
	want := rest[:strings.Index(rest, "```")]
	t := exec.Command(bin, "template")
	tmpl, err := t.Output()
	if err != nil {
		r.Mismatch("cli:template-fails", err.Error(), nil)
		return
	}
	o := exec.Command(bin, "output")
	o.Stdin = bytes.NewReader(tmpl)
	got, err := o.Output()
	r.Count("real_calls", 2)
	if err != nil || string(got) != want {
		r.Mismatch("cli:template-pipe-output-differs-from-readme", fmt.Sprintf("want=%q got=%q err=%v", want, got, err), map[string]string{"template": string(tmpl), "got": string(got), "want": want})
	}
}
