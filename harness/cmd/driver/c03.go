package main

import (
	"fmt"
	"time"

	"verif/harness/evid"
	"verif/harness/tok"
)

func init() { register("C03", "model_checking", checkC03) }

func checkC03(r *evid.Run) {
	cfg, timeout := "MC_C03_quick.cfg", 10*time.Minute
	if r.Tier == "thorough" {
		cfg, timeout = "MC_C03_thorough.cfg", 40*time.Minute
	}
	concs := tok.Concs(r.Seed, 4, allChunkIDs)
	runApiModel(r, cfg, timeout, func(a *apiState) {
		if len(a.Hist) == 0 {
			return
		}
		if len(a.Hist) >= 3 {
			r.Count("distinct_nontrivial", 1)
		}
		if a.N%9973 == 0 {
			r.Sample(map[string]any{"history": histString(a.Hist)})
		}
		c := concs[a.N%len(concs)]
		apiMu.Lock()
		d, kind := replayHistory(a, c, true)
		apiMu.Unlock()
		r.Count("real_calls", len(a.Hist))
		if d != "" {
			r.Mismatch("api-vs-markdown:"+kind, fmt.Sprintf("history [%s] conc=%s: %s", histString(a.Hist), c.Name, d),
				apiReplayRec{Hist: a.Hist, Conc: c, Variant: a.N})
		}
	})
	// beyond the bound: long random histories (wide fan-out, several trees) validated by TLC (TraceApi.tla)
	if r.Tier == "thorough" {
		traceAPIHistories(r, 400, 60)
	} else {
		traceAPIHistories(r, 40, 40)
	}
	r.Set("exhaustive", true)
	r.Set("rule", "every order of NewRoot/Add calls (repeated Adds of existing names anywhere, several trees) of at most MaxCalls-1 calls followed by one operation of each kind (text with branch tuples, JSON/YAML/TOML, walk callback/iterator, each through the current function or its deprecated alias) on any node incl. nil and non-roots; result compared with the specification and with the real From-Markdown call on the canonical spelling; non-trivial = at least 3 calls")
}
