package main

import (
	"fmt"
	"time"

	"verif/harness/evid"
	"verif/harness/tok"
	"verif/harness/wproto"
)

func init() { register("C03", "model_checking", checkC03) }

func checkC03(r *evid.Run) {
	cfg, timeout := "MC_C03_quick.cfg", 10*time.Minute
	if r.Tier == "thorough" {
		cfg, timeout = "MC_C03_thorough.cfg", 40*time.Minute
	}
	concs := tok.Concs(r.Seed, 4, allChunkIDs)
	runApiModel(r, cfg, timeout, func(a *apiState) {
		if len(a.Hist) == 0 {
			return
		}
		if len(a.Hist) >= 3 {
			r.Count("distinct_nontrivial", 1)
		}
		if a.N%9973 == 0 {
			r.Sample(map[string]any{"history": histString(a.Hist)})
		}
		c := concs[a.N%len(concs)]
		apiMu.Lock()
		d, kind := replayHistory(a, c, true)
		apiMu.Unlock()
		r.Count("real_calls", len(a.Hist))
		if d != "" {
			r.Mismatch("api-vs-markdown:"+kind, fmt.Sprintf("history [%s] conc=%s: %s", histString(a.Hist), c.Name, d),
				apiReplayRec{Hist: a.Hist, Conc: c, Variant: a.N})
		}
	})
	// beyond the bound: long random histories (wide fan-out, several trees) validated by TLC (TraceApi.tla)
	if r.Tier == "thorough" {
		traceAPIHistories(r, 400, 60)
	} else {
		traceAPIHistories(r, 40, 40)
	}
	massiveSentinels(r)
	// "x all options accepted by both API families": every option sequence up to the bound (Options.tla)
	checkOptions(r, "families", []int{0, 1}, func(*optState) bool { return true })
	r.Set("exhaustive", true)
	r.Set("rule", "every order of NewRoot/Add calls (repeated Adds of existing names anywhere, several trees) of at most MaxCalls-1 calls followed by one operation of each kind (text with branch tuples, JSON/YAML/TOML, walk callback/iterator, each through the current function or its deprecated alias) on any node incl. nil and non-roots; result compared with the specification and with the real From-Markdown call on the canonical spelling; non-trivial = at least 3 calls")
}

// massiveSentinels: nil and non-root arguments in massive mode, every operation (worker process: the
// pipeline must not even start)
func massiveSentinels(r *evid.Run) {
	pool := workerPool(r, 4)
	if pool == nil {
		return
	}
	defer pool.Close()
	items := []wproto.Item{{D: 1, N: "r"}, {D: 2, N: "a"}, {D: 3, N: "b"}, {D: 2, N: "c"}}
	for _, idx := range []int{-1, 1, 2, 3} {
		for _, op := range []wproto.Req{{Op: "output"}, {Op: "output", Format: "json"}, {Op: "output", Format: "yaml"}, {Op: "walk"}, {Op: "mkdir"}, {Op: "mkdir", DryRun: true}, {Op: "verify"}} {
			for _, massive := range []bool{false, true} {
				for _, alias := range []bool{false, true} {
					rq := op
					rq.Route, rq.Items, rq.NodeIdx, rq.Massive, rq.Alias = "root", items, idx, massive, alias
					rp := pool.Call(rq, 30*time.Second)
					r.Count("real_calls", 1)
					want := "not root node"
					if idx < 0 {
						want = "nil node"
					}
					created := 0
					for _, e := range rp.Entries {
						if e != "d:t" {
							created++
						}
					}
					if rp.Class != "err" || rp.Err != want || rp.Out != "" || len(rp.Walk) != 0 || created != 0 {
						r.Mismatch(fmt.Sprintf("api-sentinel:%s/massive=%v", rq.Op, massive), fmt.Sprintf("%s(format=%q dry=%v alias=%v massive=%v) on node #%d of r{a{b} c}: want %q and nothing written, got class=%s err=%q out=%q", rq.Op, rq.Format, rq.DryRun, alias, massive, idx, want, rp.Class, rp.Err, rp.Out), rq)
					}
				}
			}
		}
	}
}
