package main

import (
	"fmt"
	"os"
	"strings"
	"time"

	"verif/harness/evid"
)

// `driver ptrace-try sink fates...` : developer aid - record one massive call and validate its trace
func init() {
	register("ptrace-try", "other", func(r *evid.Run) {
		sink := os.Getenv("PT_SINK")
		fates := strings.Split(os.Getenv("PT_FATES"), ",")
		pool := workerPool(r, 1)
		defer pool.Close()
		pc := buildPipeCase(sink, fates, len(fates)+1)
		rp := pool.Call(pc.Req, 30*time.Second)
		fmt.Printf("class=%s err=%q leaked=%d %v events=%d\n", rp.Class, rp.Err, rp.Leaked, rp.LeakSigs, len(rp.Events))
		tr, why := pc.preprocess(rp, false)
		if tr == nil {
			fmt.Println("cannot preprocess:", why)
			return
		}
		v := validatePTrace(&pc, tr, 10)
		fmt.Printf("accepted=%v hwm=%d/%d violated=%q broken=%q\n", v.Accepted, v.HWM, v.Len, v.Violated, v.Broken)
		if !v.Accepted {
			fmt.Println(v.Output)
			for i, e := range tr {
				if i >= v.HWM-6 && i <= v.HWM+2 {
					fmt.Println(i+1, e)
				}
			}
		}
	})
}

// `driver bigroots-try`: developer aid - only the big-root-block phase of C10
func init() {
	register("bigroots-try", "other", func(r *evid.Run) {
		pool := workerPool(r, 4)
		defer pool.Close()
		bigRoots(r, pool)
		longLinesAndBlocks(r, pool)
	})
}
