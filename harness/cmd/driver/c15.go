package main

import (
	"fmt"
	"runtime"
	"sort"
	"strings"
	"time"

	"verif/harness/evid"
	"verif/harness/tok"
	"verif/harness/wproto"
)

func init() { register("C15", "model_checking", checkC15) }

var traceSpecC15 = traceSpec{Ops: []string{"text", "walk"}, Params: genParams{MaxNodes: 40, MaxDepth: 7, MaxRoots: 5, NChunks: 12, Hostile: true}, NQuick: 150, NThorough: 2000}

func checkC15(r *evid.Run) {
	cfg, nconc, timeout := "MC_C15_quick.cfg", 2, 5*time.Minute
	if r.Tier == "thorough" {
		cfg, nconc, timeout = "MC_C15_thorough.cfg", 2, 30*time.Minute
	}
	concs := tok.Concs(r.Seed, nconc, allChunkIDs)
	pool := workerPool(r, runtime.NumCPU())
	if pool != nil {
		defer pool.Close()
	}
	runDocModel(r, modelRun{Module: "MC_C15", Cfg: cfg, Timeout: timeout}, func(d *DocState) {
		if len(d.Forest) == 0 {
			return
		}
		if d.Nodes() >= 2 {
			r.Count("distinct_nontrivial", 1)
		}
		if d.N%4001 == 0 {
			r.Sample(map[string]any{"doc": docString(d.Doc), "sigma": d.Sigma, "rows": d.ExpectText(concs[0])})
		}
		// every spelling must give exactly the declarative result of the items it spells, in every
		// output mode: two spellings of the same items are thereby compared with each other as well
		checkRejectOrRender(r, d, concs, mdRoutes)
		// ... and (every 8th state) the directories made from this spelling are those of the forest, and the
		// directory made from the CANONICAL spelling verifies strictly against this spelling
		if d.N%8 == 0 && pool != nil {
			checkSpellingFs(r, pool, d, concs[0])
		}
	})
	r.Set("exhaustive", true)
	r.Set("rule", "every item sequence up to the bound spelled under each member of the notation family (unit: tab, 1-4 spaces, 2 tabs; bullet per line; heading roots; CRLF; blank/white-space-only lines at any position; final newline by concretisation), replayed through text (both generators), JSON, YAML and walk; the full product of the dimensions is sampled by the random trace driver; non-trivial = at least 2 nodes")
	traceDocs(r, "C15", traceSpecC15)
	deep := traceSpecDeep // chains 66-90 levels deep under every unit: hundreds of columns of indentation are notation too
	deep.NQuick = 6
	traceDocs(r, "C15", deep)
	np := 60
	if r.Tier == "thorough" {
		np = 600
	}
	traceParser(r, np, traceSpecC15.Params) // the parser itself, call by call, with its learnt state (TraceParser.tla)
}

func checkSpellingFs(r *evid.Run, pool *wproto.Pool, d *DocState, c *tok.Conc) {
	// distinct root names only (equally named roots are not settled for the filesystem operations)
	seen := map[string]bool{}
	for _, t := range d.Forest {
		k := strings.Join(t.Name, " ")
		if seen[k] {
			return
		}
		seen[k] = true
	}
	doc := c.Doc(d.Doc)
	ext := c.Seq([]string{"a"})
	var want []string
	var canon strings.Builder
	var rec func(t *Tree, prefix string, depth int)
	rec = func(t *Tree, prefix string, depth int) {
		name := c.Seq(t.Name)
		p := prefix + "/" + name
		kind := "d:"
		if len(t.Kids) == 0 && strings.HasSuffix(name, ext) {
			kind = "f:"
		}
		want = append(want, kind+p)
		canon.WriteString(strings.Repeat("  ", depth) + "- " + name + "\n")
		for _, k := range t.Kids {
			rec(k, p, depth+1)
		}
	}
	want = append(want, "d:t")
	for _, t := range d.Forest {
		rec(t, "t", 0)
	}
	sort.Strings(want)
	mk := pool.Call(wproto.Req{Op: "mkdir", Doc: doc, Exts: []string{ext}}, 30*time.Second)
	r.Count("real_calls", 1)
	if mk.Class != "ok" || !sameStrs(mk.Entries, want) {
		r.Mismatch("md-mkdir:spelling-changes-directories", fmt.Sprintf("doc=%q: class=%s err=%q entries=%v want=%v", doc, mk.Class, mk.Err, mk.Entries, want),
			docReplay{Doc: d.Doc, Conc: c, Bytes: doc, Route: "md-mkdir"})
	}
	vf := pool.Call(wproto.Req{Op: "verify", Doc: doc, Strict: true, PreDoc: canon.String()}, 30*time.Second)
	r.Count("real_calls", 1)
	// (the pre-made directory has no files: nodes that the extension would turn into files are directories there, which verify does not distinguish)
	if vf.Class != "ok" {
		r.Mismatch("md-verify:spelling-changes-verdict", fmt.Sprintf("doc=%q verified strictly against the directory made from its canonical spelling %q: %s", doc, canon.String(), vf.Err),
			docReplay{Doc: d.Doc, Conc: c, Bytes: doc, Route: "md-verify"})
	}
}
