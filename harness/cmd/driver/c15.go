package main

import (
	"time"

	"verif/harness/evid"
	"verif/harness/tok"
)

func init() { register("C15", "model_checking", checkC15) }

var traceSpecC15 = traceSpec{Ops: []string{"text", "walk"}, Params: genParams{MaxNodes: 40, MaxDepth: 7, MaxRoots: 5, NChunks: 12, Hostile: true}, NQuick: 150, NThorough: 2000}

func checkC15(r *evid.Run) {
	cfg, nconc, timeout := "MC_C15_quick.cfg", 2, 5*time.Minute
	if r.Tier == "thorough" {
		cfg, nconc, timeout = "MC_C15_thorough.cfg", 2, 30*time.Minute
	}
	concs := tok.Concs(r.Seed, nconc, allChunkIDs)
	runDocModel(r, modelRun{Module: "MC_C15", Cfg: cfg, Timeout: timeout}, func(d *DocState) {
		if len(d.Forest) == 0 {
			return
		}
		if d.Nodes() >= 2 {
			r.Count("distinct_nontrivial", 1)
		}
		if d.N%4001 == 0 {
			r.Sample(map[string]any{"doc": docString(d.Doc), "sigma": d.Sigma, "rows": d.ExpectText(concs[0])})
		}
		// every spelling must give exactly the declarative result of the items it spells, in every
		// output mode: two spellings of the same items are thereby compared with each other as well
		checkRejectOrRender(r, d, concs, mdRoutes)
	})
	r.Set("exhaustive", true)
	r.Set("rule", "every item sequence up to the bound spelled under each member of the notation family (unit: tab, 1-4 spaces, 2 tabs; bullet per line; heading roots; CRLF; blank/white-space-only lines at any position; final newline by concretisation), replayed through text (both generators), JSON, YAML and walk; the full product of the dimensions is sampled by the random trace driver; non-trivial = at least 2 nodes")
	traceDocs(r, "C15", traceSpecC15)
}
