package main

import (
	"math/rand"
	"runtime"
	"sync"
	"time"

	"github.com/ddddddO/gtree"

	"verif/harness/wproto"
)

// hookCtl is installed as gtree.VerifHook for one call: it records events (one global sequence number
// taken inside the hook), injects seeded delays, and gates goroutines according to a plan.
type hookCtl struct {
	mu       sync.Mutex
	cond     *sync.Cond
	seq      uint64
	record   bool
	events   []wproto.Event
	rng      *rand.Rand
	plan     []wproto.PlanStep
	planIdx  int
	unforced bool
	released bool                     // the call is over: nobody is held at the gate any more
	watch    func(point, item string) // called for every event (under the lock, before the gate)
}

func newHookCtl(rq wproto.Req) *hookCtl {
	h := &hookCtl{record: rq.Record, plan: rq.Plan}
	h.cond = sync.NewCond(&h.mu)
	if rq.Delays != 0 {
		h.rng = rand.New(rand.NewSource(rq.Delays))
	}
	return h
}

func matches(st wproto.PlanStep, point string, gid uint64, item string) bool {
	return st.Point == point && (st.Any || st.Item == item) && (st.Gid == nil || *st.Gid == gid)
}

const gateTimeout = 2 * time.Second

func (h *hookCtl) hook(point string, gid uint64, item string) {
	h.mu.Lock()
	if h.watch != nil {
		h.watch(point, item)
	}
	// gate: wait until every plan entry before "my" entry has happened
	if !h.unforced && !h.released && h.planIdx < len(h.plan) {
		for {
			j := -1
			for k := h.planIdx; k < len(h.plan); k++ {
				if matches(h.plan[k], point, gid, item) {
					j = k
					break
				}
			}
			if j < 0 || h.unforced || h.released {
				break
			}
			if j == h.planIdx {
				h.planIdx++
				h.cond.Broadcast()
				break
			}
			// wait with a watchdog
			done := make(chan struct{})
			go func() {
				select {
				case <-done:
				case <-time.After(gateTimeout):
					h.mu.Lock()
					h.unforced = true
					h.cond.Broadcast()
					h.mu.Unlock()
				}
			}()
			h.cond.Wait()
			close(done)
		}
	}
	h.seq++
	if h.record {
		h.events = append(h.events, wproto.Event{Seq: h.seq, Point: point, Gid: gid, Item: item})
	}
	var d int
	if h.rng != nil {
		d = h.rng.Intn(8)
	}
	h.mu.Unlock()
	switch {
	case d == 1 || d == 2:
		runtime.Gosched()
	case d == 3:
		time.Sleep(time.Duration(20) * time.Microsecond)
	case d == 4:
		time.Sleep(time.Duration(200) * time.Microsecond)
	}
}

func (h *hookCtl) install()   { gtree.VerifHook = h.hook }
func (h *hookCtl) uninstall() { gtree.VerifHook = nil }

// log adds a harness-side event (env.cancel, settled, ...)
func (h *hookCtl) log(point, item string) {
	h.mu.Lock()
	h.seq++
	if h.record {
		h.events = append(h.events, wproto.Event{Seq: h.seq, Point: point, Item: item})
	}
	h.mu.Unlock()
}

// release lets every goroutine still held at the gate go (the call under test has returned).
func (h *hookCtl) release() {
	h.mu.Lock()
	h.released = true
	h.cond.Broadcast()
	h.mu.Unlock()
}
