package main

import (
	"fmt"
	"strings"
	"sync"
	"time"

	"verif/harness/evid"
	"verif/harness/tok"
)

func init() { register("C13", "model_checking", checkC13) }

func checkC13(r *evid.Run) {
	cfg, timeout := "MC_C13_quick.cfg", 10*time.Minute
	if r.Tier == "thorough" {
		cfg, timeout = "MC_C13_thorough.cfg", 40*time.Minute
	}
	concs := tok.Concs(r.Seed, 3, allChunkIDs)
	var keepMu sync.Mutex
	var keep []*apiState // histories ending in an operation, for the concurrent pass
	// pass 1: every history, executed on the real API with no other API activity (apiMu)
	runApiModel(r, cfg, timeout, func(a *apiState) {
		if len(a.Hist) == 0 {
			return
		}
		ops := 0
		for _, c := range a.Hist {
			if c.Op == "Op" {
				ops++
			}
		}
		if ops >= 1 && len(a.Hist) >= 3 {
			r.Count("distinct_nontrivial", 1)
		}
		if a.N%9973 == 0 {
			r.Sample(map[string]any{"history": histString(a.Hist)})
		}
		c := concs[a.N%len(concs)]
		apiMu.Lock()
		d, kind := replayHistory(a, c, false)
		apiMu.Unlock()
		r.Count("real_calls", len(a.Hist))
		if d != "" {
			r.Mismatch("api-history:"+kind, fmt.Sprintf("history [%s] conc=%s: %s", histString(a.Hist), c.Name, d),
				apiReplayRec{Hist: a.Hist, Conc: c, Variant: a.N})
		}
		if a.Hist[len(a.Hist)-1].Op == "Op" && ops >= 1 && a.N%3 == 0 {
			keepMu.Lock()
			if len(keep) < 200000 {
				keep = append(keep, a)
			}
			keepMu.Unlock()
		}
	})
	// histories that mix the validating operations (verify) with walks/outputs of trees whose names are
	// not valid path elements: what one operation switches on must not leak into a later one
	// (MC_C13_verify: plain names added in any order, a failing verify in between: what it walks it must not reorder)
	for _, cfg := range []string{"MC_C13_fsops.cfg", "MC_C13_verify.cfg", "MC_C13_massive.cfg"} {
		runApiModel(r, cfg, timeout, func(a *apiState) {
			if len(a.Hist) == 0 {
				return
			}
			c := concs[a.N%len(concs)]
			apiMu.Lock()
			d, kind := replayHistory(a, c, false)
			apiMu.Unlock()
			r.Count("real_calls", len(a.Hist))
			if d != "" {
				r.Mismatch("api-history:"+kind, fmt.Sprintf("history [%s] conc=%s: %s", histString(a.Hist), c.Name, d),
					apiReplayRec{Hist: a.Hist, Conc: c, Variant: a.N})
			}
		})
	}
	// deep single-name chains with the encoders: use, Add below what was there (the new nodes draw the indexes of old
	// ones after the counter reset), use again - up to 7 calls (thorough: 8) over one name
	deep := "MC_C13_deep.cfg"
	if r.Tier == "thorough" {
		deep = "MC_C13_deep8.cfg"
	}
	runApiModel(r, deep, timeout, func(a *apiState) {
		if len(a.Hist) == 0 || a.Hist[len(a.Hist)-1].Op != "Op" {
			return
		}
		c := concs[a.N%len(concs)]
		apiMu.Lock()
		d, kind := replayHistory(a, c, false)
		apiMu.Unlock()
		r.Count("real_calls", len(a.Hist))
		r.Count("deep_chain_histories", 1)
		if d != "" {
			r.Mismatch("api-history:"+kind, fmt.Sprintf("history [%s] conc=%s: %s", histString(a.Hist), c.Name, d),
				apiReplayRec{Hist: a.Hist, Conc: c, Variant: a.N})
		}
	})
	// Mkdir of the same tree again and again (each time into a fresh directory), with Adds in between
	runApiModel(r, "MC_C13_mkdir.cfg", timeout, func(a *apiState) {
		if len(a.Hist) == 0 || a.Hist[len(a.Hist)-1].Op != "Op" {
			return
		}
		c := fsConc(a.N)
		d, kind := replayHistory(a, c, false)
		r.Count("real_calls", len(a.Hist))
		r.Count("mkdir_histories", 1)
		if d != "" {
			r.Mismatch("api-history:"+kind, fmt.Sprintf("history [%s] conc=%s: %s", histString(a.Hist), c.Name, d),
				apiReplayRec{Hist: a.Hist, Conc: c, Variant: a.N})
		}
	})
	// iterators created at one point of the history and ranged over later (possibly repeatedly), with Adds and
	// other operations (other branch strings) in between
	runApiModel(r, "MC_C13_iters.cfg", timeout, func(a *apiState) {
		if len(a.Hist) == 0 || !strings.HasPrefix(a.Hist[len(a.Hist)-1].Op, "Range") {
			return
		}
		c := concs[a.N%len(concs)]
		apiMu.Lock()
		d, kind := replayHistory(a, c, false)
		apiMu.Unlock()
		r.Count("real_calls", len(a.Hist))
		r.Count("deferred_iterator_histories", 1)
		if d != "" {
			r.Mismatch("api-history:"+kind, fmt.Sprintf("history [%s] conc=%s: %s", histString(a.Hist), c.Name, d),
				apiReplayRec{Hist: a.Hist, Conc: c, Variant: a.N})
		}
	})
	// beyond the bound: long random histories (wide fan-out, several trees) validated by TLC (TraceApi.tla)
	if r.Tier == "thorough" {
		traceAPIHistories(r, 400, 60)
	} else {
		traceAPIHistories(r, 40, 40)
	}
	proveSession(r)
	sessionPhase(r) // Session.tla: the calls this property owns, after every other call of the alphabet
	r.Set("exhaustive", true)
	r.Set("rule", "every history of at most MaxCalls calls over NewRoot(a|b), Add(any live node, a|b) and any From-Root operation on any live root (text, walk; thorough: + encoders), each re-executed on the real API and its last result compared with the declarative result of the tree's shape; then the same histories executed concurrently from 16 goroutines; non-trivial = at least 3 calls incl. an operation")
	// pass 2: the same histories, free-running in many goroutines at once (each goroutine owns its trees)
	var wg sync.WaitGroup
	ch := make(chan *apiState, 256)
	for i := 0; i < 16; i++ {
		wg.Add(1)
		go func() {
			defer wg.Done()
			for a := range ch {
				c := concs[a.N%len(concs)]
				d, kind := replayHistory(a, c, false)
				r.Count("real_calls", len(a.Hist))
				r.Count("concurrent_histories", 1)
				if d != "" {
					r.Mismatch("api-history-concurrent:"+kind, fmt.Sprintf("history [%s] run while 15 other goroutines use the API: %s", histString(a.Hist), d),
						apiReplayRec{Hist: a.Hist, Conc: c, Variant: a.N})
				}
			}
		}()
	}
	rounds := 1
	if r.Tier == "thorough" {
		rounds = 3
	}
	for k := 0; k < rounds; k++ {
		for _, a := range keep {
			ch <- a
		}
	}
	close(ch)
	wg.Wait()
	r.Assume("independent From-Markdown calls running concurrently are exercised by every other check: their replays call the library from 16 goroutines at once and compare each result with the specification")
}
