package main

import (
	"fmt"
	"math/rand"
	"os"
	"runtime"
	"sort"
	"strings"
	"sync"
	"time"

	"verif/harness/evid"
	"verif/harness/tlcrun"
	"verif/harness/wproto"
)

func init() { register("C11", "model_checking", checkC11) }

var pipeSinks = []string{"text", "enc", "dry", "mkdir", "verify", "walk"}

// runPipeModels model-checks a list of MC_Pipe configurations (several TLC runs side by side).
func runPipeModels(r *evid.Run, cfgs []string, par int, timeout time.Duration) {
	sem := make(chan struct{}, par)
	var wg sync.WaitGroup
	for _, cfg := range cfgs {
		wg.Add(1)
		sem <- struct{}{}
		go func(cfg string) {
			defer wg.Done()
			defer func() { <-sem }()
			res, err := tlcrun.Run(tlcrun.Opts{SpecDir: specDir, Module: "MC_Pipe", Cfg: cfg, Workers: 16 / par, Timeout: timeout}, nil)
			if err != nil {
				r.Broken("TLC MC_Pipe/%s: %v\n%s", cfg, err, tail(res))
				return
			}
			if res.Violated != "" || res.ErrorText != "" {
				r.Broken("the specified design violates its own property in MC_Pipe/%s: %s %s\n%s", cfg, res.Violated, res.ErrorText, tail(res))
				return
			}
			r.Count("states", res.Distinct)
			r.Count("transitions", res.Generated)
			fmt.Printf("model MC_Pipe/%s: %d distinct states, %d generated, depth %d, %.1fs\n", cfg, res.Distinct, res.Generated, res.Depth, res.Wall.Seconds())
		}(cfg)
	}
	wg.Wait()
}

func fateVectors(sink string, n int) [][]string {
	vals := []string{"ok"}
	for _, f := range []string{"genErr", "growErr", "sinkErr"} {
		if fateFeasible(sink, f) {
			vals = append(vals, f)
		}
	}
	var out [][]string
	var rec func(cur []string)
	rec = func(cur []string) {
		if len(cur) == n {
			out = append(out, append([]string{}, cur...))
			return
		}
		for _, v := range vals {
			rec(append(cur, v))
		}
	}
	rec(nil)
	return out
}

func isFaulty(fates []string, readFail int) bool {
	for _, f := range fates {
		if f != "ok" {
			return true
		}
	}
	return readFail <= len(fates)
}

type pipeReplay struct {
	Sink      string     `json:"sink"`
	Fates     []string   `json:"fates"`
	ReadFail  int        `json:"reader_fails_after_blocks"`
	Req       wproto.Req `json:"request"`
	Class     string     `json:"class"`
	Err       string     `json:"err"`
	Leaked    []string   `json:"goroutines_left"`
	TraceNote string     `json:"trace_note,omitempty"`
}

func leakSig(sigs []string) string {
	s := append([]string{}, sigs...)
	for i := range s {
		s[i] = strings.ReplaceAll(s[i], " ", "")
	}
	sort.Strings(s)
	// distinct signatures only
	var out []string
	for i, x := range s {
		if i == 0 || x != s[i-1] {
			out = append(out, x)
		}
	}
	return strings.Join(out, "+")
}

// a goroutine that is on its way out when the call returns may finish the line it is reading (the reader
// hands out 7 bytes per Read): a count, so the verdict does not depend on the machine's speed
const maxReadsAfterReturn = 64

// checkPipeReply applies the property-level oracle of C11 (and the error-iff part of C10) to one call.
func checkPipeReply(r *evid.Run, pc *pipeCase, rq wproto.Req, rp wproto.Rep, cancelled string) {
	rec := pipeReplay{Sink: pc.Sink, Fates: pc.Fates, ReadFail: pc.ReadFail, Req: rq, Class: rp.Class, Err: rp.Err, Leaked: rp.LeakSigs}
	rec.Req.Doc = rq.Doc
	desc := fmt.Sprintf("sink=%s fates=%v readerFail=%d cancel=%s procs=%d delays=%d", pc.Sink, pc.Fates, pc.ReadFail, cancelled, rq.Procs, rq.Delays)
	route := pc.Entry + "-" + pc.Sink
	switch rp.Class {
	case "hang":
		r.Mismatch(route+":does-not-return", desc, rec)
		return
	case "panic":
		r.Mismatch(route+":panic:"+crashSite(rp.Err), desc+": "+rp.Err, rec)
		return
	}
	if rp.Leaked > 0 {
		r.Mismatch(route+":goroutines-left:"+leakSig(rp.LeakSigs), fmt.Sprintf("%s: returned %q and left %v", desc, rp.Err, rp.LeakSigs), rec)
	}
	if rp.Unsettled {
		// goroutines of the call were still moving 20 s after it returned: the machine is overloaded or they
		// spin; either way this run cannot say that they end
		// ... no verdict for this call; if it happens again and again the whole run says nothing (machinery failure)
		r.Count("calls_unsettled_after_20s", 1)
		r.Note(fmt.Sprintf("%s: the goroutines of the call had neither ended nor come to rest 20 s after it returned: no verdict for this call", desc))
		if r.Get("calls_unsettled_after_20s") > 10 {
			r.Broken("%s: more than 10 calls whose goroutines had neither ended nor come to rest 20 s after they returned", desc)
		}
	}
	if rp.ReadsAfter > maxReadsAfterReturn {
		r.Mismatch(route+":reader-still-read-after-return", fmt.Sprintf("%s: returned %q, and afterwards the input reader was read %d more times: a goroutine of the call went on consuming the input", desc, rp.Err, rp.ReadsAfter), rec)
	}
	faulty := isFaulty(pc.Fates, pc.ReadFail)
	if rq.WFault != nil {
		faulty = rp.WRefused // the writer's fault only counts if a Write call was actually refused
	}
	switch {
	case faulty && rp.Class == "ok":
		r.Mismatch(route+":fault-returned-nil", desc+fmt.Sprintf(": out=%q", rp.Out), rec)
	case !faulty && cancelled == "no" && rp.Class != "ok":
		r.Mismatch(route+":spurious-error", desc+": "+rp.Err, rec)
	case !faulty && cancelled == "early" && !rp.IsCtxErr:
		kind := "cancelled-but-nil"
		if rp.Class == "err" {
			kind = "cancelled-but-other-error"
		}
		r.Mismatch(route+":"+kind, fmt.Sprintf("%s: the context was cancelled before the input was read to its end, returned %q, out=%q", desc, rp.Err, rp.Out), rec)
	}
}

func checkC11(r *evid.Run) {
	thorough := r.Tier == "thorough"
	// 1. the specified design
	var cfgs []string
	for _, s := range pipeSinks {
		cfgs = append(cfgs, "MC_Pipe_faults_"+s+".cfg", "MC_Pipe_root_"+s+".cfg")
		if thorough {
			cfgs = append(cfgs, "MC_Pipe_cancel_"+s+".cfg", "MC_Pipe_reader_"+s+".cfg", "MC_Pipe_faults3_"+s+".cfg", "MC_Pipe_cancel3_"+s+".cfg")
		}
	}
	cfgs = append(cfgs, "MC_Pipe_live_text.cfg")                                          // liveness under weak fairness: Termination, NoLeak
	cfgs = append(cfgs, "MC_Pipe_backpressure_text.cfg", "MC_Pipe_backpressure_walk.cfg") // one worker per stage, four blocks: every stage full, the last block pending
	if !thorough {
		cfgs = append(cfgs, "MC_Pipe_cancel_enc.cfg", "MC_Pipe_reader_enc.cfg")
	} else {
		cfgs = append(cfgs, "MC_Pipe_live_walk.cfg", "MC_Pipe_live_cancel.cfg", "MC_Pipe_live_backpressure.cfg")
		cfgs = append(cfgs, "MC_Pipe_faults_text_w3.cfg", "MC_Pipe_faults_mkdir_w3.cfg") // three workers per stage
	}
	runPipeModels(r, cfgs, 4, 30*time.Minute)
	r.Set("model_configs", cfgs)

	// 2. the real pipeline, free-running under perturbed schedules
	pool := workerPool(r, runtime.NumCPU())
	if pool == nil {
		return
	}
	defer pool.Close()
	rng := rand.New(rand.NewSource(r.Seed*31 + 7))
	type job struct {
		pc        pipeCase
		rq        wproto.Req
		cancelled string
		validate  bool
	}
	var jobs []job
	procsSet := []int{1, 2, 4, 16}
	maxN := 3
	if thorough {
		maxN = 4
	}
	for _, sink := range pipeSinks {
		for n := 1; n <= maxN; n++ {
			for _, fv := range fateVectors(sink, n) {
				for rep := 0; rep < 2; rep++ {
					pc := buildPipeCase(sink, fv, n+1)
					rq := pc.Req
					rq.Procs = procsSet[rng.Intn(len(procsSet))]
					if rep == 1 {
						rq.Delays = rng.Int63n(1<<30) + 1
						rq.Yield = rng.Intn(2)
					}
					jobs = append(jobs, job{pc, rq, "no", rng.Intn(12) == 0})
				}
			}
		}
		// many failing blocks at every stage the sink can fail in: more concurrent senders than the
		// error channel and its single reader can absorb
		for _, f := range []string{"genErr", "growErr", "sinkErr"} {
			if !fateFeasible(sink, f) {
				continue
			}
			for _, n := range []int{5, 8, 12, 24} { // (24: 18 failing blocks, more than a stage has workers plus buffer slots)
				fv := make([]string, n)
				for i := range fv {
					fv[i] = f
					if i%4 == 3 {
						fv[i] = "ok"
					}
				}
				for _, p := range procsSet {
					pc := buildPipeCase(sink, fv, n+1)
					rq := pc.Req
					rq.Procs = p
					rq.Delays = rng.Int63n(1<<30) + 1
					jobs = append(jobs, job{pc, rq, "no", p == 4 && n == 5})
				}
			}
		}
		// many roots and nothing wrong with any of them (more than the stages and their error channels hold): nil, all done
		for _, n := range []int{16, 40} {
			fv := make([]string, n)
			for i := range fv {
				fv[i] = "ok"
			}
			for _, p := range []int{1, 16} {
				pc := buildPipeCase(sink, fv, n+1)
				rq := pc.Req
				rq.Procs = p
				rq.Record = false
				jobs = append(jobs, job{pc, rq, "no", false})
			}
		}
		// a writer that starts failing at some Write call while other roots are in flight (output sinks)
		if sink == "text" || sink == "enc" || sink == "dry" {
			for _, n := range []int{2, 6, 12} {
				fv := make([]string, n)
				for i := range fv {
					fv[i] = "ok"
				}
				for _, at := range []int{1, 2, 3, 5, 9} {
					for _, how := range []string{"fail", "fail-once"} {
						pc := buildPipeCase(sink, fv, n+1)
						pc.Fates = append([]string{}, fv...)
						pc.Fates[0] = "sinkErr" // (for the oracle: the call is faulty)
						rq := pc.Req
						rq.WFault = &wproto.WFault{How: how, At: at}
						rq.Yield = 20
						rq.Procs = procsSet[rng.Intn(len(procsSet))]
						jobs = append(jobs, job{pc, rq, "no", false})
					}
				}
			}
		}
		// reader failures after every block boundary
		for n := 2; n <= 3; n++ {
			for rf := 0; rf <= n; rf++ {
				fv := make([]string, n)
				for i := range fv {
					fv[i] = "ok"
				}
				pc := buildPipeCase(sink, fv, rf)
				rq := pc.Req
				rq.Procs = procsSet[rng.Intn(len(procsSet))]
				jobs = append(jobs, job{pc, rq, "no", false})
			}
		}
		// cancellation at every input offset (stride in the quick tier) and before the call
		for _, n := range []int{3, 6} {
			fv := make([]string, n)
			for i := range fv {
				fv[i] = "ok"
			}
			pc := buildPipeCase(sink, fv, n+1)
			stride := 5
			if thorough {
				stride = 1
			}
			for off := -1; off <= len(pc.Req.Doc); off += stride {
				rq := pc.Req
				o := off
				rq.CancelAt = &o
				rq.Yield = 1
				rq.Procs = procsSet[rng.Intn(len(procsSet))]
				if (off+n)%3 == 0 {
					rq.CtxKind = "deadline" // the context ends as an expired deadline: that error, not Canceled
				}
				if off%2 == 0 {
					rq.Delays = rng.Int63n(1<<30) + 1
				}
				c := "early"
				if off == len(pc.Req.Doc) {
					c = "at-end"
				}
				jobs = append(jobs, job{pc, rq, c, off == -1 || off == 10})
				if off == -1 {
					off = -stride
				}
			}
		}
	}
	// one very long root block behind a trickling reader, cancelled early: the splitter must stop reading
	// at once (it polls the context at every line), not at the next root line
	for _, sink := range []string{"text", "walk", "verify"} {
		var sb strings.Builder
		sb.WriteString("- r1\n")
		for i := 0; i < 4000; i++ {
			sb.WriteString("  - c\n")
		}
		pc := buildPipeCase(sink, []string{"ok"}, 2)
		rq := pc.Req
		rq.Doc = sb.String()
		pc.Blocks = []string{rq.Doc}
		o := 40
		rq.CancelAt = &o
		rq.Yield = 300 // microseconds per 7-byte read: the whole input would take more than a second
		rq.Record = false
		rq.Procs = 4
		jobs = append(jobs, job{pc, rq, "early", false})
	}
	// back-pressure: the sink is held (a blocked writer, callbacks that do not return) until every stage is full and the
	// splitter is handing over its LAST block with nobody there to take it; then the caller cancels, or the writer
	// starts failing; then the sink is let go.  As many blocks as the stages hold plus one (10 workers per stage, one
	// sink goroutine for the encoder and dry-run sinks); if the splitter does not get to its last block the job has
	// no verdict (Unforced).
	for _, sink := range []string{"text", "walk", "enc", "dry"} {
		n := 31
		if sink == "enc" || sink == "dry" {
			n = 22
		}
		fv := make([]string, n)
		for i := range fv {
			fv[i] = "ok"
		}
		for _, then := range []string{"cancel", "wfail"} {
			if then == "wfail" && sink == "walk" {
				continue
			}
			for rep := 0; rep < 2; rep++ {
				pc := buildPipeCase(sink, fv, n+1)
				rq := pc.Req
				rq.Stall = &wproto.Stall{Blocks: n, Then: then}
				rq.Record = false
				rq.Procs = []int{16, 4}[rep]
				c := "at-end"
				if then == "wfail" {
					pc.Fates = append([]string{}, fv...)
					pc.Fates[0] = "sinkErr" // (for the oracle: the call is faulty once a Write has been refused)
					rq.WFault = &wproto.WFault{How: "fail", At: 1 << 30}
					c = "no"
				}
				jobs = append(jobs, job{pc, rq, c, false})
			}
		}
	}
	// ... and the same with callbacks that ALL fail once they are let go: ten errors at the same instant, and the walk
	// workers go on to the next roots, which fail too
	for rep := 0; rep < 3; rep++ {
		n := 31
		fv := make([]string, n)
		for i := range fv {
			fv[i] = "sinkErr"
		}
		pc := buildPipeCase("walk", fv, n+1)
		rq := pc.Req
		rq.Stall = &wproto.Stall{Blocks: n, Then: "release"}
		rq.Record = false
		rq.Procs = []int{16, 4, 2}[rep]
		jobs = append(jobs, job{pc, rq, "no", false})
	}
	// From-Root entry points with a cancelled context (the feeder's send)
	for _, sink := range []string{"text", "enc", "dry", "walk", "mkdir", "verify"} {
		for rep := 0; rep < 6; rep++ {
			pc := buildPipeCase(sink, []string{"ok"}, 2)
			pc.Entry = "root"
			rq := pc.Req
			rq.Route, rq.Doc = "root", ""
			if sink == "verify" {
				rq.PreDoc = "- r1\n  - c\n    - d\n"
			}
			rq.Items = []wproto.Item{{D: 1, N: "r1"}, {D: 2, N: "c"}, {D: 3, N: "d"}}
			c := "no"
			if rep > 0 {
				o := -1
				rq.CancelAt = &o
				c = "early"
				if rep%2 == 0 {
					rq.CtxKind = "deadline"
				}
			}
			rq.Procs = procsSet[rep%4]
			rq.Delays = int64(rep)
			jobs = append(jobs, job{pc, rq, c, false})
		}
	}
	// the dry run reached through the Mkdir entry point (its own wiring of the error channels): every dry-run job again
	// as MkdirFromMarkdown + WithDryRun
	for _, j := range append([]job{}, jobs...) {
		if j.pc.Sink != "dry" || j.pc.Entry != "md" || j.rq.Stall != nil {
			continue
		}
		j.pc.Sink = "mkdirdry"
		j.rq.Op = "mkdir"
		j.rq.Record = false
		j.validate = false
		jobs = append(jobs, j)
	}
	type traced struct {
		j  job
		rp wproto.Rep
	}
	var tmu sync.Mutex
	var toValidate []traced
	var wg sync.WaitGroup
	sem := make(chan struct{}, runtime.NumCPU())
	for _, j := range jobs {
		wg.Add(1)
		sem <- struct{}{}
		go func(j job) {
			defer wg.Done()
			defer func() { <-sem }()
			rp := pool.Call(j.rq, 60*time.Second)
			r.Count("real_calls", 1)
			if j.rq.Stall != nil {
				if rp.Unforced {
					r.Count("backpressure_jobs_not_reached", 1) // the splitter never got to its last block: nothing concluded
					return
				}
				r.Count("backpressure_jobs", 1)
			}
			if isFaulty(j.pc.Fates, j.pc.ReadFail) || j.cancelled != "no" {
				r.Count("distinct_nontrivial", 1)
			}
			checkPipeReply(r, &j.pc, j.rq, rp, j.cancelled)
			if j.validate && rp.Class != "hang" && rp.Class != "panic" {
				tmu.Lock()
				toValidate = append(toValidate, traced{j, rp})
				tmu.Unlock()
			}
		}(j)
	}
	wg.Wait()
	r.Set("rule", "massive-mode calls for every sink (text, JSON, dry-run, mkdir, verify, walk): every fate vector up to 3 (thorough 4) blocks over the stages that sink can fail in, 5/8/12-block documents failing in three of every four blocks, reader failure at every block boundary, cancellation before the call and at input offsets (every offset in the thorough tier), From-Root entry points with a cancelled context, back-pressure jobs (the sink held until every stage is full and the splitter is handing over its last block, then a cancellation or a failing writer); GOMAXPROCS in {1,2,4,16}, seeded delays at hook points, yielding reader/writer/callback; non-trivial = a faulty or cancelled call")
	r.Sample(map[string]any{"request": jobs[len(jobs)/3].rq, "fates": jobs[len(jobs)/3].pc.Fates})

	// 3. recorded traces against the specification (Layer M + Layer P), several TLC runs side by side
	limit := 16
	if thorough {
		limit = 120
	}
	if len(toValidate) > limit {
		rng.Shuffle(len(toValidate), func(a, b int) { toValidate[a], toValidate[b] = toValidate[b], toValidate[a] })
		toValidate = toValidate[:limit]
	}
	vsem := make(chan struct{}, 8)
	for _, t := range toValidate {
		wg.Add(1)
		vsem <- struct{}{}
		go func(t traced) {
			defer wg.Done()
			defer func() { <-vsem }()
			validateAndReport(r, &t.j.pc, t.j.rq, t.rp, t.j.cancelled)
		}(t)
	}
	wg.Wait()

	// 4. forced schedules (gate): the orders that made the as-built design leak / return nil
	forcedSchedules(r, pool)

	// 4b. schedules SAMPLED BY TLC from the specification (-simulate), projected onto hook events and forced
	//     on the real goroutines; every forced run is checked, a quarter of their traces validated
	simCfgs, simNum := []string{"MC_Pipe_cancel_text.cfg", "MC_Pipe_reader_enc.cfg", "MC_Pipe_faults_mkdir.cfg", "MC_Pipe_root_walk.cfg"}, 30
	if thorough {
		simCfgs = nil
		for _, s := range pipeSinks {
			simCfgs = append(simCfgs, "MC_Pipe_cancel_"+s+".cfg", "MC_Pipe_reader_"+s+".cfg", "MC_Pipe_root_"+s+".cfg")
		}
		simCfgs = append(simCfgs, "MC_Pipe_faults_mkdir.cfg", "MC_Pipe_faults_verify.cfg", "MC_Pipe_faults3_mkdir.cfg", "MC_Pipe_cancel3_text.cfg")
		simNum = 120
	}
	simulatedSchedules(r, pool, simCfgs, simNum)

	// 5. unsynchronised access to shared memory: the same kind of calls under the Go race detector
	raceCheck(r, raceRequests(thorough))
	r.Assume("the Go race detector is the implementation-side monitor for 'never access shared memory without synchronisation'; it reports races that actually occur in the executions it observes")
}

func validateAndReport(r *evid.Run, pc *pipeCase, rq wproto.Req, rp wproto.Rep, cancelled string) {
	pre := rq.CancelAt != nil && *rq.CancelAt < 0
	tr, why := pc.preprocess(rp, pre)
	if tr == nil {
		r.Count("traces_not_modelled", 1)
		r.Note("trace skipped: " + why)
		return
	}
	v := validatePTrace(pc, tr, 10)
	if v.Broken != "" {
		r.Broken("trace validation: %s\n%s", v.Broken, v.Output)
		return
	}
	r.Count("traces_validated_against_impl", 1)
	r.Count("trace_events", len(tr))
	switch {
	case v.Violated != "":
		// a Layer-P invariant failed on a fully explained prefix: a fact about a real execution
		rec := pipeReplay{Sink: pc.Sink, Fates: pc.Fates, ReadFail: pc.ReadFail, Req: rq, Class: rp.Class, Err: rp.Err, Leaked: rp.LeakSigs, TraceNote: v.Violated}
		r.Mismatch(pc.Entry+"-"+pc.Sink+":trace:"+v.Violated, fmt.Sprintf("sink=%s fates=%v cancel=%s: recorded trace violates %s (returned %q, left %v)", pc.Sink, pc.Fates, cancelled, v.Violated, rp.Err, rp.LeakSigs), rec)
	case !v.Accepted:
		r.Count("drift_traces", 1)
		next := ""
		if v.HWM-1 < len(tr) && v.HWM >= 1 {
			next = fmt.Sprint(tr[v.HWM-1])
		}
		fmt.Printf("SPEC-DRIFT layer=pipeline sink=%s fates=%v prefix=%d/%d next=%s\n", pc.Sink, pc.Fates, v.HWM-1, len(tr), next)
		if os.Getenv("VERIF_DEBUG") != "" {
			for i, e := range tr {
				if i < v.HWM+3 {
					fmt.Println("   ", i+1, e)
				}
			}
			fmt.Println(v.Output)
		}
	}
}

// forcedSchedules replays, with the gate, the two schedules TLC returns for the as-built design
// (MC_Pipe_asbuilt_leak.cfg, MC_Pipe_asbuilt_nil.cfg) and checks the property on the real code.
func forcedSchedules(r *evid.Run, pool *wproto.Pool) {
	// (a) three generator errors before the generator's handler selects: one error is buffered, the
	//     handler takes one, the third sender must not be left blocked after the call returned
	fv := []string{"genErr", "growErr", "genErr", "genErr"}
	pc := buildPipeCase("dry", fv, len(fv)+1)
	plan := []wproto.PlanStep{}
	for i := 0; i < 3; i++ {
		plan = append(plan, wproto.PlanStep{Point: "gen.errsend.pre", Any: true})
	}
	plan = append(plan, wproto.PlanStep{Point: "h.select.pre", Any: true}, wproto.PlanStep{Point: "h.select.pre", Any: true},
		wproto.PlanStep{Point: "h.select.pre", Any: true}, wproto.PlanStep{Point: "h.select.pre", Any: true})
	forced, unforced := 0, 0
	for k := 0; k < 20; k++ {
		rq := pc.Req
		rq.Plan = plan
		rp := pool.Call(rq, 60*time.Second)
		r.Count("real_calls", 1)
		if rp.Unforced || rp.PlanDone < len(plan) {
			unforced++
			continue
		}
		forced++
		checkPipeReply(r, &pc, rq, rp, "no")
	}
	// (b) pre-cancelled context, the handlers select only after every stage has shut down: both arms of
	//     every handler are ready; nil must not come back
	pc2 := buildPipeCase("text", []string{"ok", "ok"}, 3)
	plan2 := []wproto.PlanStep{{Point: "split.exit", Any: true}, {Point: "gen.close", Any: true}, {Point: "grow.close", Any: true}, {Point: "sink.close", Any: true},
		{Point: "h.select.pre", Any: true}, {Point: "h.select.pre", Any: true}, {Point: "h.select.pre", Any: true}, {Point: "h.select.pre", Any: true}}
	for k := 0; k < 200; k++ {
		rq := pc2.Req
		o := -1
		rq.CancelAt = &o
		rq.Plan = plan2
		rp := pool.Call(rq, 60*time.Second)
		r.Count("real_calls", 1)
		if rp.Unforced || rp.PlanDone < len(plan2) {
			unforced++
			continue
		}
		forced++
		checkPipeReply(r, &pc2, rq, rp, "early")
	}
	r.Set("forced_schedules", forced)
	r.Set("unforceable", unforced)
	if forced == 0 {
		r.Broken("no forced schedule could be established (%d attempts)", unforced)
	}
}
