package main

import (
	"context"
	"errors"
	"fmt"
	"io"
	"io/fs"
	"path"
	"strings"
	"sync"
	"time"

	"github.com/ddddddO/gtree"

	"verif/harness/evid"
	"verif/harness/real"
	"verif/harness/tok"
)

func init() { register("C05", "model_checking", checkC05) }

var apiMu sync.Mutex

// buildRoot builds a programmatic tree (NewRoot/Add, pre-order) for one declarative tree.
func buildRoot(t *Tree, c *tok.Conc) *gtree.Node {
	root := gtree.NewRoot(c.Seq(t.Name))
	var rec func(p *gtree.Node, t *Tree)
	rec = func(p *gtree.Node, t *Tree) {
		for _, k := range t.Kids {
			rec(p.Add(c.Seq(k.Name)), k)
		}
	}
	rec(root, t)
	return root
}

func expectWalk(ws []WalkObs, c *tok.Conc) []real.WalkRec {
	out := make([]real.WalkRec, len(ws))
	for i, w := range ws {
		names := make([]string, len(w.Path))
		for j, p := range w.Path {
			names[j] = c.Seq(p)
		}
		name, br := c.Seq(w.Name), c.Seq(w.Branch)
		row := name
		if w.Level > 1 {
			row = br + " " + name
		}
		pth := strings.Join(names, "/")
		if w.Level > 1 && strings.Contains(strings.Join(names, ""), "/") {
			pth = path.Clean(pth) // names that are not single path elements: Path is not claimed, compare up to cleaning
		}
		out[i] = real.WalkRec{Name: name, Branch: br, Row: row, Path: pth, Level: uint(w.Level), HasChild: w.HasChild}
	}
	return out
}

func sameWalk(a, b []real.WalkRec) bool {
	if len(a) != len(b) {
		return false
	}
	for i := range a {
		if a[i] != b[i] {
			return false
		}
	}
	return true
}

type walkReplay struct {
	Doc    [][]string `json:"doc_tokens"`
	Conc   *tok.Conc  `json:"concretisation"`
	Bytes  string     `json:"doc_bytes"`
	Route  string     `json:"route"`
	StopAt int        `json:"stop_at"`
	Want   any        `json:"want"`
	Got    any        `json:"got"`
	Err    string     `json:"err"`
}

// walk records of the i-th root only (programmatic API walks one root)
func splitWalkByRoot(ws []WalkObs) [][]WalkObs {
	var out [][]WalkObs
	for _, w := range ws {
		if w.Level == 1 {
			out = append(out, nil)
		}
		out[len(out)-1] = append(out[len(out)-1], w)
	}
	return out
}

// the errors a callback fails with: the harness's own, and values a walk implementation might use as signals itself
var callbackErrs = []error{real.ErrInjected, fs.SkipAll, fs.SkipDir, io.EOF, context.Canceled,
	fmt.Errorf("giving up: %w", fs.SkipAll), errors.Join(real.ErrInjected, fs.SkipAll), io.ErrUnexpectedEOF}

func checkWalkState(r *evid.Run, d *DocState, concs []*tok.Conc) {
	byRoot := splitWalkByRoot(d.Walk)
	for _, c := range concs {
		doc := c.Doc(d.Doc)
		want := expectWalk(d.Walk, c)
		bo := branchOpts(c)
		n := len(want)
		// full walk + every failing position, From-Markdown
		for k := 0; k <= n; k++ {
			failErr := callbackErrs[(d.N+k)%len(callbackErrs)] // "returned unchanged": whatever error it is
			got, o := real.WalkMD(doc, k, failErr, bo...)
			r.Count("real_calls", 1)
			wantK, wantErr := want, error(nil)
			if k > 0 {
				wantK, wantErr = want[:k], failErr
			}
			if o.Class() == "panic" || o.Class() == "hang" || o.Err != wantErr || !sameWalk(got, wantK) {
				kind := "records-differ"
				if k > 0 {
					kind = "stop-at-k"
				}
				r.Mismatch("walk-md:"+kind, fmt.Sprintf("doc=%q conc=%s k=%d want=%v/%v got=%v/%v %s", doc, c.Name, k, wantK, wantErr, got, o.Err, firstLine(o.Panic)),
					walkReplay{Doc: d.Doc, Conc: c, Bytes: doc, Route: "walk-md", StopAt: k, Want: wantK, Got: got, Err: o.ErrString()})
				break
			}
		}
		// Row equals the corresponding line of the real text output of the same document
		if o := real.OutputMD(doc, bo...); o.Class() == "ok" {
			lines := strings.Split(strings.TrimSuffix(o.Out, "\n"), "\n")
			got, _ := real.WalkMD(doc, 0, nil, bo...)
			ok := len(lines) == len(got)
			for i := 0; ok && i < len(got); i++ {
				ok = got[i].Row == lines[i]
			}
			if !ok && n > 0 {
				r.Mismatch("walk-md:row-vs-text", fmt.Sprintf("doc=%q text=%q walk=%v", doc, o.Out, got),
					walkReplay{Doc: d.Doc, Conc: c, Bytes: doc, Route: "walk-md/text", Got: got})
			}
		}
		// From-Root, one tree at a time: callback form and iterator form
		// The programmatic API shares a package-level index counter; using it from several goroutines
		// at once is C13's subject, not C05's, so the From-Root part of this replay is serialised.
		apiMu.Lock()
		for i, t := range d.Forest {
			wantR := expectWalk(byRoot[i], c)
			// ONE programmatic tree is walked again and again (every stop position, both walkers): a walk must
			// leave the tree as it found it
			reused := buildRoot(t, c)
			for k := 0; k <= len(wantR); k++ {
				failErr := callbackErrs[(d.N+k+i)%len(callbackErrs)]
				wantK, wantErr := wantR, error(nil)
				if k > 0 {
					wantK, wantErr = wantR[:k], failErr
				}
				got, o := real.WalkRoot(reused, k, failErr, bo...)
				r.Count("real_calls", 1)
				if o.Class() != "ok" && o.Class() != "err" || o.Err != wantErr || !sameWalk(got, wantK) {
					r.Mismatch("walk-root:records", fmt.Sprintf("tree#%d of doc=%q conc=%s k=%d want=%v/%v got=%v/%v %s", i, doc, c.Name, k, wantK, wantErr, got, o.Err, firstLine(o.Panic)),
						walkReplay{Doc: d.Doc, Conc: c, Bytes: doc, Route: "walk-root", StopAt: k, Want: wantK, Got: got, Err: o.ErrString()})
					break
				}
				got, o = real.WalkIterRoot(reused, k, bo...)
				r.Count("real_calls", 1)
				if o.Class() != "ok" || !sameWalk(got, wantK) {
					r.Mismatch("walk-iter:records", fmt.Sprintf("tree#%d of doc=%q conc=%s break=%d want=%v got=%v/%v %s", i, doc, c.Name, k, wantK, got, o.Err, firstLine(o.Panic)),
						walkReplay{Doc: d.Doc, Conc: c, Bytes: doc, Route: "walk-iter", StopAt: k, Want: wantK, Got: got, Err: o.ErrString()})
					break
				}
			}
			// overlapping walks of ONE tree: a walk started from inside a visit of another walk (every position of
			// the outer walk in turn over the states, both forms, the inner one complete or left early), and two pull
			// iterators advanced in turn.  Every one of them delivers what a walk alone delivers.
			if len(wantR) > 0 {
				at := 1 + (d.N+i)%len(wantR)
				ib := 0
				if d.N%3 == 1 {
					ib = 1 + d.N%len(wantR)
				}
				outer, inner, o := real.WalkNested(reused, at, ib, d.N%2 == 1, bo...)
				r.Count("real_calls", 1)
				wantIn := wantR
				if ib > 0 {
					wantIn = wantR[:ib]
				}
				if o.Class() != "ok" || !sameWalk(outer, wantR) || !sameWalk(inner, wantIn) {
					r.Mismatch("walk-nested:records", fmt.Sprintf("tree#%d of doc=%q conc=%s: visit %d walks the same tree again (iterator outer walk=%v, inner left after %d): want outer=%v inner=%v got outer=%v inner=%v/%v %s",
						i, doc, c.Name, at, d.N%2 == 1, ib, wantR, wantIn, outer, inner, o.Err, firstLine(o.Panic)),
						walkReplay{Doc: d.Doc, Conc: c, Bytes: doc, Route: "walk-nested", StopAt: at, Want: wantR, Got: outer, Err: o.ErrString()})
				}
				a, b, o := real.WalkTwoPull(reused, (d.N/2)%(len(wantR)+1), bo...)
				r.Count("real_calls", 1)
				if o.Class() != "ok" || !sameWalk(a, wantR) || !sameWalk(b, wantR) {
					r.Mismatch("walk-two-iterators:records", fmt.Sprintf("tree#%d of doc=%q conc=%s: two pull iterators advanced in turn: want=%v got first=%v second=%v/%v %s",
						i, doc, c.Name, wantR, a, b, o.Err, firstLine(o.Panic)),
						walkReplay{Doc: d.Doc, Conc: c, Bytes: doc, Route: "walk-two-iterators", Want: wantR, Got: a, Err: o.ErrString()})
				}
			}
		}
		apiMu.Unlock()
	}
}

var traceSpecC05 = traceSpec{Ops: []string{"walk"}, Params: genParams{MaxNodes: 50, MaxDepth: 8, MaxRoots: 4, NChunks: 16, Hostile: true}, NQuick: 150, NThorough: 1500}

func checkC05(r *evid.Run) {
	cfg, nconc, timeout := "MC_C05_quick.cfg", 4, 5*time.Minute
	if r.Tier == "thorough" {
		cfg, nconc, timeout = "MC_C05_thorough.cfg", 7, 30*time.Minute
	}
	concs := tok.Concs(r.Seed, nconc, allChunkIDs)
	concs = append(concs, tok.InvalidUTF8Conc(int(r.Seed)+1, allChunkIDs))
	concs = append(concs, tok.HashTwinConc(int(r.Seed)+3, allChunkIDs)) // sibling names that collide under 32-bit hashes
	runDocModel(r, modelRun{Module: "MC_C05", Cfg: cfg, Timeout: timeout}, func(d *DocState) {
		if d.Verdict != "accept" || len(d.Forest) == 0 {
			return
		}
		if d.Nodes() >= 3 {
			r.Count("distinct_nontrivial", 1)
		}
		if d.N%1499 == 0 {
			r.Sample(map[string]any{"doc": docString(d.Doc), "walk": expectWalk(d.Walk, concs[0])})
		}
		checkWalkState(r, d, append(append([]*tok.Conc{}, concs...), tok.WithBranches(concs[0], d.N))) // + one branch-string set in turn
	})
	// the walk under every option sequence (Options.tla): options a walk has no use for change nothing
	checkOptions(r, "rule", []int{0}, func(s *optState) bool { return s.Op == "walk" && !s.has("massive") })
	sessionPhase(r) // Session.tla: the calls this property owns, after every other call of the alphabet
	r.Set("exhaustive", true)
	r.Set("rule", "every well-formed document up to the line bound x every stop position k (callback error / iterator break) x {WalkFromMarkdown, WalkFromRoot, WalkIterFromRoot} x branch tuples; non-trivial = at least 3 nodes")
	traceDocs(r, "C05", traceSpecC05)
	bigw := traceSpecBig
	bigw.Ops = []string{"walk"}
	traceDocs(r, "C05", bigw)
	fanw := traceSpecFan
	fanw.Ops = []string{"walk"}
	traceDocs(r, "C05", fanw)
}
