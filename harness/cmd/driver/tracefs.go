package main

import (
	"fmt"
	"math/rand"
	"os"
	"path/filepath"
	"regexp"
	"sort"
	"strconv"
	"strings"
	"time"

	"verif/harness/evid"
	"verif/harness/tok"
	"verif/harness/wproto"
)

// Impl -> Spec for the filesystem layer (TraceFs.tla): random histories of mkdir / dry-run / verify calls
// and environment steps over forests and directory states far beyond the exhaustive bounds, executed on
// the real library in a jail, logged with a snapshot of the whole jail after every step, validated by TLC.

type fsJ struct {
	Dirs  [][]string `json:"dirs"`
	Files [][]string `json:"files"`
}

type itemJ struct {
	D int      `json:"d"`
	N []string `json:"n"`
}

type fsEv struct {
	Op      string     `json:"op"`
	Items   []itemJ    `json:"items"`
	Fs      fsJ        `json:"fs"`
	Route   string     `json:"route"`
	Exts    [][]string `json:"exts"`
	Dry     bool       `json:"dry"`
	Strict  bool       `json:"strict"`
	Path    []string   `json:"path"`
	Entry   string     `json:"entry"`
	K       string     `json:"k"`
	Extra   [][]string `json:"extra"`
	Missing [][]string `json:"missing"`
	Counts  [][]int    `json:"counts"`
	desc    string
	prop    string
}

// TLC's Json module has no null: every sequence-valued field is an array
func (e *fsEv) fill() *fsEv {
	if e.Items == nil {
		e.Items = []itemJ{}
	}
	if e.Fs.Dirs == nil {
		e.Fs.Dirs = [][]string{}
	}
	if e.Fs.Files == nil {
		e.Fs.Files = [][]string{}
	}
	if e.Exts == nil {
		e.Exts = [][]string{}
	}
	if e.Path == nil {
		e.Path = []string{}
	}
	if e.Extra == nil {
		e.Extra = [][]string{}
	}
	if e.Missing == nil {
		e.Missing = [][]string{}
	}
	if e.Counts == nil {
		e.Counts = [][]int{}
	}
	return e
}

var fsTraceNames = [][]string{
	{"a"}, {"b"}, {"e"}, {"f"}, {"f", "DOT", "x"}, {"a", "DOT", "x"}, {"a", "SP", "b"}, {"b", "DOT", "x", "DOT", "e"},
	{"DOT", "DOT", "SP"}, {"DOT", "a"}, {"x"}, {"e", "f"}, {"A"}, {"DOT", "DOT", "a"}, // ("..a": a name, not a step up)
}
var fsTraceHostile = [][]string{{"DOT"}, {"DOT", "DOT"}, {"a", "SL", "b"}, {"SL", "a"}, {"DOT", "DOT", "SL", "a"}, {"a", "SL"}}
var fsTraceExts = [][]string{{"DOT", "x"}, {"x"}, {"f", "DOT", "x"}, {"a"}, {"e"}, {}, {"DOT", "e"}}

type fsTraceMix struct {
	hostile      float64 // probability of a hostile name per history
	long         float64
	mkdir, dry   int // weights of the operations
	verify, envw int
}

func randFsItems(rng *rand.Rand, mix fsTraceMix) []fsItem {
	n := 2 + rng.Intn(11)
	maxDepth := 2 + rng.Intn(4)
	manyRoots := rng.Intn(5) == 0 // one history in five: eight or more roots, shallow
	if manyRoots {
		n, maxDepth = 10+rng.Intn(5), 2
	}
	names := append([][]string{}, fsTraceNames...)
	if rng.Float64() < mix.hostile {
		names = append(names, fsTraceHostile[rng.Intn(len(fsTraceHostile))])
	}
	if rng.Float64() < mix.long {
		names = append(names, []string{"L"})
	}
	var items []fsItem
	if mix.hostile >= 0.3 && rng.Intn(5) == 0 {
		// one history in five (where hostile names are the subject): a directory with 33-48 children, ONE of them
		// hostile at any position (with something below it half of the time): a name is judged wherever it stands
		// among however many siblings
		level := 1 + rng.Intn(3)
		for d := 1; d <= level; d++ {
			items = append(items, fsItem{D: d, N: [][]string{{"a"}, {"b"}, {"e"}}[rng.Intn(3)]})
		}
		w := 33 + rng.Intn(16)
		at := rng.Intn(w)
		letters := []string{"a", "b", "e", "f", "x"}
		for k := 0; k < w; k++ {
			if k == at {
				items = append(items, fsItem{D: level + 1, N: fsTraceHostile[rng.Intn(len(fsTraceHostile))]})
				if rng.Intn(2) == 0 {
					items = append(items, fsItem{D: level + 2, N: []string{"a"}})
				}
				continue
			}
			items = append(items, fsItem{D: level + 1, N: []string{letters[k/25%5], letters[k/5%5], letters[k%5]}}) // distinct three-letter names
		}
		return items
	}
	if !manyRoots && rng.Intn(4) == 0 {
		// one history in four: a chain of directories down to level 2-9 whose last directory holds names that are
		// files under the usual extension lists, each with later siblings (files, then a file or a directory)
		level := 2 + rng.Intn(8)
		for d := 1; d < level; d++ {
			items = append(items, fsItem{D: d, N: [][]string{{"a"}, {"b"}, {"e"}}[rng.Intn(3)]})
		}
		items = append(items, fsItem{D: level, N: []string{"f", "DOT", "x"}}, fsItem{D: level, N: []string{"a", "DOT", "x"}})
		last := [][]string{{"b", "DOT", "x", "DOT", "e"}, {"a"}, {"x"}, {"e", "f"}}[rng.Intn(4)]
		items = append(items, fsItem{D: level, N: last})
		if rng.Intn(2) == 0 {
			items = append(items, fsItem{D: level + 1, N: []string{"b"}})
		}
		if level > 2 && rng.Intn(2) == 0 { // and a file beside one of the directories above
			items = append(items, fsItem{D: 2 + rng.Intn(level-2), N: []string{"f", "DOT", "x"}})
		}
		return items
	}
	d := 1
	for i := 0; i < n; i++ {
		if i == 0 {
			d = 1
		} else {
			switch x := rng.Intn(10); {
			case x < 4 && d < maxDepth:
				d++
			case x < 7:
			case x < 9 && d > 2:
				d -= 1 + rng.Intn(d-1)
				if d < 1 {
					d = 1
				}
			default:
				if rng.Intn(3) == 0 {
					d = 1 // another root
				}
			}
		}
		if manyRoots && i > 0 && rng.Intn(5) > 0 {
			d = 1 // mostly roots
		}
		items = append(items, fsItem{D: d, N: names[rng.Intn(len(names))]})
	}
	return items
}

// node paths (token paths relative to the jail root) of a forest given as items, merged as the parser merges
func itemNodePaths(items []fsItem) [][]string {
	var out [][]string
	seen := map[string]bool{}
	var chain [][]string
	for _, it := range items {
		chain = append(chain[:it.D-1], it.N)
		p := []string{"t"}
		for _, n := range chain {
			p = append(p, "SL")
			p = append(p, n...)
		}
		k := strings.Join(p, " ")
		if !seen[k] {
			seen[k] = true
			out = append(out, p)
		}
	}
	return out
}

// decoder: concrete path component -> tokens
type fsDecoder struct {
	byComp map[string][]string
}

func newFsDecoder(c *tok.Conc, names [][]string) *fsDecoder {
	d := &fsDecoder{byComp: map[string][]string{}}
	for _, n := range names {
		d.byComp[c.Seq(n)] = n
	}
	for _, n := range [][]string{{"t"}, {"s"}, {"k"}, {"e"}, {"f"}, {"A"}, {"U"}} {
		d.byComp[c.Seq(n)] = n
	}
	return d
}

func (d *fsDecoder) path(rel string) []string {
	var out []string
	for i, comp := range strings.Split(rel, "/") {
		if i > 0 {
			out = append(out, "SL")
		}
		switch {
		case comp == "..":
			out = append(out, "DOT", "DOT")
		case d.byComp[comp] != nil:
			out = append(out, d.byComp[comp]...)
		default:
			out = append(out, "UNDECODABLE<"+comp+">")
		}
	}
	return out
}

func (d *fsDecoder) snapshot(snap map[string]string) fsJ {
	j := fsJ{Dirs: [][]string{}, Files: [][]string{}}
	var keys []string
	for k := range snap {
		keys = append(keys, k)
	}
	sort.Strings(keys)
	for _, k := range keys {
		if strings.HasPrefix(snap[k], "d") {
			j.Dirs = append(j.Dirs, d.path(k))
		} else {
			j.Files = append(j.Files, d.path(k))
		}
	}
	return j
}

var countsRe = regexp.MustCompile(`(?m)^(\d+) director(?:y|ies), (\d+) files?$`)

func traceFsHistories(r *evid.Run, pool *wproto.Pool, nHist int, mix fsTraceMix, props []string) {
	rng := rand.New(rand.NewSource(r.Seed*104729 + int64(len(props))*31 + 5))
	var evs []any
	flush := func() bool {
		if len(evs) == 0 {
			return true
		}
		bad, ok := validateTraceIn(r, "TraceFs", "TraceFs.cfg", "ftrace.ndjson", evs)
		if !ok {
			return false
		}
		r.Count("traces_validated_against_impl", len(evs))
		for i, what := range bad {
			e := evs[i].(*fsEv)
			for _, w := range strings.Split(strings.TrimSuffix(what, ";"), ";") {
				parts := strings.SplitN(w, ":", 2)
				if parts[0] == "P" {
					mine := false
					for _, p := range props {
						if strings.HasPrefix(parts[1], p) {
							mine = true
						}
					}
					if mine {
						// the history up to the failing call
						var hist []string
						for k := i; k >= 0; k-- {
							hist = append([]string{evs[k].(*fsEv).desc}, hist...)
							if evs[k].(*fsEv).Op == "reset" {
								break
							}
						}
						r.Mismatch("fs-trace:"+e.Op+":"+parts[1], fmt.Sprintf("random filesystem history, last call violates %s: %s", parts[1], strings.Join(hist, " ; ")),
							map[string]any{"history": hist, "violated": parts[1], "event": e})
					}
				} else {
					r.Count("drift_traces", 1)
					fmt.Printf("SPEC-DRIFT layer=fs-trace model says %s: %s\n", parts[1], e.desc)
				}
			}
		}
		evs = nil
		return true
	}
	for h := 0; h < nHist; h++ {
		c := fsConc(rng.Intn(1 << 20))
		items := randFsItems(rng, mix)
		var names [][]string
		for _, it := range items {
			names = append(names, it.N)
		}
		dec := newFsDecoder(c, names)
		j, err := newJail()
		if err != nil {
			r.Broken("jail: %v", err)
			return
		}
		// initial state: sentinels beside the target; the target present, missing or (rarely) a regular file
		init := absFS{Dirs: [][]string{{"s"}}, Files: [][]string{{"s", "SL", "k"}}}
		switch x := rng.Intn(10); {
		case x < 6:
			init.Dirs = append(init.Dirs, []string{"t"})
		case x < 9:
		default:
			init.Files = append(init.Files, []string{"t"})
		}
		if err := j.materialise(init, c); err != nil {
			j.close()
			r.Broken("jail: %v", err)
			return
		}
		var ij []itemJ
		for _, it := range items {
			ij = append(ij, itemJ{it.D, it.N})
		}
		evs = append(evs, (&fsEv{Op: "reset", Items: ij, Fs: dec.snapshot(j.snapshot()), desc: fmt.Sprintf("forest [%s] (%s), directory %v", itemsString(items), c.Name, keysOf(j.snapshot()))}).fill())
		nroots := 0
		for _, it := range items {
			if it.D == 1 {
				nroots++
			}
		}
		nodePaths := itemNodePaths(items)
		steps := 2 + rng.Intn(4)
		for s := 0; s < steps; s++ {
			w := rng.Intn(mix.mkdir + mix.dry + mix.verify + mix.envw)
			switch {
			case w < mix.envw:
				// the environment creates a node path or an extra entry, as directory or file, where the parent exists
				var p []string
				if rng.Intn(3) > 0 {
					p = nodePaths[rng.Intn(len(nodePaths))]
				} else {
					base := nodePaths[rng.Intn(len(nodePaths))]
					p = append(append(append([]string{}, base...), "SL"), [][]string{{"e"}, {"f"}, {"A"}, {"k"}, {"U"}}[rng.Intn(5)]...)
				}
				notUTF8 := p[len(p)-1] == "U" // an entry whose name is not valid UTF-8 (as a regular file: see KNOWN_FINDINGS for directories)
				bad := false
				for _, t := range p {
					if t == "L" {
						bad = true
					}
				}
				rel := filepath.Clean(c.Seq(p))
				full := filepath.Join(j.root, rel)
				if bad || strings.HasPrefix(rel, "..") || strings.Contains(c.Seq(p), "//") || filepath.Clean(c.Seq(p)) != c.Seq(p) {
					continue // only plain paths inside the jail
				}
				if _, err := os.Lstat(full); err == nil {
					continue
				}
				if fi, err := os.Stat(filepath.Dir(full)); err != nil || !fi.IsDir() {
					continue
				}
				kind := "dir"
				if rng.Intn(2) == 0 || notUTF8 {
					kind = "file"
					os.WriteFile(full, []byte("env"), 0o644)
				} else {
					os.Mkdir(full, 0o755)
				}
				evs = append(evs, (&fsEv{Op: "env", Fs: dec.snapshot(j.snapshot()), Path: p, Entry: kind, desc: fmt.Sprintf("env creates %s %q", kind, rel)}).fill())
			case w < mix.envw+mix.mkdir+mix.dry:
				dry := w >= mix.envw+mix.mkdir
				route := "md"
				if nroots == 1 && rng.Intn(2) == 0 {
					route = "root"
				}
				var exts [][]string
				for _, e := range fsTraceExts {
					if rng.Intn(4) == 0 {
						exts = append(exts, e)
					}
				}
				if rng.Intn(4) == 0 {
					// one call in four: a suffix and a whole name that is shorter than it (".x", "x"), in either order
					// (extStrings orders a list by a hash of its spelling): what a list means is not its order
					exts = [][]string{{"DOT", "x"}, {"x"}}
				}
				if len(exts) == 0 && rng.Intn(2) == 0 {
					exts = append(exts, []string{"DOT", "x"}) // (half of the calls without a list: the usual suffix)
				}
				rq := wproto.Req{Op: "mkdir", Target: filepath.Join(j.root, "t"), DryRun: dry, Route: route, Exts: extStrings(exts, c), Alias: rng.Intn(3) == 0}
				if route == "root" {
					for _, it := range items {
						rq.Items = append(rq.Items, wproto.Item{D: it.D, N: c.Seq(it.N)})
					}
				} else {
					rq.Doc = canonItemsDoc(items, c)
				}
				rp := pool.Call(rq, 30*time.Second)
				r.Count("real_calls", 1)
				ev := &fsEv{Op: "mkdir", Route: route, Dry: dry, Exts: exts, Fs: dec.snapshot(j.snapshot()), Counts: [][]int{}}
				if ev.Exts == nil {
					ev.Exts = [][]string{}
				}
				switch {
				case rp.Class == "ok" && dry:
					ev.K = "report"
					for _, m := range countsRe.FindAllStringSubmatch(rp.Out, -1) {
						a, _ := strconv.Atoi(m[1])
						b, _ := strconv.Atoi(m[2])
						ev.Counts = append(ev.Counts, []int{a, b})
					}
				case rp.Class == "ok":
					ev.K = "ok"
				case rp.Class == "err" && rp.Err == "path already exists":
					ev.K = "exists"
				case rp.Class == "err" && (strings.HasPrefix(rp.Err, "invalid node name") || strings.HasPrefix(rp.Err, "invalid path")):
					ev.K = "invalid"
				case rp.Class == "err":
					ev.K = "oserr"
				default:
					ev.K = rp.Class // panic, hang
				}
				r.Count("fs_trace_mkdir_"+ev.K, 1)
				ev.desc = fmt.Sprintf("mkdir(route=%s dry=%v exts=%v alias=%v) -> %s %q; directory now %v", route, dry, extStrings(exts, c), rq.Alias, ev.K, rp.Err, keysOf(j.snapshot()))
				evs = append(evs, ev.fill())
			default:
				strict := rng.Intn(2) == 0
				rq := wproto.Req{Op: "verify", Target: filepath.Join(j.root, "t"), Strict: strict, Doc: canonItemsDoc(items, c)}
				if nroots == 1 && rng.Intn(2) == 0 {
					rq.Route, rq.Doc = "root", ""
					for _, it := range items {
						rq.Items = append(rq.Items, wproto.Item{D: it.D, N: c.Seq(it.N)})
					}
				}
				rp := pool.Call(rq, 30*time.Second)
				r.Count("real_calls", 1)
				ev := &fsEv{Op: "verify", Strict: strict, Fs: dec.snapshot(j.snapshot()), Extra: [][]string{}, Missing: [][]string{}}
				switch {
				case rp.Class == "ok":
					ev.K = "ok"
				case rp.Class == "err" && (strings.HasPrefix(rp.Err, "Extra paths exist:") || strings.HasPrefix(rp.Err, "Required paths does not exist:")):
					ev.K = "diff"
					ex, mi := parseVerifyErr(rp.Err, j.root)
					for _, p := range ex {
						ev.Extra = append(ev.Extra, dec.path(p))
					}
					for _, p := range mi {
						ev.Missing = append(ev.Missing, dec.path(p))
					}
				case rp.Class == "err" && (strings.HasPrefix(rp.Err, "invalid node name") || strings.HasPrefix(rp.Err, "invalid path")):
					ev.K = "invalid"
				case rp.Class == "err":
					ev.K = "oserr"
				default:
					ev.K = rp.Class
				}
				r.Count("fs_trace_verify_"+ev.K, 1)
				ev.desc = fmt.Sprintf("verify(strict=%v route=%s) -> %s %q", strict, map[bool]string{true: "root", false: "md"}[rq.Route == "root"], ev.K, rp.Err)
				evs = append(evs, ev.fill())
			}
		}
		j.close()
		r.Count("random_fs_histories", 1)
		if len(evs) > 500 {
			if !flush() {
				return
			}
		}
	}
	flush()
}

func keysOf(m map[string]string) []string {
	var ks []string
	for k, v := range m {
		if strings.HasPrefix(v, "d") {
			ks = append(ks, k+"/")
		} else {
			ks = append(ks, k)
		}
	}
	sort.Strings(ks)
	return ks
}
