package main

import (
	"fmt"
	"os"
	"os/exec"
	"reflect"
	"regexp"
	"runtime"
	"sort"
	"strconv"
	"strings"
	"sync"
	"time"

	"verif/harness/evid"
	"verif/harness/tla"
	"verif/harness/tlcrun"
	"verif/harness/wproto"
)

// Session.tla: a process is a sequence of calls; every call gives the result it gives as the first call of a
// fresh process.  TLC enumerates every session over the call alphabet of MC_Session.tla up to the bound; each
// session is replayed in a worker process of its own (a fresh process per session) and the reply to its LAST call
// is compared with the reply a fresh process gives to that call alone.  The check of the property that owns the
// last call (text: C01, encoders: C04, walk: C05, mkdir: C06, verify: C08, dry run: C09, From-Root: C13,
// the tinywasm build: C17) reports a difference.

type sessCall struct {
	Op, Fam, Doc, Fault string
	Opts                []string
}

func (c sessCall) has(t string) bool {
	for _, o := range c.Opts {
		if o == t {
			return true
		}
	}
	return false
}

func (c sessCall) String() string {
	s := c.Op + "/" + c.Fam + "(" + c.Doc
	if len(c.Opts) > 0 {
		s += "; " + strings.Join(c.Opts, ",")
	}
	if c.Fault != "none" {
		s += "; " + c.Fault
	}
	return s + ")"
}

// owner: the property whose statement pins the result of this call
func (c sessCall) owner() string {
	switch {
	case c.Fam == "root":
		return "C13"
	case c.has("dry"):
		return "C09"
	case c.Op == "walk":
		return "C05"
	case c.Op == "mkdir":
		return "C06"
	case c.Op == "verify":
		return "C08"
	case c.has("json") || c.has("yaml") || c.has("toml"):
		return "C04"
	}
	return "C01"
}

var sessDocs = map[string]string{
	"tab":   "- a\n\t- b\n\t\t- c\n\t- b2\n- d\n\t- e\n",
	"sp2":   "- a\n  - b\n    - c\n  - b2\n- d\n  - e\n",
	"sp4":   "- a\n    - b\n        - c\n    - b2\n- d\n    - e\n",
	"head":  "# a\n- b\n  - c\n- b2\n# d\n- e\n",
	"slash": "- a\n\t- x/y\n\t- z\n",
	"files": "- a\n  - f.x\n  - g.y\n  - h\n  - k\n    - m.x\n",
	"long":  "- a\n  - b\n  - " + strings.Repeat("n", 300) + "\n    - c\n- d\n", // a name the file system refuses
	"fmt1":  "- a\n  - b\nno bullet here\n",                                     // incorrect input format: no bullet here
	"fmt2":  "- a\n  - b\n        - a jump\n",                                   // incorrect input format:         - a jump (one block: the same row whatever the schedule)
}

// the first root of each document, for the From-Root family
var sessItems = map[string][]wproto.Item{
	"tab":      {{D: 1, N: "a"}, {D: 2, N: "b"}, {D: 3, N: "c"}, {D: 2, N: "b2"}},
	"slash":    {{D: 1, N: "a"}, {D: 2, N: "x/y"}, {D: 2, N: "z"}},
	"dotroot":  {{D: 1, N: "."}, {D: 2, N: "a"}, {D: 3, N: "b"}},
	"dotchild": {{D: 1, N: "r"}, {D: 2, N: "x"}, {D: 3, N: "."}},
	"files":    {{D: 1, N: "a"}, {D: 2, N: "f.x"}, {D: 2, N: "g.y"}, {D: 2, N: "h"}, {D: 2, N: "k"}, {D: 3, N: "m.x"}},
}

func sessCallOf(v tla.Value) sessCall {
	r := tla.R(v)
	c := sessCall{Op: tla.S(r["op"]), Fam: tla.S(r["fam"]), Doc: tla.S(r["doc"]), Fault: tla.S(r["fault"])}
	for _, o := range tla.Q(r["opts"]) {
		c.Opts = append(c.Opts, tla.S(o))
	}
	return c
}

// wasmOK: can the tinywasm build (only Output, From-Markdown, no fault injection) perform this call?
func (c sessCall) wasmOK() bool {
	return c.Op == "output" && c.Fam == "md" && c.Fault == "none" && !c.has("massive") && !c.has("yaml")
}

// wasmReq: the call in the vocabulary of the tinywasm worker (no option-sequence mode there)
func (c sessCall) wasmReq() wproto.Req {
	rq := wproto.Req{Op: "output", Doc: sessDocs[c.Doc]}
	if c.has("json") {
		rq.Format = "json"
	}
	if c.has("dry") {
		rq.DryRun = true
		rq.Exts = []string{}
		if c.has("extsDup") {
			rq.Exts = []string{".x", ".y", ".x"}
		}
	}
	if c.has("brL1") && c.has("brI1") {
		rq.Branches = []string{"`--", "    ", "|--", "|   "}
	}
	return rq
}

func (c sessCall) req() wproto.Req {
	rq := wproto.Req{Op: c.Op, OptMode: true, OptSeq: c.Opts}
	if rq.OptSeq == nil {
		rq.OptSeq = []string{}
	}
	// "sp2*400": the document 400 times over (a pair of calls overlaps only if each of them runs long enough)
	doc, scale := c.Doc, 1
	if i := strings.Index(doc, "*"); i > 0 {
		scale, _ = strconv.Atoi(doc[i+1:])
		doc = doc[:i]
	}
	if c.Fam == "root" {
		rq.Route = "root"
		rq.Items = sessItems[doc]
		if rq.Items == nil {
			rq.Items = sessItems["tab"]
		}
		if scale > 1 { // one root holding the tree `scale` times under numbered names
			one := rq.Items
			rq.Items = []wproto.Item{{D: 1, N: "R"}}
			for k := 0; k < scale; k++ {
				for _, it := range one {
					n := it.N
					if it.D == 1 {
						n += strconv.Itoa(k)
					}
					rq.Items = append(rq.Items, wproto.Item{D: it.D + 1, N: n})
				}
			}
		}
	} else {
		rq.Doc = strings.Repeat(sessDocs[doc], scale)
	}
	switch c.Fault {
	case "w1":
		rq.WFault = &wproto.WFault{How: "fail", At: 1}
	case "w2":
		rq.WFault = &wproto.WFault{How: "fail", At: 2}
	case "rhalf":
		n := len(rq.Doc) / 2
		rq.ReadFail = &n
	case "pre":
		rq.PreDoc = sessDocs[c.Doc]
	}
	return rq
}

// what of a reply is a function of the call (massive mode: roots in any order; with a fault on top, how far the
// other roots got is the schedule's business)
type sessObs struct {
	Class, Out, Err string
	Walk, Entries   []string
}

func sessObsOf(c sessCall, rp wproto.Rep) sessObs {
	o := sessObs{Class: rp.Class, Out: rp.Out, Err: rp.Err, Walk: rp.Walk, Entries: rp.Entries}
	if c.has("massive") {
		o.Out = sortedLines(o.Out)
		w := append([]string{}, o.Walk...)
		sort.Strings(w)
		o.Walk = w
		if c.Fault != "none" {
			o.Out, o.Err, o.Walk = "", "", nil
		}
		if rp.Class != "ok" {
			// a failing massive-mode call: how far the other roots got (written, visited, created) when the error
			// ended the call is the schedule's business
			o.Out, o.Walk, o.Entries = "", nil, nil
		}
	}
	if rp.Class == "panic" || rp.Class == "hang" {
		o.Err = firstLine(o.Err)
	}
	return o
}

type sessionRunner struct {
	r     *evid.Run
	self  string
	args  []string
	mu    sync.Mutex
	alone map[string]*sessObs // nil entry: the call alone is not deterministic (no verdict for sessions ending in it)
	build string
}

func (s *sessionRunner) fresh() (*wproto.Proc, error) { return wproto.Start(s.self, s.args...) }

func (s *sessionRunner) reqOf(c sessCall) wproto.Req {
	if s.build == "/tinywasm" {
		return c.wasmReq()
	}
	return c.req()
}

func sessKey(c sessCall) string { return c.String() }

// aloneObs: the call as the first call of a fresh process (twice: a call whose two fresh runs differ gets no verdict)
func (s *sessionRunner) aloneObs(c sessCall) *sessObs {
	k := sessKey(c)
	s.mu.Lock()
	if o, ok := s.alone[k]; ok {
		s.mu.Unlock()
		return o
	}
	s.mu.Unlock()
	var obs [2]sessObs
	for i := range obs {
		p, err := s.fresh()
		if err != nil {
			s.r.Broken("session: cannot start a worker: %v", err)
			return nil
		}
		obs[i] = sessObsOf(c, p.Call(s.reqOf(c), 60*time.Second))
		p.Close()
		s.r.Count("real_calls", 1)
	}
	var res *sessObs
	if reflect.DeepEqual(obs[0], obs[1]) {
		res = &obs[0]
	} else {
		s.r.Note("session: the call " + k + " gives different replies in two fresh processes: sessions ending in it get no verdict")
	}
	s.mu.Lock()
	s.alone[k] = res
	s.mu.Unlock()
	return res
}

type sessReplay struct {
	Build      string     `json:"build"`
	Session    []sessCall `json:"session"`
	Concurrent bool       `json:"concurrent,omitempty"` // the calls ran at the same time
}

func (s *sessionRunner) runSession(calls []sessCall) { s.runSessionMode(calls, false) }

// heldOnly: only the rule about the errors of earlier calls is applied (the last call belongs to another property)
func (s *sessionRunner) runSessionMode(calls []sessCall, heldOnly bool) {
	last := calls[len(calls)-1]
	want := s.aloneObs(last)
	if want == nil {
		return
	}
	p, err := s.fresh()
	if err != nil {
		s.r.Broken("session: cannot start a worker: %v", err)
		return
	}
	defer p.Close()
	var rp wproto.Rep
	var raw []string // the error text of every call as it was when the call returned ("" = nil)
	for i, c := range calls {
		rp = p.Call(s.reqOf(c), 60*time.Second)
		s.r.Count("real_calls", 1)
		// the errors of the earlier calls are values the caller still holds: they say what they said
		for j := 0; j < len(rp.Held) && j < len(raw); j++ {
			if rp.Held[j] != raw[j] {
				s.r.Mismatch("session"+s.build+":held-error-changed:"+calls[j].Op+"/"+calls[j].Fam,
					fmt.Sprintf("session [%s ; ... ; %s]: the error returned by call %d said %q and says %q after call %d", calls[0], c, j+1, raw[j], rp.Held[j], i+1),
					sessReplay{Build: s.build, Session: calls[:i+1]})
				return
			}
		}
		raw = append(raw, rp.RawErr)
	}
	s.r.Count("sessions_replayed", 1)
	if heldOnly {
		return
	}
	got := sessObsOf(last, rp)
	if reflect.DeepEqual(got, *want) {
		return
	}
	var hs []string
	for _, c := range calls {
		hs = append(hs, c.String())
	}
	diff := "class"
	switch {
	case got.Class != want.Class:
		diff = "class:" + want.Class + "->" + got.Class
	case got.Out != want.Out:
		diff = "output"
	case got.Err != want.Err:
		diff = "error-text"
	case !reflect.DeepEqual(got.Walk, want.Walk):
		diff = "walk"
	case !reflect.DeepEqual(got.Entries, want.Entries):
		diff = "filesystem"
	}
	// the last call is named by its kind only: one signature per kind of disturbed call and kind of difference
	kind := last.Op + "/" + last.Fam
	if last.has("dry") {
		kind += "+dry"
	}
	s.r.Mismatch("session"+s.build+":"+kind+":"+diff,
		fmt.Sprintf("session [%s]: the last call alone gives class=%s out=%q err=%q, after the calls before it class=%s out=%q err=%q walk=%q entries=%v (alone: walk=%q entries=%v)",
			strings.Join(hs, " ; "), want.Class, clip(want.Out, 300), clip(want.Err, 200), got.Class, clip(got.Out, 300), clip(got.Err, 200), got.Walk, got.Entries, want.Walk, want.Entries),
		sessReplay{Build: s.build, Session: calls})
}

// runPair: two calls at the same time in one fresh process; each reply must be the reply of that call alone
func (s *sessionRunner) runPair(calls []sessCall) {
	if calls[0].has("dry") && calls[1].has("dry") && calls[0].Op == "output" && calls[1].Op == "output" {
		// two dry-run reports, each into a writer of its own: the documents 400 times over, so that the two
		// calls are at work at the same time
		calls = append([]sessCall{}, calls...)
		for i := range calls {
			calls[i].Doc += "*400"
		}
	}
	var want []*sessObs
	for _, c := range calls {
		w := s.aloneObs(c)
		if w == nil {
			return
		}
		want = append(want, w)
	}
	p, err := s.fresh()
	if err != nil {
		s.r.Broken("session: cannot start a worker: %v", err)
		return
	}
	defer p.Close()
	rq := wproto.Req{}
	for _, c := range calls {
		rq.Par = append(rq.Par, s.reqOf(c))
	}
	bothDry := calls[0].has("dry") && calls[1].has("dry")
	rp := p.Call(rq, 90*time.Second)
	s.r.Count("real_calls", len(calls))
	s.r.Count("concurrent_pairs_replayed", 1)
	// two calls that both work in the file system overlap only by luck: such pairs run eight times (the process is
	// the same: what the first round left behind, the later ones meet)
	fsOp := func(c sessCall) bool { return c.Op == "mkdir" || c.Op == "verify" }
	for k := 0; k < 7 && (fsOp(calls[0]) && fsOp(calls[1]) || bothDry) && rp.Class == "par" && len(rp.Sub) == len(calls); k++ {
		ok := true
		for i, c := range calls {
			if !reflect.DeepEqual(sessObsOf(c, rp.Sub[i]), *want[i]) {
				ok = false
			}
		}
		if !ok {
			break
		}
		rp = p.Call(rq, 90*time.Second)
		s.r.Count("real_calls", len(calls))
	}
	if rp.Class != "par" || len(rp.Sub) != len(calls) {
		s.r.Mismatch("session"+s.build+":concurrent:"+rp.Class, fmt.Sprintf("calls [%s || %s] at the same time: %s %s", calls[0], calls[1], rp.Class, firstLine(rp.Err)),
			sessReplay{Build: s.build, Session: calls, Concurrent: true})
		return
	}
	for i, c := range calls {
		got := sessObsOf(c, rp.Sub[i])
		if c.has("dry") && c.Op == "mkdir" && got.Class == want[i].Class && got.Err == want[i].Err {
			got.Out = want[i].Out // (Mkdir prints its dry-run report on the colour package's process-wide output, which the two calls share: not compared here)
		}
		if reflect.DeepEqual(got, *want[i]) {
			continue
		}
		s.r.Mismatch("session"+s.build+":concurrent:"+c.Op+"/"+c.Fam,
			fmt.Sprintf("calls [%s || %s] at the same time: %s alone gives class=%s out=%q err=%q walk=%q entries=%v, next to the other call class=%s out=%q err=%q walk=%q entries=%v",
				calls[0], calls[1], c, want[i].Class, clip(want[i].Out, 300), clip(want[i].Err, 200), want[i].Walk, want[i].Entries,
				got.Class, clip(got.Out, 300), clip(got.Err, 200), got.Walk, got.Entries),
			sessReplay{Build: s.build, Session: calls, Concurrent: true})
	}
}

func clip(s string, n int) string {
	if len(s) > n {
		return s[:n] + "..."
	}
	return s
}

// sessionPhase: the sessions of Session.tla whose last call is owned by this check's property
func sessionPhase(r *evid.Run) { sessionPhaseIn(r, "", "") }

// sessionPhaseWasm: the sessions the tinywasm build can perform (Output calls only), in tinywasm worker processes: the
// web page is one process that renders again and again
func sessionPhaseWasm(r *evid.Run, bin string) { sessionPhaseIn(r, bin, "/tinywasm") }

func sessionPhaseIn(r *evid.Run, bin, build string) {
	self, err := os.Executable()
	if err != nil {
		r.Broken("os.Executable: %v", err)
		return
	}
	args := []string{"worker"}
	if bin != "" {
		self, args = bin, nil
	}
	cfg, timeout := "MC_Session_quick.cfg", 10*time.Minute
	if r.Tier == "thorough" {
		cfg, timeout = "MC_Session_thorough.cfg", 30*time.Minute
	}
	s := &sessionRunner{r: r, self: self, args: args, alone: map[string]*sessObs{}, build: build}
	type work struct {
		calls []sessCall
		par   bool
		held  bool
	}
	ch := make(chan work, 256)
	var wg sync.WaitGroup
	for i := 0; i < runtime.NumCPU(); i++ {
		wg.Add(1)
		go func() {
			defer wg.Done()
			for w := range ch {
				if w.par {
					s.runPair(w.calls)
				} else {
					s.runSessionMode(w.calls, w.held)
				}
			}
		}()
	}
	res, err := tlcrun.Run(tlcrun.Opts{SpecDir: specDir, Module: "MC_Session", Cfg: cfg, Timeout: timeout, Dump: true},
		func(st *tla.State) error {
			h := tla.Q(st.Get("hist"))
			if len(h) < 2 {
				return nil
			}
			var calls []sessCall
			for _, v := range h {
				calls = append(calls, sessCallOf(v))
			}
			par := len(st.Get("overlap").(tla.Set)) > 0
			if build == "/tinywasm" {
				for _, c := range calls {
					if !c.wasmOK() {
						return nil
					}
				}
				if !par { // (the page renders one document at a time)
					ch <- work{calls, false, false}
				}
			} else if par {
				// calls at the same time are C13's ("or concurrently in other goroutines"; "independent From-Markdown
				// calls running concurrently"), whatever the operations
				if r.ID == "C13" && len(calls) == 2 {
					ch <- work{calls, true, false}
				}
			} else if calls[len(calls)-1].owner() == r.ID {
				ch <- work{calls, false, false}
			} else if r.ID == "C13" && (calls[0].Doc == "fmt1" || calls[0].Doc == "fmt2") {
				// a call that failed with a format error, then any other call: the error value the caller still holds
				// says what it said (results do not depend on later calls either)
				ch <- work{calls, false, true}
			}
			return nil
		})
	close(ch)
	wg.Wait()
	if err != nil || res.Violated != "" || res.ErrorText != "" || res.Dumped != res.Distinct {
		r.Broken("TLC MC_Session/%s: %v %s %s\n%s", cfg, err, res.Violated, res.ErrorText, tail(res))
		return
	}
	r.Count("states", res.Distinct)
	r.Count("transitions", res.Generated)
	fmt.Printf("model MC_Session/%s: %d distinct states, %d sessions (last call owned by %s%s) replayed in fresh processes\n", cfg, res.Distinct, r.Get("sessions_replayed"), r.ID, build)
}

// proveSession: Session.tla holds for sessions of any length (TLAPS proof SessionProof.tla; the TLC runs bound the
// length).  A failed proof is a defect of the specification, never a verdict about the code.
func proveSession(r *evid.Run) {
	dir, err := os.MkdirTemp("", "verif-tlaps-")
	if err != nil {
		r.Broken("mkdtemp: %v", err)
		return
	}
	defer os.RemoveAll(dir)
	for _, f := range []string{"Session.tla", "SessionProof.tla"} {
		b, err := os.ReadFile(specDir + "/" + f)
		if err != nil {
			r.Broken("read %s: %v", f, err)
			return
		}
		os.WriteFile(dir+"/"+f, b, 0o644)
	}
	cmd := exec.Command("timeout", "600", "tlapm", "--threads", fmt.Sprint(runtime.NumCPU()), "SessionProof.tla")
	cmd.Dir = dir
	out, err := cmd.CombinedOutput()
	m := regexp.MustCompile(`All (\d+) obligations proved`).FindSubmatch(out)
	if err != nil || m == nil {
		r.Broken("tlapm SessionProof.tla: %v\n%s", err, clip(string(out), 2000))
		return
	}
	n, _ := strconv.Atoi(string(m[1]))
	r.Set("tlaps_obligations_proved (SessionProof.tla: sessions of any length)", n)
	fmt.Printf("proof SessionProof.tla: %d obligations proved (sessions of any length leave no residue)\n", n)
}
