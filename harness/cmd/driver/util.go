package main

import (
	"os"

	"github.com/ddddddO/gtree"
)

func readFile(p string) ([]byte, error) { return os.ReadFile(p) }

func noIterOpt() gtree.Option { return gtree.WithNoUseIterOfSimpleOutput() }
