package main

import "os"

func readFile(p string) ([]byte, error) { return os.ReadFile(p) }
