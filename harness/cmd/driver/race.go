package main

import (
	"fmt"
	"os"
	"os/exec"
	"path/filepath"
	"regexp"
	"strings"
	"sync"
	"time"

	"verif/harness/evid"
	"verif/harness/wproto"
)

// raceCheck rebuilds the worker with the Go race detector and runs massive-mode calls in it; a
// "WARNING: DATA RACE" whose stacks contain a gtree frame is the observation (C11, third sentence).
func raceCheck(r *evid.Run, reqs []wproto.Req) {
	bin := filepath.Join(os.TempDir(), "driver_race")
	cmd := exec.Command("go", "build", "-race", "-tags", "verif", "-o", bin, "./cmd/driver")
	cmd.Dir = evid.Root + "/harness"
	cmd.Env = append(os.Environ(), "GOPROXY=off") // GOFLAGS (-mod=mod -modfile=...) comes from scripts/check.sh
	if b, err := cmd.CombinedOutput(); err != nil {
		r.Broken("cannot build the race-detector worker: %v\n%s", err, b)
		return
	}
	pool, err := wproto.NewPool(8, bin, "worker")
	if err != nil {
		r.Broken("cannot start race-detector workers: %v", err)
		return
	}
	var wg sync.WaitGroup
	sem := make(chan struct{}, 8)
	for _, rq := range reqs {
		wg.Add(1)
		sem <- struct{}{}
		go func(rq wproto.Req) {
			defer wg.Done()
			defer func() { <-sem }()
			rp := pool.Call(rq, 120*time.Second)
			r.Count("race_detector_calls", 1)
			if rp.Class == "hang" || rp.Class == "panic" {
				r.Mismatch("race-build:"+rp.Class, fmt.Sprintf("doc=%q: %s", rq.Doc, rp.Err), rq)
			}
		}(rq)
	}
	wg.Wait()
	outs := pool.Stderr()
	pool.Close()
	seen := map[string]bool{}
	for _, out := range outs {
		for _, sig := range raceSignatures(out) {
			if !seen[sig] {
				seen[sig] = true
				r.Mismatch(sig, "Go race detector: "+raceExcerpt(out, sig), map[string]any{"stderr": firstN(out, 4000)})
			}
		}
	}
	r.Set("data_race_reports", len(seen))
}

// raceRequests: documents and options that make the shared pieces of the pipeline busy
func raceRequests(thorough bool) []wproto.Req {
	var reqs []wproto.Req
	var heading, plain, failing strings.Builder
	for i := 0; i < 40; i++ {
		heading.WriteString(fmt.Sprintf("# h%d\n- c\n  - d\n", i))
		plain.WriteString(fmt.Sprintf("- r%d\n  - c\n    - d\n  - e\n", i))
		if i%3 == 0 {
			failing.WriteString(fmt.Sprintf("- r%d\n  -\n", i))
		} else {
			failing.WriteString(fmt.Sprintf("- r%d\n  - c\n", i))
		}
	}
	docs := []string{heading.String(), plain.String(), failing.String(), "* a\n\t* b\n+ c\n\t+ d\n"}
	n := 2
	if thorough {
		n = 6
	}
	for k := 0; k < n; k++ {
		for _, d := range docs {
			for _, rq := range []wproto.Req{
				{Op: "output", Massive: true}, {Op: "output", Massive: true, Format: "json"}, {Op: "output", Massive: true, Format: "yaml"},
				{Op: "output", Massive: true, DryRun: true, Exts: []string{"d"}}, {Op: "walk", Massive: true}, {Op: "mkdir", Massive: true, Exts: []string{"d"}},
				{Op: "verify", Massive: true}, {Op: "output"}, {Op: "walk"},
			} {
				rq.Doc = d
				rq.Procs = []int{2, 4, 16}[k%3]
				if k%2 == 1 {
					o := len(d) / 2
					rq.CancelAt = &o
					rq.Yield = 1
				}
				reqs = append(reqs, rq)
				if rq.Op == "output" && rq.Massive {
					// a writer that starts failing in the middle while other roots are still in flight
					wq := rq
					wq.CancelAt, wq.Yield = nil, 0
					wq.WFault = &wproto.WFault{How: "fail", At: 3 + 2*k}
					reqs = append(reqs, wq)
				}
			}
		}
	}
	// two DIFFERENT stages failing in the same call: malformed blocks + a failing writer, malformed blocks + a
	// failing callback (each error goes through its own handler goroutine)
	for rep := 0; rep < 4*n; rep++ {
		reqs = append(reqs,
			wproto.Req{Op: "output", Massive: true, Doc: failing.String(), Procs: []int{2, 4, 8, 16}[rep%4], WFault: &wproto.WFault{How: "fail", At: 1 + rep%3}},
			wproto.Req{Op: "walk", Massive: true, Doc: failing.String(), Procs: []int{2, 4, 8, 16}[rep%4], FailNames: []string{"r1", "r2", "r4", "r5", "r7"}},
			wproto.Req{Op: "output", Massive: true, DryRun: true, Doc: failing.String() + "- z\n  - x/y\n", Procs: []int{4, 16}[rep%2], WFault: &wproto.WFault{How: "fail", At: 1}})
	}
	// the text spreader under a writer that starts failing at various points while many roots are in flight
	for rep := 0; rep < 3*n; rep++ {
		for _, at := range []int{1, 2, 3, 5, 8, 13, 21, 40, 80} {
			reqs = append(reqs, wproto.Req{Op: "output", Massive: true, Doc: plain.String(), Procs: []int{4, 16, 8}[rep%3], WFault: &wproto.WFault{How: []string{"fail", "fail-once", "short"}[rep%3], At: at}})
		}
	}
	return reqs
}

var reRaceFn = regexp.MustCompile(`(?m)^  github\.com/ddddddO/gtree[./](\S+)\(`)

// raceSignatures extracts, from a process's stderr, one signature per data-race report whose two
// conflicting accesses are both in gtree (first frame of each access).
func raceSignatures(out string) []string {
	var sigs []string
	for _, rep := range strings.Split(out, "==================") {
		if !strings.Contains(rep, "WARNING: DATA RACE") {
			continue
		}
		var sites []string
		for _, part := range strings.Split(rep, "\n\n") {
			if !(strings.Contains(part, "Write at") || strings.Contains(part, "Read at") || strings.Contains(part, "Previous write") || strings.Contains(part, "Previous read")) {
				continue
			}
			lines := strings.Split(part, "\n")
			first := ""
			for i, l := range lines {
				if (strings.Contains(l, "rite at 0x") || strings.Contains(l, "ead at 0x")) && i+1 < len(lines) {
					first = lines[i+1]
					break
				}
			}
			if !strings.HasPrefix(first, "  github.com/ddddddO/gtree") {
				sites = nil
				break // an access in the harness: not gtree's race
			}
			if m := reRaceFn.FindStringSubmatch(part); m != nil {
				sites = append(sites, m[1])
			}
		}
		if len(sites) > 0 {
			sigs = append(sigs, "data-race:"+strings.Join(sites, "<>"))
		}
	}
	return sigs
}

func raceExcerpt(out, sig string) string {
	i := strings.Index(out, "WARNING: DATA RACE")
	if i < 0 {
		return sig
	}
	return strings.ReplaceAll(firstN(out[i:], 1200), "\n", " | ")
}

func firstN(s string, n int) string {
	if len(s) > n {
		return s[:n]
	}
	return s
}
