package main

import (
	"fmt"
	"math/rand"
	"os"
	"os/exec"
	"path/filepath"
	"strings"
	"sync"
	"time"

	"github.com/ddddddO/gtree"

	"verif/harness/evid"
	"verif/harness/real"
	"verif/harness/tok"
	"verif/harness/wproto"
)

func init() { register("C17", "model_checking", checkC17) }

// buildWasmDriver compiles cmd/wasmdriver with the tinywasm tag against /repo's working tree.
func buildWasmDriver(r *evid.Run) string {
	out := filepath.Join(os.TempDir(), "wasmdriver")
	cmd := exec.Command("go", "build", "-tags", "verif tinywasm", "-o", out, "./cmd/wasmdriver")
	cmd.Dir = evid.Root + "/harness"
	cmd.Env = append(os.Environ(), "GOPROXY=off") // GOFLAGS (-mod=mod -modfile=...) comes from scripts/check.sh
	if b, err := cmd.CombinedOutput(); err != nil {
		r.Broken("cannot build the tinywasm variant: %v\n%s", err, b)
		return ""
	}
	return out
}

type wasmMode struct {
	name string
	req  func(c *tok.Conc) wproto.Req
	opts func(c *tok.Conc) []gtree.Option
	want func(d *DocState, c *tok.Conc) (string, bool) // expected bytes when accepted (false: compare builds only)
}

func c17Ext(c *tok.Conc) []string { return []string{c.Seq([]string{"b"})} }

// dry-run report expected from the forest: rows, blank line, "<dirs> directories, <files> files" per root
func dryRunReport(d *DocState, c *tok.Conc, exts []string) string {
	var sb strings.Builder
	for i, t := range d.Forest {
		for _, row := range d.Blocks[i] {
			sb.WriteString(c.Seq(row) + "\n")
		}
		dirs, files := 0, 0
		var rec func(t *Tree)
		rec = func(t *Tree) {
			isFile := false
			if len(t.Kids) == 0 {
				for _, e := range exts {
					if strings.HasSuffix(c.Seq(t.Name), e) {
						isFile = true
					}
				}
			}
			if isFile {
				files++
			} else {
				dirs++
			}
			for _, k := range t.Kids {
				rec(k)
			}
		}
		rec(t)
		sb.WriteString(fmt.Sprintf("\n%d directories, %d files\n", dirs, files))
	}
	return sb.String()
}

var wasmModes = []wasmMode{
	{"text", func(c *tok.Conc) wproto.Req { return wproto.Req{Op: "output"} },
		func(c *tok.Conc) []gtree.Option { return nil },
		func(d *DocState, c *tok.Conc) (string, bool) {
			return d.ExpectText(&tok.Conc{Chunks: c.Chunks, WS: c.WS, LD: "└──", LI: "    ", MD: "├──", MI: "│   "}), true
		}},
	{"custom-branches", func(c *tok.Conc) wproto.Req {
		return wproto.Req{Op: "output", Branches: []string{c.LD, c.LI, c.MD, c.MI}}
	}, func(c *tok.Conc) []gtree.Option {
		return (&real.Branches{LD: c.LD, LI: c.LI, MD: c.MD, MI: c.MI}).Opts()
	}, func(d *DocState, c *tok.Conc) (string, bool) { return d.ExpectText(c), true }},
	{"json", func(c *tok.Conc) wproto.Req { return wproto.Req{Op: "output", Format: "json"} },
		func(c *tok.Conc) []gtree.Option { return []gtree.Option{gtree.WithEncodeJSON()} },
		func(d *DocState, c *tok.Conc) (string, bool) { return "", false }},
	{"dry-run+ext", func(c *tok.Conc) wproto.Req {
		return wproto.Req{Op: "output", DryRun: true, Exts: c17Ext(c), Branches: []string{c.LD, c.LI, c.MD, c.MI}}
	}, func(c *tok.Conc) []gtree.Option {
		return append((&real.Branches{LD: c.LD, LI: c.LI, MD: c.MD, MI: c.MI}).Opts(), gtree.WithDryRun(), gtree.WithFileExtensions(c17Ext(c)))
	}, func(d *DocState, c *tok.Conc) (string, bool) { return "", false }},
	// both options in one call: the dry-run report wins over the encoding in the default build, so it must in the other
	{"json+dry-run", func(c *tok.Conc) wproto.Req {
		return wproto.Req{Op: "output", Format: "json", DryRun: true, Exts: c17Ext(c)}
	}, func(c *tok.Conc) []gtree.Option {
		return []gtree.Option{gtree.WithEncodeJSON(), gtree.WithDryRun(), gtree.WithFileExtensions(c17Ext(c))}
	}, func(d *DocState, c *tok.Conc) (string, bool) { return "", false }},
}

func checkWasmState(r *evid.Run, pool *wproto.Pool, d *DocState, concs []*tok.Conc) {
	for _, c := range concs {
		doc := c.Doc(d.Doc)
		for _, m := range wasmModes {
			def := real.OutputMD(doc, m.opts(c)...)
			rq := m.req(c)
			rq.Doc = doc
			w := pool.Call(rq, 30*time.Second)
			r.Count("real_calls", 2)
			rp := map[string]any{"doc_tokens": d.Doc, "doc_bytes": doc, "mode": m.name, "conc": c,
				"default":  map[string]string{"class": def.Class(), "out": def.Out, "err": def.ErrString()},
				"tinywasm": map[string]string{"class": w.Class, "out": w.Out, "err": w.Err}}
			if w.Class == "panic" || w.Class == "hang" {
				r.Mismatch("wasm-"+m.name+":"+w.Class, fmt.Sprintf("doc=%q tinywasm %s: %s", doc, w.Class, w.Err), rp)
				continue
			}
			if def.Class() == "panic" || def.Class() == "hang" {
				continue // the default build's own crashes are C12's subject
			}
			// accept/reject decision: the two builds agree, and agree with the specification
			if (w.Class == "ok") != (def.Class() == "ok") {
				r.Mismatch("wasm-"+m.name+":decision-differs", fmt.Sprintf("doc=%q default=%s(%v) tinywasm=%s(%s)", doc, def.Class(), def.Err, w.Class, w.Err), rp)
				continue
			}
			// (a dry run also validates the names: a well-formed document with a name that is no path element is rejected
			// by design, by both builds alike - checked above - so the specification's verdict says nothing there)
			dryHostile := strings.Contains(m.name, "dry-run") && (docHasPathSpecialName(d) || strings.HasPrefix(c.Name, "invalid-utf8"))
			if hasRootLine(d.Doc) && !dryHostile {
				if d.Verdict == "accept" && w.Class != "ok" {
					r.Mismatch("wasm-"+m.name+":wellformed-rejected", fmt.Sprintf("doc=%q err=%s", doc, w.Err), rp)
					continue
				}
				if d.Verdict == "reject" && w.Class == "ok" {
					r.Mismatch("wasm-"+m.name+":malformed-accepted:"+d.Why, fmt.Sprintf("doc=%q out=%q", doc, w.Out), rp)
					continue
				}
			}
			if w.Class != "ok" {
				continue
			}
			if w.Out != def.Out {
				r.Mismatch("wasm-"+m.name+":bytes-differ", fmt.Sprintf("doc=%q default=%q tinywasm=%q", doc, def.Out, w.Out), rp)
				continue
			}
			if d.Verdict == "accept" && len(d.Forest) > 0 {
				want, ok := m.want(d, c)
				if m.name == "dry-run+ext" {
					want, ok = dryRunReport(d, c, c17Ext(c)), true
				}
				if ok && w.Out != want {
					r.Mismatch("wasm-"+m.name+":differs-from-spec", fmt.Sprintf("doc=%q want=%q tinywasm=%q", doc, want, w.Out), rp)
				}
			}
		}
	}
}

// docHasPathSpecialName: some name of the forest contains '/' or is '.' or '..'
func docHasPathSpecialName(d *DocState) bool {
	var rec func(t *Tree) bool
	rec = func(t *Tree) bool {
		if len(t.Name) == 1 && t.Name[0] == "DOT" || len(t.Name) == 2 && t.Name[0] == "DOT" && t.Name[1] == "DOT" {
			return true
		}
		for _, x := range t.Name {
			if x == "SL" {
				return true
			}
		}
		for _, k := range t.Kids {
			if rec(k) {
				return true
			}
		}
		return false
	}
	for _, t := range d.Forest {
		if rec(t) {
			return true
		}
	}
	return false
}

func checkC17(r *evid.Run) {
	bin := buildWasmDriver(r)
	if bin == "" {
		return
	}
	pool, err := wproto.NewPool(16, bin)
	if err != nil {
		r.Broken("cannot start tinywasm workers: %v", err)
		return
	}
	defer pool.Close()
	tier := "quick"
	if r.Tier == "thorough" {
		tier = "thorough"
	}
	concs := tok.Concs(r.Seed, 2, allChunkIDs)[1:] // custom branch strings
	concs = append(concs, tok.MakeConc(int(r.Seed)%5, 4, true, allChunkIDs, nil))
	// one concretisation per branch-string set (empty connectors, empty everything, unequal lengths, ...): every state
	// is also run under one of them, in turn
	invalid := tok.InvalidUTF8Conc(int(r.Seed), allChunkIDs)
	var perSet []*tok.Conc
	for b := 0; b < tok.NumBranchSets(); b++ {
		perSet = append(perSet, tok.MakeConc(int(r.Seed+int64(b))%5, b, b%2 == 0, allChunkIDs, nil))
	}
	for _, m := range []modelRun{
		{Module: "MC_C01", Cfg: "MC_C01_" + tier + ".cfg", Timeout: 20 * time.Minute},
		{Module: "MC_C02", Cfg: "MC_C02_" + tier + ".cfg", Timeout: 25 * time.Minute},
		// names that are paths or path-special ('a/b' beside a{b}, '.', '..'): what one build merges or rejects, the other must
		{Module: "MC_C01", Cfg: "MC_C17_paths.cfg", Timeout: 20 * time.Minute},
	} {
		runDocModel(r, m, func(d *DocState) {
			if len(d.Doc) >= 2 {
				r.Count("distinct_nontrivial", 1)
			}
			if d.N%1999 == 0 {
				r.Sample(map[string]any{"doc": docString(d.Doc), "verdict": d.Verdict})
			}
			cs := append(append([]*tok.Conc{}, concs...), perSet[d.N%len(perSet)])
			if d.N%3 == 0 {
				cs = append(cs, invalid) // names that are not valid UTF-8: no path element either (a dry run rejects them)
			}
			checkWasmState(r, pool, d, cs)
		})
	}
	c17Random(r, pool)
	sessionPhaseWasm(r, bin) // Session.tla: the page is one process that renders again and again
	r.Set("tinywasm_worker_deaths", pool.Deaths())
	r.Set("exhaustive", true)
	r.Set("rule", "C01's well-formed documents and C02's line-pool documents (malformed included), each run through the default build and the tinywasm build (a second process compiled with -tags tinywasm) in 5 modes: text, custom branch strings, JSON, dry-run with an extension, JSON and dry run in one call; decisions compared with each other and with the specification, bytes compared when accepted; non-trivial = at least 2 lines")
}

// c17Random: random documents (wide and deep forests, every spelling, injected malformations incl. a
// jump right after a dedent), default build vs tinywasm build, in the claimed modes.
func c17Random(r *evid.Run, pool *wproto.Pool) {
	n := 600
	if r.Tier == "thorough" {
		n = 6000
	}
	rng := rand.New(rand.NewSource(r.Seed*2654435761 + 99))
	p := genParams{MaxNodes: 30, MaxDepth: 6, MaxRoots: 4, NChunks: 10, Hostile: true}
	var wg sync.WaitGroup
	sem := make(chan struct{}, 32)
	for i := 0; i < n; i++ {
		c := tok.TraceConc(rng, p.NChunks)
		// names with the characters encoding/json escapes for HTML, and a '%'
		c.Chunks["k1"], c.Chunks["k2"], c.Chunks["k3"] = "R&D", "<b>", "50%d"
		if i%5 == 0 {
			c.Chunks["k4"] = "x/y" // invalid as a path element: dry-run must reject it in both builds
		}
		doc := spell(rng, randForest(rng, p), randSpelling(rng))
		switch i % 3 {
		case 1:
			doc = injectC02(rng, doc)
		case 2:
			doc = injectJumpAfterDedent(rng, doc)
		}
		d := &DocState{N: i, Doc: doc, Verdict: "grey"}
		wg.Add(1)
		sem <- struct{}{}
		go func() {
			defer wg.Done()
			defer func() { <-sem }()
			checkWasmState(r, pool, d, []*tok.Conc{c})
		}()
	}
	wg.Wait()
	// a line beyond bufio.Scanner's token limit, in different positions
	long := strings.Repeat("x", 70000)
	for _, doc := range []string{"- " + long + "\n", "- a\n  - " + long + "\n- b\n", "- a\r\n  - b\r\n"} {
		for _, m := range wasmModes {
			c := tok.MakeConc(0, 1, true, allChunkIDs, nil)
			def := real.OutputMD(doc, m.opts(c)...)
			rq := m.req(c)
			rq.Doc = doc
			w := pool.Call(rq, 60*time.Second)
			r.Count("real_calls", 2)
			if (w.Class == "ok") != (def.Class() == "ok") || (w.Class == "ok" && w.Out != def.Out) {
				r.Mismatch("wasm-"+m.name+":long-or-crlf-input-differs", fmt.Sprintf("doc of %d bytes (%q...): default=%s tinywasm=%s", len(doc), doc[:12], def.Class(), w.Class), map[string]any{"doc_prefix": doc[:12], "len": len(doc)})
			}
		}
	}
	r.Count("random_documents", n)
}

// injectJumpAfterDedent inserts, after a line that is shallower than its predecessor, a line indented
// two levels deeper than that line (never well-formed, whatever was open further up before).
func injectJumpAfterDedent(rng *rand.Rand, doc [][]string) [][]string {
	indent := func(l []string) int {
		k := 0
		for k < len(l) && (l[k] == "SP" || l[k] == "TAB") {
			k++
		}
		return k
	}
	var cands []int
	for i := 1; i < len(doc); i++ {
		if indent(doc[i]) < indent(doc[i-1]) && len(doc[i]) > 0 && doc[i][0] != "SH" {
			cands = append(cands, i)
		}
	}
	if len(cands) == 0 {
		return doc
	}
	i := cands[rng.Intn(len(cands))]
	unit := []string{"SP", "SP"}
	for _, l := range doc {
		if k := indent(l); k > 0 {
			unit = l[:k]
			for j := 1; j <= k; j++ { // the smallest indentation seen is the unit
				if k%j == 0 && j < len(unit) {
				}
			}
			break
		}
	}
	ind := append([]string{}, doc[i][:indent(doc[i])]...)
	ind = append(ind, unit...)
	ind = append(ind, unit...)
	line := append(ind, "HY", "SP", "k9")
	out := append([][]string{}, doc[:i+1]...)
	out = append(out, line)
	return append(out, doc[i+1:]...)
}
