package main

import (
	"fmt"
	"time"

	"github.com/ddddddO/gtree"

	"verif/harness/evid"
	"verif/harness/real"
	"verif/harness/tok"
)

func init() { register("C01", "model_checking", checkC01) }

func branchOpts(c *tok.Conc) []gtree.Option {
	if c.IsDefaultBranches() {
		return nil
	}
	return (&real.Branches{LD: c.LD, LI: c.LI, MD: c.MD, MI: c.MI}).Opts()
}

type docReplay struct {
	Doc   [][]string `json:"doc_tokens"`
	Conc  *tok.Conc  `json:"concretisation"`
	Bytes string     `json:"doc_bytes"`
	Route string     `json:"route"`
	Want  string     `json:"want"`
	Got   string     `json:"got"`
	Err   string     `json:"err"`
}

// textRoutes: the simple-mode text printers reachable from Markdown
var textRoutes = []struct {
	name string
	opts []gtree.Option
}{
	{"md-text/iter", nil},
	{"md-text/slice", []gtree.Option{gtree.WithNoUseIterOfSimpleOutput()}},
}

// checkTextAccept: a well-formed document must print exactly the rule's rows and return nil.
func checkTextAccept(r *evid.Run, d *DocState, concs []*tok.Conc) {
	for _, c := range concs {
		doc := c.Doc(d.Doc)
		want := d.ExpectText(c)
		for _, rt := range textRoutes {
			opts := append(append([]gtree.Option{}, rt.opts...), branchOpts(c)...)
			o := real.OutputMD(doc, opts...)
			r.Count("real_calls", 1)
			if o.Class() != "ok" || o.Out != want {
				kind := "rows-differ"
				if o.Class() != "ok" {
					kind = "wellformed-" + o.Class()
				}
				r.Mismatch(rt.name+":"+kind,
					fmt.Sprintf("doc=%q conc=%s want=%q got=%q err=%v %s", doc, c.Name, want, o.Out, o.Err, firstLine(o.Panic)),
					docReplay{Doc: d.Doc, Conc: c, Bytes: doc, Route: rt.name, Want: want, Got: o.Out, Err: o.ErrString()})
			}
		}
	}
}

func firstLine(s string) string {
	for i := 0; i < len(s); i++ {
		if s[i] == '\n' {
			return s[:i]
		}
	}
	return s
}

func checkC01(r *evid.Run) {
	cfg, nconc, timeout := "MC_C01_quick.cfg", 7, 5*time.Minute
	if r.Tier == "thorough" {
		cfg, nconc, timeout = "MC_C01_thorough.cfg", 7, 30*time.Minute
	}
	concs := tok.Concs(r.Seed, nconc, allChunkIDs)
	concs = append(concs, tok.InvalidUTF8Conc(int(r.Seed), allChunkIDs)) // names are bytes: also bytes that are not UTF-8
	concs = append(concs, tok.HashTwinConc(int(r.Seed)+2, allChunkIDs))  // ... and equal only when their bytes are: names that collide under 32-bit hashes
	names := []string{}
	for _, c := range concs {
		names = append(names, c.Name)
	}
	r.Set("concretisations", names)
	runDocModel(r, modelRun{Module: "MC_C01", Cfg: cfg, Timeout: timeout}, func(d *DocState) {
		if d.Verdict != "accept" || len(d.Forest) == 0 {
			return // documents without a root are C12's claim
		}
		if d.Nodes() >= 3 {
			r.Count("distinct_nontrivial", 1)
		}
		if d.N%997 == 0 {
			r.Sample(map[string]any{"doc": docString(d.Doc), "rows": d.ExpectText(concs[0])})
		}
		// ... and under one more branch-string set, taken in turn from all of them (empty, unequal, ruled, blank-tail, ...)
		checkTextAccept(r, d, append(append([]*tok.Conc{}, concs...), tok.WithBranches(concs[0], d.N)))
	})
	sessionPhase(r) // Session.tla: the calls this property owns, after every other call of the alphabet
	r.Set("exhaustive", true)
	r.Set("rule", "every well-formed document of at most MaxLines item lines over the name set (every ordered forest with every pattern of repeated sibling names); non-trivial = at least 3 nodes")
	traceDocs(r, "C01", traceSpecC01)
	traceDocs(r, "C01", traceSpecBig)
	traceDocs(r, "C01", traceSpecFan) // one level of hundreds of siblings
	traceDocs(r, "C01", traceSpecDeep)
}
