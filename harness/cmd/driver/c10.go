package main

import (
	"fmt"
	"math/rand"
	"runtime"
	"sort"
	"strings"
	"time"

	"verif/harness/evid"
	"verif/harness/real"
	"verif/harness/tlcrun"
	"verif/harness/tok"
	"verif/harness/wproto"
)

func init() { register("C10", "model_checking", checkC10) }

// isBlockPermutation: out is a concatenation of the blocks in some order, each block in one piece.
func isBlockPermutation(out string, blocks []string) bool {
	used := make([]bool, len(blocks))
	var rec func(pos, left int) bool
	rec = func(pos, left int) bool {
		if left == 0 {
			return pos == len(out)
		}
		tried := map[string]bool{}
		for i, b := range blocks {
			if used[i] || tried[b] || !strings.HasPrefix(out[pos:], b) {
				continue
			}
			tried[b] = true
			used[i] = true
			if rec(pos+len(b), left-1) {
				return true
			}
			used[i] = false
		}
		return false
	}
	return rec(0, len(blocks))
}

func specBlocks(d *DocState, c *tok.Conc) []string {
	var out []string
	for _, b := range d.Blocks {
		var sb strings.Builder
		for _, row := range b {
			sb.WriteString(c.Seq(row) + "\n")
		}
		out = append(out, sb.String())
	}
	return out
}

func treeKey(t *real.DTree) string {
	var sb strings.Builder
	var rec func(t *real.DTree)
	rec = func(t *real.DTree) {
		sb.WriteString(fmt.Sprintf("%q[", t.Value))
		for _, k := range t.Children {
			rec(k)
		}
		sb.WriteString("]")
	}
	rec(t)
	return sb.String()
}

func specTreeKey(t *Tree, c *tok.Conc) string {
	var sb strings.Builder
	var rec func(t *Tree)
	rec = func(t *Tree) {
		sb.WriteString(fmt.Sprintf("%q[", c.Seq(t.Name)))
		for _, k := range t.Kids {
			rec(k)
		}
		sb.WriteString("]")
	}
	rec(t)
	return sb.String()
}

func sortedCopy(s []string) []string {
	o := append([]string{}, s...)
	sort.Strings(o)
	return o
}

type c10Replay struct {
	Doc     [][]string `json:"doc_tokens"`
	Bytes   string     `json:"doc_bytes"`
	Route   string     `json:"route"`
	Verdict string     `json:"spec_verdict"`
	Req     wproto.Req `json:"request"`
	Massive wproto.Rep `json:"massive"`
	Simple  wproto.Rep `json:"simple"`
}

func perturb(rq wproto.Req, rng *rand.Rand) wproto.Req {
	rq.Procs = []int{1, 2, 4, 16}[rng.Intn(4)]
	if rng.Intn(2) == 0 {
		rq.Delays = rng.Int63n(1<<30) + 1
	}
	rq.Yield = rng.Intn(2)
	return rq
}

// c10Sig: mismatches on documents that mix notations (grey zone of C02) are one class of finding: the
// shared parser state makes the massive-mode result depend on the parse order (ParserShared.tla).
func c10Sig(d *DocState, name, kind, doc string) string {
	switch {
	case d.Verdict == "grey" && d.Why == "heading-after-bullet-root":
		return "massive:schedule-dependent-parse:bullet-roots-before-heading"
	case (d.Verdict == "grey" && d.Why == "other-indent-char") || (d.Verdict == "reject" && d.Why == "mixed-across-lines"):
		return "massive:schedule-dependent-parse:mixed-indent-chars"
	}
	return name + ":" + kind + ":" + inputClass(splitLines(doc))
}

// checkMassiveState: one document through every operation, simple and massive, against the specification.
func checkMassiveState(r *evid.Run, pool *wproto.Pool, d *DocState, c *tok.Conc, rng *rand.Rand, routes []string) {
	doc := c.Doc(d.Doc)
	rooted := hasRootLine(d.Doc)
	br := []string{c.LD, c.LI, c.MD, c.MI}
	distinct := true
	seenRoot := map[string]bool{}
	for _, b := range d.Blocks {
		k := strings.Join(b[0], " ")
		if seenRoot[k] {
			distinct = false
		}
		seenRoot[k] = true
	}
	for _, route := range routes {
		// equally named roots are not settled for Mkdir and for strict Verify (DESIGN.md section 5); a non-strict Verify
		// of them is: every node path of every block has to exist, so the two modes must agree on nil / error
		repeated := route == "verify" && !distinct && d.Verdict == "accept"
		if (route == "mkdir" || route == "verify") && (!distinct || d.Verdict != "accept") && !repeated {
			continue
		}
		rq := wproto.Req{Doc: doc, Branches: br}
		switch route {
		case "text":
			rq.Op = "output"
		case "json":
			rq.Op, rq.Format, rq.Branches = "output", "json", nil
		case "yaml":
			rq.Op, rq.Format, rq.Branches = "output", "yaml", nil
		case "dryrun":
			rq.Op, rq.DryRun, rq.Exts = "output", true, []string{c.Seq([]string{"b"})}
		case "walk":
			rq.Op = "walk"
		case "mkdir":
			rq.Op, rq.Exts, rq.Branches = "mkdir", []string{c.Seq([]string{"b"})}, nil
		case "verify":
			rq.Op, rq.Strict, rq.Branches = "verify", true, nil
			rq.PreDoc = doc // the directories exist iff the simple mkdir accepts the document
			if repeated {
				// the directory holds the tree of the FIRST block of every root name only: what a later block of the same
				// name adds is missing, and both modes have to say so
				first := ""
				seen := map[string]bool{}
				for _, t := range d.Forest {
					k := strings.Join(t.Name, " ")
					if !seen[k] {
						first += canonDocTree(t, c)
					}
					seen[k] = true
				}
				rq.Strict, rq.PreLoose, rq.PreDoc = false, true, first
			}
		}
		simple := pool.Call(rq, 30*time.Second)
		mq := perturb(rq, rng)
		mq.Massive = true
		mq.Leaks = false
		massive := pool.Call(mq, 60*time.Second)
		r.Count("real_calls", 2)
		rep := c10Replay{Doc: d.Doc, Bytes: doc, Route: route, Verdict: d.Verdict, Req: mq, Massive: massive, Simple: simple}
		name := "massive-" + route
		if massive.Class == "panic" || massive.Class == "hang" {
			r.Mismatch(name+":"+massive.Class+":"+inputClass(splitLines(doc)), fmt.Sprintf("doc=%q: %s", doc, massive.Err), rep)
			continue
		}
		if simple.Class == "panic" || simple.Class == "hang" || strings.HasPrefix(simple.Err, "harness:") || strings.HasPrefix(massive.Err, "harness:") {
			continue // the simple mode's own crashes are C12's; a failed pre-mkdir means the case does not apply
		}
		// an error iff the simple mode has one (and, where the statement settles it, iff the specification says so)
		if (massive.Class == "ok") != (simple.Class == "ok") {
			kind := "error-only-in-massive"
			if massive.Class == "ok" {
				kind = "error-only-in-simple"
			}
			r.Mismatch(c10Sig(d, name, kind, doc), fmt.Sprintf("doc=%q simple=%s(%q) massive=%s(%q) out=%q", doc, simple.Class, simple.Err, massive.Class, massive.Err, massive.Out), rep)
			continue
		}
		if massive.Class != "ok" {
			continue
		}
		// a reader that fails half-way: both modes must report an error (C14 owns which one)
		if route == "text" && d.N%5 == 0 && len(doc) > 2 {
			half := len(doc) / 2
			fq := mq
			fq.ReadFail = &half
			// (the reader's error as it stands, or wrapping context.Canceled / DeadlineExceeded - an HTTP body whose request
			// was cancelled: an error of the input, whatever it wraps)
			fq.ErrWrap = []string{"", "canceled", "deadline"}[(d.N/5)%3]
			fm := pool.Call(fq, 60*time.Second)
			r.Count("real_calls", 1)
			if fm.Class == "ok" {
				r.Mismatch(name+":reader-failure-only-an-error-in-simple-mode", fmt.Sprintf("doc=%q reader fails after %d bytes (error wraps %q): massive returned nil, out=%q", doc, half, fq.ErrWrap, fm.Out), rep)
			}
		}
		accept := d.Verdict == "accept" && rooted
		switch route {
		case "text":
			ok := false
			if accept {
				ok = isBlockPermutation(massive.Out, specBlocks(d, c))
			} else {
				ok = sortedLines(massive.Out) == sortedLines(simple.Out)
			}
			if !ok {
				r.Mismatch(c10Sig(d, name, "not-a-permutation-of-root-blocks", doc), fmt.Sprintf("doc=%q simple=%q massive=%q", doc, simple.Out, massive.Out), rep)
			}
		case "json", "yaml":
			dec := real.DecodeJSON
			if route == "yaml" {
				dec = real.DecodeYAML
			}
			mt, err1 := dec(massive.Out)
			st, err2 := dec(simple.Out)
			var mk, sk []string
			for _, t := range mt {
				mk = append(mk, treeKey(t))
			}
			for _, t := range st {
				sk = append(sk, treeKey(t))
			}
			if accept {
				sk = nil
				for _, t := range d.Forest {
					sk = append(sk, specTreeKey(t, c))
				}
			}
			if err1 != nil || err2 != nil || !sameStrs(sortedCopy(mk), sortedCopy(sk)) {
				r.Mismatch(c10Sig(d, name, "roots-differ", doc), fmt.Sprintf("doc=%q simple=%q massive=%q (%v)", doc, simple.Out, massive.Out, err1), rep)
			}
		case "dryrun":
			want := splitReport(simple.Out)
			if accept {
				want = splitReport(dryRunReport(d, c, rq.Exts))
			}
			if !isBlockPermutation(massive.Out, want) {
				r.Mismatch(c10Sig(d, name, "report-not-a-permutation", doc), fmt.Sprintf("doc=%q simple=%q massive=%q", doc, simple.Out, massive.Out), rep)
			}
		case "walk":
			if !sameStrs(sortedCopy(massive.Walk), sortedCopy(simple.Walk)) {
				r.Mismatch(c10Sig(d, name, "visits-differ", doc), fmt.Sprintf("doc=%q simple=%q massive=%q", doc, simple.Walk, massive.Walk), rep)
			} else if accept && !walkOrderPreserved(massive.Walk, d, c) {
				r.Mismatch(name+":order-inside-a-root-not-preserved", fmt.Sprintf("doc=%q simple=%q massive=%q", doc, simple.Walk, massive.Walk), rep)
			}
		case "mkdir":
			if !sameStrs(massive.Entries, simple.Entries) {
				r.Mismatch(c10Sig(d, name, "different-filesystem", doc), fmt.Sprintf("doc=%q simple=%v massive=%v", doc, simple.Entries, massive.Entries), rep)
			}
		}
	}
}

// checkMassiveFromRoot: the first tree of an accepted document, built with NewRoot/Add, through the From-Root
// operations with and without the massive option: one root, so the results are equal, not equal up to order.
func checkMassiveFromRoot(r *evid.Run, pool *wproto.Pool, d *DocState, c *tok.Conc, rng *rand.Rand) {
	if d.Verdict != "accept" || len(d.Forest) == 0 {
		return
	}
	var items []wproto.Item
	var rec func(t *Tree, depth int)
	rec = func(t *Tree, depth int) {
		items = append(items, wproto.Item{D: depth, N: c.Seq(t.Name)})
		for _, k := range t.Kids {
			rec(k, depth+1)
		}
	}
	rec(d.Forest[0], 1)
	br := []string{c.LD, c.LI, c.MD, c.MI}
	plain := items
	for _, route := range []string{"root-text", "root-json", "root-dryrun", "root-walk", "root-dryrun-hostile", "root-text-hostile"} {
		items := plain
		if strings.HasSuffix(route, "-hostile") {
			// the same tree with a name that is not a path element in its last node: dry run rejects it, plain output draws it
			if len(plain) < 2 {
				continue
			}
			items = append([]wproto.Item{}, plain...)
			items[len(items)-1].N += "/x"
		}
		rq := wproto.Req{Route: "root", Items: items, Branches: br, Alias: d.N%3 == 0}
		switch route {
		case "root-text", "root-text-hostile":
			rq.Op = "output"
		case "root-json":
			rq.Op, rq.Format, rq.Branches = "output", "json", nil
		case "root-dryrun", "root-dryrun-hostile":
			rq.Op, rq.DryRun, rq.Exts = "output", true, []string{c.Seq([]string{"b"})}
		case "root-walk":
			rq.Op = "walk"
		}
		simple := pool.Call(rq, 30*time.Second)
		mq := perturb(rq, rng)
		mq.Massive = true
		massive := pool.Call(mq, 60*time.Second)
		r.Count("real_calls", 2)
		rep := c10Replay{Doc: d.Doc, Bytes: c.Doc(d.Doc), Route: route, Verdict: d.Verdict, Req: mq, Massive: massive, Simple: simple}
		name := "massive-" + route
		if massive.Class == "panic" || massive.Class == "hang" {
			r.Mismatch(name+":"+massive.Class, fmt.Sprintf("items=%v: %s", items, massive.Err), rep)
			continue
		}
		if simple.Class == "panic" || simple.Class == "hang" {
			continue
		}
		switch {
		case (massive.Class == "ok") != (simple.Class == "ok"):
			kind := "error-only-in-massive"
			if massive.Class == "ok" {
				kind = "error-only-in-simple"
			}
			r.Mismatch(name+":"+kind, fmt.Sprintf("items=%v simple=%s(%q) massive=%s(%q) out=%q", items, simple.Class, simple.Err, massive.Class, massive.Err, massive.Out), rep)
		case massive.Class == "ok" && (massive.Out != simple.Out || !sameStrs(massive.Walk, simple.Walk)):
			r.Mismatch(name+":result-differs", fmt.Sprintf("items=%v simple=%q %q massive=%q %q", items, simple.Out, simple.Walk, massive.Out, massive.Walk), rep)
		}
	}
}

// walkOrderPreserved: for forests whose root blocks have pairwise disjoint rows, the callbacks of each
// root appear in the root's own (pre-)order.
func walkOrderPreserved(rows []string, d *DocState, c *tok.Conc) bool {
	owner := map[string]int{}
	for i, b := range d.Blocks {
		for _, row := range b {
			s := c.Seq(row)
			if o, ok := owner[s]; ok && o != i {
				return true // ambiguous: rows shared between roots, only the multiset is compared
			}
			owner[s] = i
		}
	}
	pos := make([]int, len(d.Blocks))
	for _, row := range rows {
		i := owner[row]
		b := d.Blocks[i]
		// the next expected row of root i (rows may repeat inside a root: accept the first match from pos)
		if pos[i] >= len(b) || c.Seq(b[pos[i]]) != row {
			return false
		}
		pos[i]++
	}
	return true
}

func checkC10(r *evid.Run) {
	thorough := r.Tier == "thorough"
	// 1. the specified pipeline: per-root blocks come out whole, once, and only for blocks that did not
	//    fail; nil iff nothing failed (the same configurations also carry C11's invariants)
	var cfgs []string
	for _, s := range pipeSinks {
		cfgs = append(cfgs, "MC_Pipe_faults_"+s+".cfg")
		if thorough {
			cfgs = append(cfgs, "MC_Pipe_faults3_"+s+".cfg", "MC_Pipe_reader_"+s+".cfg")
		}
	}
	cfgs = append(cfgs, "MC_Pipe_root_text.cfg", "MC_Pipe_root_walk.cfg")
	runPipeModels(r, cfgs, 4, 30*time.Minute)
	r.Set("model_configs", cfgs)
	parserSharedModels(r)

	// 2. every document of the spelling model (all notations incl. # roots, blank lines, CRLF) and of the
	//    malformed-line pool, simple vs massive vs specification, under perturbed schedules
	pool := workerPool(r, runtime.NumCPU())
	if pool == nil {
		return
	}
	defer pool.Close()
	tier := "quick"
	if thorough {
		tier = "thorough"
	}
	routes := []string{"text", "json", "yaml", "dryrun", "walk", "mkdir", "verify"}
	concs := tok.Concs(r.Seed, 2, allChunkIDs)
	conc := concs[1]
	stride := map[string]int{"MC_C15": 3, "MC_C02": 1, "MC_C01": 2}
	if thorough {
		stride = map[string]int{"MC_C15": 7, "MC_C02": 1, "MC_C01": 2}
	}
	for _, m := range []string{"MC_C15", "MC_C02", "MC_C01"} {
		mod := m
		runDocModel(r, modelRun{Module: mod, Cfg: mod + "_" + tier + ".cfg", Timeout: 40 * time.Minute}, func(d *DocState) {
			if len(d.Doc) == 0 || d.N%stride[mod] != 0 {
				return
			}
			if len(d.Blocks) >= 2 {
				r.Count("distinct_nontrivial", 1)
			}
			rng := rand.New(rand.NewSource(r.Seed*1000003 + int64(d.N)))
			rs := routes
			if d.N%(4*stride[mod]) != 0 {
				rs = routes[:5] // the filesystem routes on every fourth document
			}
			if d.N%1777 == 0 {
				r.Sample(map[string]any{"doc": conc.Doc(d.Doc), "verdict": d.Verdict, "sigma": d.Sigma})
			}
			cn := *conc
			cn.FinalNL = (d.N/stride[mod])%2 == 0 // every other document ends without a final newline
			checkMassiveState(r, pool, d, &cn, rng, rs)
			if d.N%(3*stride[mod]) == 0 {
				checkMassiveFromRoot(r, pool, d, &cn, rng) // the From-Root family on every third document
			}
		})
	}
	bigRoots(r, pool)
	longLinesAndBlocks(r, pool)
	reproduceOpenC10(r, pool)
	r.Set("exhaustive", false)
	r.Set("rule", "documents of the spelling model MC_C15 (every notation incl. # roots, blank lines, CRLF; a third of the states), of the malformed-line pool MC_C02 (all states) and of MC_C01 (half), each run through text, JSON, YAML, dry-run, walk (all) and mkdir, verify (every fourth) in simple and in massive mode with GOMAXPROCS in {1,2,4,16}, seeded hook delays and yielding reader/writer/callback; massive output must be a permutation of the specification's per-root blocks, each in one piece; error iff simple mode; same filesystem; the first tree of every third accepted document also built with NewRoot/Add and run through the From-Root operations (text, JSON, dry-run, walk) with and without the massive option (equal results); non-trivial = at least 2 roots")
}

// parserSharedModels: the generator stage with its shared parser (ParserShared.tla). Documents in one
// notation must agree with the sequential generator for every interleaving; for documents that mix
// notations TLC is expected to return the order-dependence that the drivers reproduce (open finding).
func parserSharedModels(r *evid.Run) {
	for _, cfg := range []string{"MC_PS_one.cfg", "MC_PS_bullets.cfg", "MC_PS_headings.cfg"} {
		res, err := tlcrun.Run(tlcrun.Opts{SpecDir: specDir, Module: "MC_PS", Cfg: cfg, Timeout: 15 * time.Minute}, nil)
		if err != nil || res.Violated != "" || res.ErrorText != "" {
			r.Broken("ParserShared (%s) fails: %v %s %s\n%s", cfg, err, res.Violated, res.ErrorText, tail(res))
			return
		}
		r.Count("states", res.Distinct)
		r.Count("transitions", res.Generated)
		fmt.Printf("model MC_PS/%s: %d distinct states: every interleaving of 2 workers agrees with the sequential generator\n", cfg, res.Distinct)
	}
	res2, err := tlcrun.Run(tlcrun.Opts{SpecDir: specDir, Module: "MC_PS", Cfg: "MC_PS_mixed.cfg", Timeout: 10 * time.Minute}, nil)
	if err == nil {
		r.Set("parser_shared_mixed_notation_counterexample", res2.Violated)
	}
}

// reproduceOpenC10 re-runs the specific inputs of the open findings (KNOWN_FINDINGS) so that each is
// reported on every run while it is still there: the first with a forced schedule (the "- a" block is
// held at its receive until the "# b" block has been parsed), the second by repetition.
func reproduceOpenC10(r *evid.Run, pool *wproto.Pool) {
	d1 := &DocState{Verdict: "grey", Why: "heading-after-bullet-root"}
	doc1 := "- a\n# b\n- c\n"
	plan := []wproto.PlanStep{{Point: "gen.send.pre", Item: "# b\n- c\n"}, {Point: "gen.recv.post", Item: "- a\n"}}
	for k := 0; k < 20; k++ {
		rp := pool.Call(wproto.Req{Op: "output", Doc: doc1, Massive: true, Plan: plan}, 30*time.Second)
		r.Count("real_calls", 1)
		if !rp.Unforced && rp.PlanDone == len(plan) && rp.Class == "err" {
			r.Mismatch(c10Sig(d1, "massive-text", "error-only-in-massive", doc1), fmt.Sprintf("doc=%q forced order: block \"# b\" parsed before block \"- a\": massive=%q, simple mode renders a / b{c}", doc1, rp.Err), rp)
			break
		}
	}
	d2 := &DocState{Verdict: "grey", Why: "other-indent-char"}
	doc2 := "* b\n* c\n\t- a\n  + d\n* e\n* f\n"
	for k := 0; k < 400; k++ {
		rp := pool.Call(wproto.Req{Op: "output", Doc: doc2, Massive: true, Delays: int64(k + 1), Procs: []int{2, 4, 16}[k%3]}, 30*time.Second)
		r.Count("real_calls", 1)
		if rp.Class == "ok" {
			r.Mismatch(c10Sig(d2, "massive-text", "error-only-in-simple", doc2), fmt.Sprintf("doc=%q: simple mode rejects the space-indented line, massive returned nil with %q (attempt %d)", doc2, rp.Out, k+1), rp)
			break
		}
	}
}

// bigRoots: roots whose printed form exceeds any buffer size in use (several KiB each), written through
// a yielding writer by several sink workers at once: every root block must still come out in one piece.
// longLinesAndBlocks: what the line scanner's limits are about - a line of several KiB (below the 64 KiB limit both modes
// share) and a root block far beyond 64 KiB: both modes accept them and give the same result.
func longLinesAndBlocks(r *evid.Run, pool *wproto.Pool) {
	docs := map[string]string{
		"line-5000":  "- a\n  - " + strings.Repeat("n", 5000) + "\n    - below\n- b\n",
		"line-40000": "- " + strings.Repeat("r", 40000) + "\n  - c\n- b\n  - d\n",
		"block-100KiB": func() string {
			var sb strings.Builder
			sb.WriteString("- first\n  - x\n- big\n")
			for i := 0; sb.Len() < 100<<10; i++ {
				fmt.Fprintf(&sb, "  - child %d\n", i)
			}
			sb.WriteString("- last\n")
			return sb.String()
		}(),
	}
	for name, doc := range docs {
		for _, route := range []string{"text", "json", "walk"} {
			rq := wproto.Req{Op: "output", Doc: doc}
			switch route {
			case "json":
				rq.Format = "json"
			case "walk":
				rq.Op = "walk"
			}
			simple := pool.Call(rq, 60*time.Second)
			mq := rq
			mq.Massive = true
			massive := pool.Call(mq, 120*time.Second)
			r.Count("real_calls", 2)
			same := simple.Class == massive.Class && sortedLines(simple.Out) == sortedLines(massive.Out) && sameStrs(sortedCopy(simple.Walk), sortedCopy(massive.Walk))
			if simple.Class != "ok" || !same {
				r.Mismatch("massive-"+route+":long-line-or-block:"+name, fmt.Sprintf("document %s (%d bytes): simple=%s(%q) %d bytes out, massive=%s(%q) %d bytes out", name, len(doc), simple.Class, clip(simple.Err, 100), len(simple.Out), massive.Class, clip(massive.Err, 100), len(massive.Out)),
					map[string]any{"document": name, "route": route})
			}
		}
	}
}

func bigRoots(r *evid.Run, pool *wproto.Pool) {
	for rep, nroots := range []int{6, 12} {
		var doc strings.Builder
		var blocks []string
		for i := 0; i < nroots; i++ {
			var b strings.Builder
			fmt.Fprintf(&b, "- root%d\n", i)
			for k := 0; k < 150+40*i; k++ {
				fmt.Fprintf(&b, "  - child%d-%d\n    - leaf with a longer name %d\n", i, k, k)
			}
			doc.WriteString(b.String())
		}
		simple := pool.Call(wproto.Req{Op: "output", Doc: doc.String()}, 60*time.Second)
		if simple.Class != "ok" {
			r.Broken("bigRoots: simple mode failed: %s", simple.Err)
			return
		}
		// the simple output cut at the root lines
		cur := ""
		for _, l := range strings.SplitAfter(simple.Out, "\n") {
			if strings.HasPrefix(l, "root") && cur != "" {
				blocks = append(blocks, cur)
				cur = ""
			}
			cur += l
		}
		blocks = append(blocks, cur)
		// (the writer sleeps inside every Write of 1 KiB or more - what a buffered writer flushes: sinks that flush outside
		// their lock overlap for sure; the line-by-line writes of the sinks as they are stay fast)
		for _, procs := range []int{2, 4, 16, 16, 8} {
			for _, route := range []string{"text", "dryrun"} {
				rq := wproto.Req{Op: "output", Doc: doc.String(), Massive: true, Procs: procs, Yield: 1, WBig: 300, Delays: int64(rep*10 + procs)}
				want := blocks
				if route == "dryrun" {
					rq.DryRun = true
					sd := pool.Call(wproto.Req{Op: "output", Doc: doc.String(), DryRun: true}, 60*time.Second)
					want = splitReport(sd.Out)
				}
				m := pool.Call(rq, 120*time.Second)
				r.Count("real_calls", 1)
				if m.Class != "ok" || !isBlockPermutation(m.Out, want) {
					r.Mismatch("massive-"+route+":big-root-blocks-torn-or-lost", fmt.Sprintf("%d roots of several KiB each, GOMAXPROCS=%d: class=%s err=%q, %d bytes written, simple mode %d bytes; not a permutation of whole root blocks", nroots, procs, m.Class, m.Err, len(m.Out), len(simple.Out)),
						map[string]any{"roots": nroots, "procs": procs, "route": route})
				}
			}
		}
	}
}
