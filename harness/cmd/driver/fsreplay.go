package main

import (
	"fmt"
	"io/fs"
	"os"
	"path/filepath"
	"runtime"
	"sort"
	"strings"
	"sync"
	"time"

	"verif/harness/evid"
	"verif/harness/tla"
	"verif/harness/tlcrun"
	"verif/harness/tok"
	"verif/harness/wproto"
)

type fsItem struct {
	D int
	N []string
}

type fsCall struct {
	Op     string
	Route  string
	Exts   [][]string
	Dry    bool
	Strict bool
	Path   []string
	Entry  string
}

type fsRes struct {
	K       string
	Extra   [][]string
	Missing [][]string
	Counts  [][2]int
}

type absFS struct{ Dirs, Files [][]string }

type fsState struct {
	N     int
	Items []fsItem
	Pre   absFS
	Post  absFS
	Hist  []fsCall
	Res   fsRes
}

func setOfSeqs(v tla.Value) [][]string {
	var out [][]string
	for _, e := range v.(tla.Set) {
		out = append(out, tla.Strs(e))
	}
	return out
}

func absFSOf(v tla.Value) absFS {
	r := tla.R(v)
	return absFS{Dirs: setOfSeqs(r["dirs"]), Files: setOfSeqs(r["files"])}
}

func fsStateOf(st *tla.State) *fsState {
	s := &fsState{N: st.N}
	if tla.S(st.Get("phase")) != "ops" {
		return nil
	}
	h := tla.Q(st.Get("hist"))
	if len(h) == 0 {
		return nil
	}
	for _, it := range tla.Q(st.Get("items")) {
		r := tla.R(it)
		s.Items = append(s.Items, fsItem{D: tla.I(r["d"]), N: tla.Strs(r["n"])})
	}
	for _, c := range h {
		r := tla.R(c)
		s.Hist = append(s.Hist, fsCall{Op: tla.S(r["op"]), Route: tla.S(r["route"]), Exts: setOfSeqs(r["exts"]), Dry: tla.B(r["dry"]),
			Strict: tla.B(r["strict"]), Path: tla.Strs(r["path"]), Entry: tla.S(r["entry"])})
	}
	s.Pre, s.Post = absFSOf(st.Get("pre")), absFSOf(st.Get("fs"))
	rr := tla.R(st.Get("res"))
	s.Res = fsRes{K: tla.S(rr["k"]), Extra: setOfSeqs(rr["extra"]), Missing: setOfSeqs(rr["missing"])}
	for _, c := range tla.Q(rr["counts"]) {
		q := tla.Q(c)
		s.Res.Counts = append(s.Res.Counts, [2]int{tla.I(q[0]), tla.I(q[1])})
	}
	return s
}

// concretisations for the filesystem layer: chunk strings such that a token suffix is a byte suffix
var fsPools = []map[string]string{
	{"a": "a", "b": "b", "f": "f", "x": "x", "e": "e"},
	{"a": "αa", "b": "βb", "f": "файл", "x": "go", "e": "é"},
	{"a": "dir_a", "b": "Makefile", "f": "main", "x": "GO", "e": "zzz"},
	{"a": "a'q\"", "b": "b$HOME", "f": "f%s", "x": "x~", "e": "e:1"},
	{"a": "v[1]", "b": "v*", "f": "f?q", "x": "x", "e": "[e\\"}, // names that are patterns to a glob matcher
}

func fsConc(i int) *tok.Conc {
	c := &tok.Conc{Name: fmt.Sprintf("fspool%d", i%len(fsPools)), Chunks: map[string]string{"t": "t", "s": "s", "k": "k", "L": strings.Repeat("L", 256), "U": "caf\xe9"},
		WS: " ", LD: "└──", LI: "    ", MD: "├──", MI: "│   ", FinalNL: true}
	for k, v := range fsPools[i%len(fsPools)] {
		c.Chunks[k] = v
	}
	c.Chunks["A"] = strings.ToUpper(c.Chunks["a"]) // differs from the required name "a" by letter case only
	return c
}

// jail: scratch/j1/j2/jail ; the model's paths are relative to jail, ".." prefixes land inside scratch
type jail struct{ scratch, root string }

func newJail() (*jail, error) {
	s, err := os.MkdirTemp("", "verif-fs-")
	if err != nil {
		return nil, err
	}
	j := &jail{scratch: s, root: filepath.Join(s, "j1", "j2", "jail")}
	if err := os.MkdirAll(j.root, 0o755); err != nil {
		return j, err
	}
	// the directories ABOVE the jail get an unusual mode: a chmod that walks up past the target shows in ancestors()
	for _, d := range []string{j.root, filepath.Dir(j.root), filepath.Dir(filepath.Dir(j.root))} {
		os.Chmod(d, 0o750)
	}
	return j, nil
}

// ancestors: the modes of the directories above the jail (nothing a call does may change them)
func (j *jail) ancestors() string {
	var out []string
	for _, d := range []string{j.scratch, filepath.Join(j.scratch, "j1"), filepath.Join(j.scratch, "j1", "j2"), j.root} {
		fi, err := os.Stat(d)
		if err != nil {
			out = append(out, "missing")
		} else {
			out = append(out, fmt.Sprintf("%o", fi.Mode().Perm()))
		}
	}
	return strings.Join(out, ",")
}

func (j *jail) close() { os.RemoveAll(j.scratch) }

func (j *jail) materialise(a absFS, c *tok.Conc) error {
	dirs := append([][]string{}, a.Dirs...)
	sort.Slice(dirs, func(x, y int) bool { return len(dirs[x]) < len(dirs[y]) })
	for _, d := range dirs {
		// an unusual mode, so that a chmod of a pre-existing directory shows up in the snapshot
		if err := os.MkdirAll(filepath.Join(j.root, c.Seq(d)), 0o750); err != nil {
			return err
		}
		os.Chmod(filepath.Join(j.root, c.Seq(d)), 0o750)
	}
	for _, f := range a.Files {
		p := filepath.Join(j.root, c.Seq(f))
		if err := os.WriteFile(p, []byte("sentinel:"+c.Seq(f)), 0o644); err != nil {
			return err
		}
	}
	return nil
}

// snapshot: path relative to the jail root -> "d" | "f:<content>"
func (j *jail) snapshot() map[string]string {
	out := map[string]string{}
	anc := map[string]bool{j.scratch: true, filepath.Join(j.scratch, "j1"): true, filepath.Join(j.scratch, "j1", "j2"): true, j.root: true}
	filepath.WalkDir(j.scratch, func(p string, d fs.DirEntry, err error) error {
		if err != nil || anc[p] {
			return nil
		}
		rel, _ := filepath.Rel(j.root, p)
		if d.IsDir() {
			out[rel] = "d"
			if fi, e := d.Info(); e == nil && fi.Mode().Perm() != 0o755 {
				out[rel] = fmt.Sprintf("d%o", fi.Mode().Perm()) // (directories gtree makes are 0755)
			}
		} else {
			b, _ := os.ReadFile(p)
			out[rel] = "f:" + string(b)
		}
		return nil
	})
	return out
}

func expectSnapshot(a absFS, pre map[string]string, c *tok.Conc) map[string]string {
	out := map[string]string{}
	for _, d := range a.Dirs {
		p := filepath.Clean(c.Seq(d))
		out[p] = "d"
		if old, ok := pre[p]; ok {
			out[p] = old // pre-existing directories keep their mode
		}
	}
	for _, f := range a.Files {
		p := filepath.Clean(c.Seq(f))
		if old, ok := pre[p]; ok {
			out[p] = old // pre-existing files keep their content
		} else {
			out[p] = "f:" // created files are empty
		}
	}
	return out
}

func diffSnap(want, got map[string]string) string {
	var d []string
	for p, k := range want {
		if g, ok := got[p]; !ok {
			d = append(d, "missing "+p)
		} else if g != k {
			d = append(d, fmt.Sprintf("%s is %q, want %q", p, g, k))
		}
	}
	for p, k := range got {
		if _, ok := want[p]; !ok {
			d = append(d, fmt.Sprintf("unexpected %s (%s)", p, k))
		}
	}
	sort.Strings(d)
	return strings.Join(d, "; ")
}

func canonItemsDoc(items []fsItem, c *tok.Conc) string {
	var sb strings.Builder
	for _, it := range items {
		sb.WriteString(strings.Repeat("  ", it.D-1) + "- " + c.Seq(it.N) + "\n")
	}
	return sb.String()
}

// extStrings spells the model's extension SET as the list handed to WithFileExtensions: which extensions are in it is
// all that matters, so the list is (depending on its content) sorted, or rotated, or has its first entry once more
// at the end ("-e .go -e .md -e .go").
func extStrings(exts [][]string, c *tok.Conc) []string {
	out := []string{}
	for _, e := range exts {
		out = append(out, c.Seq(e))
	}
	sort.Strings(out)
	if len(out) == 0 {
		return out
	}
	h := 0
	for _, e := range out {
		for i := 0; i < len(e); i++ {
			h = h*31 + int(e[i])
		}
		h += 7
	}
	if h < 0 {
		h = -h
	}
	switch h % 3 {
	case 1:
		out = append(out[1:], out[0])
	case 2:
		out = append(out[1:], out[0], out[len(out)-1])
		if len(out) > 2 {
			out = append(out, out[1])
		}
	}
	return out
}

func parseVerifyErr(msg, jailRoot string) (extra, missing []string) {
	mode := ""
	for _, l := range strings.Split(msg, "\n") {
		switch {
		case strings.HasPrefix(l, "Extra paths exist:"):
			mode = "extra"
		case strings.HasPrefix(l, "Required paths does not exist:"):
			mode = "missing"
		case strings.HasPrefix(l, "\t"):
			p := strings.TrimPrefix(l, "\t")
			if filepath.IsAbs(p) {
				if rel, err := filepath.Rel(jailRoot, p); err == nil {
					p = rel
				}
			} else if rel, err := filepath.Rel(filepath.Base(jailRoot), filepath.Clean(p)); err == nil {
				// the target was handed over relative to the jail's parent directory ("jail//t"): so are the listed paths
				p = rel
			}
			if mode == "extra" {
				extra = append(extra, p)
			} else if mode == "missing" {
				missing = append(missing, p)
			}
		}
	}
	sort.Strings(extra)
	sort.Strings(missing)
	return
}

func concPaths(ps [][]string, c *tok.Conc) []string {
	out := []string{}
	for _, p := range ps {
		out = append(out, filepath.Clean(c.Seq(p)))
	}
	sort.Strings(out)
	return out
}

func sameStrs(a, b []string) bool {
	if len(a) != len(b) {
		return false
	}
	for i := range a {
		if a[i] != b[i] {
			return false
		}
	}
	return true
}

type fsFacts struct {
	allPlain, distinctRoots, hostile, noLong bool
	nroots                                   int
}

func factsOf(items []fsItem) fsFacts {
	f := fsFacts{allPlain: true, distinctRoots: true, noLong: true}
	roots := map[string]bool{}
	for _, it := range items {
		nm := strings.Join(it.N, " ")
		hasSL := false
		for _, t := range it.N {
			if t == "SL" {
				hasSL = true
			}
			if t == "L" {
				f.noLong = false
			}
		}
		if hasSL || nm == "DOT" || nm == "DOT DOT" {
			f.allPlain = false
		}
		if hasSL || nm == "DOT DOT" || (it.D > 1 && nm == "DOT") {
			f.hostile = true
		}
		if it.D == 1 {
			f.nroots++
			if roots[nm] {
				f.distinctRoots = false
			}
			roots[nm] = true
		}
	}
	return f
}

type fsReplayRec struct {
	Items   []fsItem   `json:"items"`
	Conc    string     `json:"conc"`
	Pre     absFS      `json:"fs_before"`
	Call    fsCall     `json:"call"`
	Massive bool       `json:"massive"`
	Req     wproto.Req `json:"request"`
	Rep     wproto.Rep `json:"reply"`
	Diff    string     `json:"snapshot_diff"`
}

// fsOutcome is what one real call did, projected.
type fsOutcome struct {
	ancBefore, ancAfter string // modes of the directories above the jail
	rp                  wproto.Rep
	before              map[string]string
	after               map[string]string
	jailRoot            string
	req                 wproto.Req
}

// runFsCall materialises `pre`, performs the last call of the history on the real library (in a worker
// process: dry-run reports go to the process-wide color.Output) and snapshots the jail.
func runFsCall(pool *wproto.Pool, s *fsState, c *tok.Conc, massive, alias bool) (*fsOutcome, error) {
	return runFsCallVia(pool, s, c, massive, alias, "")
}

// runFsCallVia: linkRoot != "" moves the directory t/<linkRoot> aside and leaves a symbolic link to it in its place
// before the call (what exists behind a link exists: Stat follows it)
func runFsCallVia(pool *wproto.Pool, s *fsState, c *tok.Conc, massive, alias bool, linkRoot string) (*fsOutcome, error) {
	j, err := newJail()
	if err != nil {
		return nil, err
	}
	defer j.close()
	if err := j.materialise(s.Pre, c); err != nil {
		return nil, err
	}
	if linkRoot != "" {
		at := filepath.Join(j.root, "t", linkRoot)
		if err := os.Rename(at, filepath.Join(j.root, "moved-aside")); err != nil {
			return nil, err
		}
		if err := os.Symlink(filepath.Join("..", "moved-aside"), at); err != nil {
			return nil, err
		}
	}
	call := s.Hist[len(s.Hist)-1]
	rq := wproto.Req{Op: call.Op, Target: filepath.Join(j.root, "t"), Massive: massive, DryRun: call.Dry, Strict: call.Strict, Alias: alias,
		Branches: nil, Route: call.Route}
	if call.Op == "mkdir" || (call.Op == "output" && call.Dry) {
		rq.Exts = extStrings(call.Exts, c)
	}
	if call.Route == "root" {
		for _, it := range s.Items {
			rq.Items = append(rq.Items, wproto.Item{D: it.D, N: c.Seq(it.N)})
		}
		// the same tree has usually been used before: what an earlier operation did to it must not matter
		rq.PreOps = [][]string{nil, {"output"}, {"walk"}, {"json", "walkiter"}, {"massive-output"}, {"mkdir-elsewhere"}, {"mkdir-elsewhere", "output"}, {"dry-color"}}[s.N%8]
	} else {
		rq.Doc = canonItemsDoc(s.Items, c)
	}
	// the target directory is handed over in one of six spellings of the same path (five of them relative)
	rq.TargetSpell = []string{"", "slash", "dot", "dslash", "dotin", "dotdot"}[s.N%6]
	if massive {
		// the relative spellings need the worker to change its directory for the duration of the call; goroutines of a
		// failed or cancelled massive call may still be creating directories when it has returned and the directory
		// has been changed back: massive calls get the plain absolute spelling
		rq.TargetSpell = ""
	}
	o := &fsOutcome{before: j.snapshot(), jailRoot: j.root, req: rq, ancBefore: j.ancestors()}
	o.rp = pool.Call(rq, 30*time.Second)
	o.after = j.snapshot()
	o.ancAfter = j.ancestors()
	return o, nil
}

// runFsModel model-checks an MC_Fs instance and hands every operation state to each.
func runFsModel(r *evid.Run, cfg string, timeout time.Duration, each func(s *fsState)) *tlcrun.Result {
	ch := make(chan *tla.State, 256)
	var wg sync.WaitGroup
	for i := 0; i < runtime.NumCPU(); i++ {
		wg.Add(1)
		go func() {
			defer wg.Done()
			for st := range ch {
				if s := fsStateOf(st); s != nil {
					each(s)
				}
			}
		}()
	}
	res, err := tlcrun.Run(tlcrun.Opts{SpecDir: specDir, Module: "MC_FsC", Cfg: cfg, Timeout: timeout, Dump: true},
		func(st *tla.State) error { ch <- st; return nil })
	close(ch)
	wg.Wait()
	if err != nil {
		r.Broken("TLC MC_FsC/%s: %v\n%s", cfg, err, tail(res))
		return res
	}
	if res.Violated != "" || res.ErrorText != "" {
		r.Broken("the specified design violates its own property in MC_FsC/%s: %s %s\n%s", cfg, res.Violated, res.ErrorText, tail(res))
		return res
	}
	if res.Distinct == 0 || res.Dumped != res.Distinct {
		r.Broken("TLC MC_FsC/%s: %d distinct states but %d dumped", cfg, res.Distinct, res.Dumped)
	}
	r.Count("states", res.Distinct)
	r.Count("transitions", res.Generated)
	fmt.Printf("model MC_FsC/%s: %d distinct states, %d generated, depth %d, %.1fs\n", cfg, res.Distinct, res.Generated, res.Depth, res.Wall.Seconds())
	return res
}

func itemsString(items []fsItem) string {
	var p []string
	for _, it := range items {
		p = append(p, fmt.Sprintf("%d:%s", it.D, strings.Join(it.N, "")))
	}
	return strings.Join(p, " ")
}
