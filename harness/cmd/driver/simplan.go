package main

import (
	"fmt"
	"os"
	"sort"
	"strings"
	"sync"
	"time"

	"verif/harness/evid"
	"verif/harness/tla"
	"verif/harness/tlcrun"
	"verif/harness/wproto"
)

// Spec -> Impl for the pipeline: behaviours sampled by TLC (-simulate) from Pipeline.tla are projected
// onto hook events and forced on the real goroutines with the plan gate; the forced run must satisfy
// the property-level oracle and its recorded trace is validated against the specification.

func procKey(v tla.Value) string {
	r := tla.R(v)
	return fmt.Sprintf("%s/%s/%d", tla.S(r["t"]), tla.S(r["s"]), tla.I(r["i"]))
}

func fnStrings(v tla.Value) map[string]string {
	out := map[string]string{}
	if f, ok := v.(tla.Fn); ok {
		for _, p := range f {
			out[procKey(p.K)] = tla.S(p.V)
		}
	}
	return out
}

func fnInts(v tla.Value) map[string]int {
	out := map[string]int{}
	if f, ok := v.(tla.Fn); ok {
		for _, p := range f {
			out[procKey(p.K)] = tla.I(p.V)
		}
	}
	return out
}

func recInts(v tla.Value) map[string]int {
	out := map[string]int{}
	for k, x := range tla.R(v) {
		out[k] = tla.I(x)
	}
	return out
}

func recBools(v tla.Value) map[string]bool {
	out := map[string]bool{}
	for k, x := range tla.R(v) {
		out[k] = tla.B(x)
	}
	return out
}

type simBehaviour struct {
	fates      []string
	readerFail int
	preCancel  bool
	midCancel  bool
	early      bool
	plan       []wproto.PlanStep
	result     string
}

// projectBehaviour turns a behaviour into the sequence of hook events it stands for.
func projectBehaviour(states []*tla.BehState, pcase *pipeCase, hchan []string) *simBehaviour {
	if len(states) < 2 {
		return nil
	}
	b := &simBehaviour{}
	first := states[0]
	b.fates = tla.Strs(first.Get("fate"))
	b.readerFail = tla.I(first.Get("readerFail"))
	b.preCancel = tla.B(first.Get("userCancel"))
	hidx := map[string]uint64{}
	for i, c := range hchan {
		hidx[c] = uint64(i)
	}
	itemName := func(stage string, blk int) string {
		if blk < 1 || blk > len(pcase.Blocks) {
			return ""
		}
		if stage == "split" || stage == "gen" {
			return pcase.Blocks[blk-1]
		}
		return pcase.Names[blk-1]
	}
	add := func(point, item string, gid *uint64) {
		st := wproto.PlanStep{Point: point, Item: item, Gid: gid}
		if item == "" {
			st.Any = true
		}
		b.plan = append(b.plan, st)
	}
	returned := false
	for k := 1; k < len(states) && !returned; k++ {
		o, n := states[k-1], states[k]
		opc, npc := fnStrings(o.Get("pc")), fnStrings(n.Get("pc"))
		oit := fnInts(o.Get("item"))
		nit := fnInts(n.Get("item"))
		oeb := recInts(o.Get("errbuf"))
		neb := recInts(n.Get("errbuf"))
		ocl := recBools(o.Get("chClosed"))
		oec := recBools(o.Get("errClosed"))
		octx := tla.B(o.Get("ctxDone"))
		oectx := tla.B(o.Get("ectxDone"))
		if !tla.B(o.Get("userCancel")) && tla.B(n.Get("userCancel")) {
			b.midCancel = true
			b.early = tla.B(n.Get("early"))
			add("env.cancel.pre", "", nil)
			continue
		}
		var keys []string
		for key := range opc {
			if opc[key] != npc[key] {
				keys = append(keys, key)
			}
		}
		sort.Strings(keys)
		// receivers after senders is irrelevant (both are post events); handlers last
		for _, key := range keys {
			parts := strings.Split(key, "/")
			t, s := parts[0], parts[1]
			from, to := opc[key], npc[key]
			switch t {
			case "split":
				switch {
				case from == "scan" && to == "send":
					add("split.send.pre", itemName("split", nit[key]), nil)
				case from == "send" && to == "scan":
					add("split.send.post", itemName("split", oit[key]), nil)
				case from == "send" && to == "exit":
					add("split.send.ctx", itemName("split", oit[key]), nil)
				case from == "scan" && to == "errsend":
					add("split.errsend.pre", "", nil)
				case from == "errsend":
					add("split.errsend.post", "", nil)
				case from == "scan" && to == "exit" && octx:
					add("split.scan.ctx", "", nil)
				case from == "exit":
					add("split.exit", "", nil)
				}
			case "feeder":
				switch {
				case from == "send" && to == "exit":
					add("feeder.send.post", "", nil)
				case from == "exit":
					add("feeder.exit", "", nil)
				}
			case "w":
				switch {
				case from == "recv" && to == "work":
					add(s+".recv.post", itemName(s, nit[key]), nil)
				case from == "recv" && to == "done":
					if ocl[s] && !octx {
						add(s+".recv.closed", "", nil)
					} else if octx && !ocl[s] {
						add(s+".recv.ctx", "", nil)
					}
				case from == "work" && to == "send":
					add(s+".send.pre", itemName(s, oit[key]), nil)
				case from == "send" && to == "recv":
					add(s+".send.post", itemName(s, oit[key]), nil)
				case from == "send" && to == "done":
					add(s+".send.ctx", itemName(s, oit[key]), nil)
				case from == "work" && to == "errsend":
					add(s+".errsend.pre", itemName(s, oit[key]), nil)
				case from == "errsend":
					add(s+".errsend.post", itemName(s, oit[key]), nil)
				case from == "work" && to == "w1":
					add("sink.lock", itemName(s, oit[key]), nil)
				case from == "w2":
					add("sink.unlock", itemName(s, oit[key]), nil)
				case from == "work" && to == "recv" && s == "sink":
					add("sink.done", itemName(s, oit[key]), nil)
				}
			case "closer":
				add(s+".close", "", nil)
			case "h":
				g := hidx[s]
				switch {
				case oeb[s] > neb[s] || (s == "split" && opc["split/split/0"] == "errsend" && npc["split/split/0"] == "exit" && !octx):
					add("h.select.err", "", &g)
				case oec[s] && !oectx:
					add("h.select.closed", "", &g)
				case oectx && !oec[s] && oeb[s] == 0:
					add("h.select.ctx", "", &g)
				}
			case "main":
				if from == "wait" {
					add("main.wait.post", "", nil)
				} else if from == "cancel" {
					add("main.return", "", nil)
					returned = true // what the goroutines do while winding down after the return is not forced
				}
			}
		}
	}
	b.result = tla.S(states[len(states)-1].Get("result"))
	return b
}

// simulatedSchedules: TLC samples behaviours, the gate forces them.
func simulatedSchedules(r *evid.Run, pool *wproto.Pool, cfgs []string, num int) {
	forced, unforced, skipped, validated := 0, 0, 0, 0
	var wg sync.WaitGroup
	var mu sync.Mutex
	sem := make(chan struct{}, 12)
	for ci, cfg := range cfgs {
		parts := strings.Split(strings.TrimSuffix(strings.TrimPrefix(cfg, "MC_Pipe_"), ".cfg"), "_")
		kind, sink := parts[0], parts[1]
		res, err := tlcrun.Run(tlcrun.Opts{SpecDir: specDir, Module: "MC_Pipe", Cfg: cfg, Workers: 1, Timeout: 5 * time.Minute,
			Args: []string{"-simulate", fmt.Sprintf("file=beh,num=%d", num), "-depth", "120", "-seed", fmt.Sprint(r.Seed + int64(ci) + 1)}, Collect: "beh_*"}, nil)
		if err != nil || len(res.Files) == 0 {
			r.Broken("TLC -simulate %s: %v (%d behaviours)\n%s", cfg, err, len(res.Files), tail(res))
			return
		}
		r.Count("simulated_behaviours", len(res.Files))
		for _, body := range res.Files {
			states, _ := tla.ReadBehaviour(strings.NewReader(body))
			if len(states) < 2 {
				continue
			}
			fates := tla.Strs(states[0].Get("fate"))
			rf := tla.I(states[0].Get("readerFail"))
			feasible := true
			for _, f := range fates {
				if !fateFeasible(sink, f) {
					feasible = false
				}
			}
			if !feasible {
				skipped++
				continue
			}
			pc := buildPipeCase(sink, fates, rf)
			hchan := []string{"split", "gen", "grow", "sink"}
			rq := pc.Req
			if kind == "root" {
				if fates[0] != "ok" {
					skipped++
					continue
				}
				pc.Entry = "root"
				hchan = []string{"grow", "sink"}
				rq.Route, rq.Doc = "root", ""
				rq.Items = []wproto.Item{{D: 1, N: "r1"}, {D: 2, N: "c"}, {D: 3, N: "d"}}
				if sink == "verify" {
					rq.PreDoc = "- r1\n  - c\n    - d\n"
				}
			}
			b := projectBehaviour(states, &pc, hchan)
			if b == nil || b.result == "none" {
				skipped++
				continue
			}
			rq.Plan = b.plan
			rq.Yield = 0
			if b.preCancel {
				o := -1
				rq.CancelAt = &o
			}
			cancelled := "no"
			if b.preCancel || (b.midCancel && b.early) {
				cancelled = "early"
			} else if b.midCancel {
				cancelled = "at-end"
			}
			wg.Add(1)
			sem <- struct{}{}
			go func(pc pipeCase, rq wproto.Req, cancelled string, b *simBehaviour) {
				defer wg.Done()
				defer func() { <-sem }()
				rp := pool.Call(rq, 120*time.Second)
				r.Count("real_calls", 1)
				mu.Lock()
				if rp.Unforced || rp.PlanDone < len(rq.Plan) {
					unforced++
					if os.Getenv("VERIF_DEBUG") != "" && rp.PlanDone < len(rq.Plan) {
						st := rq.Plan[rp.PlanDone]
						fmt.Printf("UNFORCEABLE sink=%s fates=%v rf=%d cancel=%s stuck at step %d/%d %s(%q) class=%s\n", pc.Sink, pc.Fates, pc.ReadFail, cancelled, rp.PlanDone, len(rq.Plan), st.Point, firstLine(st.Item), rp.Class)
					}
					mu.Unlock()
					return
				}
				forced++
				doValidate := forced%4 == 0 || os.Getenv("VERIF_DEBUG") != ""
				mu.Unlock()
				checkPipeReply(r, &pc, rq, rp, cancelled)
				// the forced run reached the model's final result (nil-ness; the ctx/err distinction when nothing failed)
				got := "nil"
				if rp.Class == "err" {
					got = "err"
					if rp.IsCtxErr {
						got = "ctx"
					}
				}
				if (got == "nil") != (b.result == "nil") && rp.Class != "panic" && rp.Class != "hang" {
					r.Mismatch(pc.Entry+"-"+pc.Sink+":forced-schedule-result-differs", fmt.Sprintf("sink=%s fates=%v cancel=%s: the specification's behaviour ends with result=%s, the real code forced onto the same schedule returned %q", pc.Sink, pc.Fates, cancelled, b.result, rp.Err),
						pipeReplay{Sink: pc.Sink, Fates: pc.Fates, ReadFail: pc.ReadFail, Req: rq, Class: rp.Class, Err: rp.Err})
				}
				if doValidate && rp.Class != "hang" && rp.Class != "panic" {
					validateAndReport(r, &pc, rq, rp, cancelled)
					mu.Lock()
					validated++
					mu.Unlock()
				}
			}(pc, rq, cancelled, b)
		}
	}
	wg.Wait()
	r.Count("forced_simulated_schedules", forced)
	r.Count("unforceable_simulated_schedules", unforced)
	r.Count("simulated_behaviours_skipped", skipped)
	fmt.Printf("simulated schedules: %d forced, %d unforceable, %d skipped (fate not producible for that sink), %d traces validated\n", forced, unforced, skipped, validated)
}
