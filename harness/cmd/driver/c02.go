package main

import (
	"fmt"
	"math/rand"
	"strings"
	"time"

	"github.com/ddddddO/gtree"

	"verif/harness/evid"
	"verif/harness/real"
	"verif/harness/tok"
)

func init() { register("C02", "model_checking", checkC02) }

// hasRootLine: the statement of C02 speaks about documents that have at least one root.
func hasRootLine(doc [][]string) bool {
	for _, l := range doc {
		if len(l) > 0 && (l[0] == "HY" || l[0] == "AS" || l[0] == "PL" || l[0] == "SH") {
			return true
		}
	}
	return false
}

func stripCR(l []string) []string {
	if len(l) > 0 && l[len(l)-1] == "CR" {
		return l[:len(l)-1]
	}
	return l
}

// sameForest compares decoded {value, children} records with the declarative forest.
func sameForest(dt []*real.DTree, f []*Tree, c *tok.Conc) bool {
	if len(dt) != len(f) {
		return false
	}
	for i := range f {
		if dt[i] == nil || dt[i].Value != c.Seq(f[i].Name) || !sameForest(dt[i].Children, f[i].Kids, c) {
			return false
		}
	}
	return true
}

type mdRoute struct {
	name string
	run  func(doc string, c *tok.Conc) (real.Outcome, func(d *DocState, c *tok.Conc) bool)
}

// every simple-mode output mode reachable from Markdown; the second result checks the payload of an
// accepted document against the declarative forest
var mdRoutes = []mdRoute{
	{"md-text/iter", func(doc string, c *tok.Conc) (real.Outcome, func(*DocState, *tok.Conc) bool) {
		o := real.OutputMD(doc, branchOpts(c)...)
		return o, func(d *DocState, c *tok.Conc) bool { return o.Out == d.ExpectText(c) }
	}},
	{"md-text/slice", func(doc string, c *tok.Conc) (real.Outcome, func(*DocState, *tok.Conc) bool) {
		o := real.OutputMD(doc, append(branchOpts(c), gtree.WithNoUseIterOfSimpleOutput())...)
		return o, func(d *DocState, c *tok.Conc) bool { return o.Out == d.ExpectText(c) }
	}},
	{"md-json", func(doc string, c *tok.Conc) (real.Outcome, func(*DocState, *tok.Conc) bool) {
		o := real.OutputMD(doc, gtree.WithEncodeJSON())
		return o, func(d *DocState, c *tok.Conc) bool {
			dt, err := real.DecodeJSON(o.Out)
			return err == nil && sameForest(dt, d.Forest, c)
		}
	}},
	{"md-yaml", func(doc string, c *tok.Conc) (real.Outcome, func(*DocState, *tok.Conc) bool) {
		o := real.OutputMD(doc, gtree.WithEncodeYAML())
		return o, func(d *DocState, c *tok.Conc) bool {
			dt, err := real.DecodeYAML(o.Out)
			return err == nil && sameForest(dt, d.Forest, c)
		}
	}},
	{"md-walk", func(doc string, c *tok.Conc) (real.Outcome, func(*DocState, *tok.Conc) bool) {
		recs, o := real.WalkMD(doc, 0, nil, branchOpts(c)...)
		return o, func(d *DocState, c *tok.Conc) bool { return sameWalk(recs, expectWalk(d.Walk, c)) }
	}},
}

func checkRejectOrRender(r *evid.Run, d *DocState, concs []*tok.Conc, routes []mdRoute) {
	if !hasRootLine(d.Doc) {
		return
	}
	for _, c := range concs {
		doc := c.Doc(d.Doc)
		for _, rt := range routes {
			o, payloadOK := rt.run(doc, c)
			r.Count("real_calls", 1)
			rp := docReplay{Doc: d.Doc, Conc: c, Bytes: doc, Route: rt.name, Got: o.Out, Err: o.ErrString()}
			cl := o.Class()
			if cl == "panic" || cl == "hang" {
				r.Mismatch(rt.name+":"+cl+":"+d.Verdict+"/"+d.Why, fmt.Sprintf("doc=%q %s", doc, firstLine(o.Panic)), rp)
				continue
			}
			// Layer M: what had been written when the call failed (no property speaks about it: drift only)
			if cl == "err" && d.GsStatus == "err" && strings.HasPrefix(rt.name, "md-text/") {
				want := ""
				if rt.name == "md-text/iter" {
					for _, row := range d.Partial {
						want += c.Seq(row) + "\n"
					}
				}
				if o.Out != want {
					r.Count("drift_partial_output", 1)
					if r.Get("drift_partial_output") <= 3 {
						fmt.Printf("SPEC-DRIFT layer=doc route=%s doc=%q: written before the error: %q, the model says %q\n", rt.name, doc, o.Out, want)
					}
				}
			}
			switch d.Verdict {
			case "reject":
				if cl == "ok" {
					r.Mismatch(rt.name+":malformed-accepted:"+d.Why,
						fmt.Sprintf("doc=%q line %d is malformed (%s) but the call returned nil, out=%q", doc, d.Line, d.Why, o.Out), rp)
				} else if strings.HasPrefix(o.Err.Error(), "incorrect input format") {
					row := c.Seq(stripCR(d.Doc[d.Line-1]))
					if !strings.Contains(o.Err.Error(), row) {
						r.Mismatch(rt.name+":format-error-wrong-line:"+d.Why,
							fmt.Sprintf("doc=%q first offending line %d=%q but err=%q", doc, d.Line, row, o.Err), rp)
					}
				}
			case "accept":
				if cl != "ok" {
					r.Mismatch(rt.name+":wellformed-rejected", fmt.Sprintf("doc=%q err=%v", doc, o.Err), rp)
				} else if !payloadOK(d, c) {
					r.Mismatch(rt.name+":lines-lost-or-changed", fmt.Sprintf("doc=%q out=%q want-rows=%q", doc, o.Out, d.ExpectText(c)), rp)
				}
			case "grey":
				// the statement does not settle it: either outcome, but when nil is returned every
				// non-blank line whose name is readable must be represented in the output
				if cl == "ok" && rt.name == "md-text/iter" {
					for _, nm := range d.Names {
						if !strings.Contains(o.Out, c.Seq(nm)+"\n") {
							r.Mismatch(rt.name+":grey-accepted-with-loss", fmt.Sprintf("doc=%q out=%q lost name %q", doc, o.Out, c.Seq(nm)), rp)
							break
						}
					}
				}
			}
		}
	}
}

var traceSpecC02 = traceSpec{Ops: []string{"text", "walk"}, Params: genParams{MaxNodes: 40, MaxDepth: 7, MaxRoots: 4, NChunks: 12, Hostile: true}, Malform: true, NQuick: 150, NThorough: 1500}

func checkC02(r *evid.Run) {
	cfg, nconc, timeout := "MC_C02_quick.cfg", 2, 5*time.Minute
	if r.Tier == "thorough" {
		cfg, nconc, timeout = "MC_C02_thorough.cfg", 3, 25*time.Minute
	}
	concs := tok.Concs(r.Seed, nconc, allChunkIDs)
	classes := map[string]int{}
	runDocModel(r, modelRun{Module: "MC_C02", Cfg: cfg, Timeout: timeout}, func(d *DocState) {
		if len(d.Doc) >= 2 && hasRootLine(d.Doc) {
			r.Count("distinct_nontrivial", 1)
		}
		r.Count("verdict_"+d.Verdict, 1)
		if d.Why != "" {
			r.Count("class_"+d.Why, 1)
		}
		if d.N%701 == 0 {
			r.Sample(map[string]any{"doc": docString(d.Doc), "verdict": d.Verdict, "line": d.Line, "why": d.Why})
		}
		checkRejectOrRender(r, d, concs, mdRoutes)
	})
	_ = classes
	// the malformed document under every option sequence and entry point (Options.tla): rejected as under the plain options
	checkOptions(r, "rule", []int{2}, func(s *optState) bool { return s.Fam == "md" })
	r.Set("exhaustive", true)
	r.Set("rule", "every sequence of at most MaxLines lines over the 16-line pool (well-formed items in two units and three bullets, a heading, blank lines, and one representative per malformation class), each run through text (both generators), JSON, YAML and walk; non-trivial = at least 2 lines and a root")
	injectMalformations = injectC02
	traceDocs(r, "C02", traceSpecC02)
	traceDocs(r, "C02", traceSpecBig) // several KiB, rendered completely ...
	big := traceSpecBig               // ... or, with 0-2 malformations somewhere in them, rejected
	big.Malform = true
	traceDocs(r, "C02", big)
}

// injectC02 injects 0..2 malformations of the statement's classes at random positions.
func injectC02(rng *rand.Rand, doc [][]string) [][]string {
	if rng.Intn(4) == 0 {
		return injectJumpAfterDedent(rng, doc) // a level jump right after a dedent (an earlier path went that deep)
	}
	n := rng.Intn(3)
	out := append([][]string{}, doc...)
	for i := 0; i < n; i++ {
		pos := rng.Intn(len(out) + 1)
		var l []string
		switch rng.Intn(7) {
		case 0: // no bullet
			l = []string{"k1", "SP", "k2"}
		case 1: // empty text
			l = []string{"SP", "SP", "HY"}
		case 2: // empty text with a blank
			l = []string{"HY", "SP"}
		case 3: // mixed indentation
			l = []string{"SP", "TAB", "HY", "SP", "k3"}
		case 4: // deep jump
			l = []string{}
			for k := 0; k < 40; k++ {
				l = append(l, "SP")
			}
			l = append(l, "HY", "SP", "k4")
		case 5: // no bullet after indentation
			l = []string{"TAB", "k5"}
		case 6: // odd indentation
			l = []string{"SP", "SP", "SP", "SP", "SP", "AS", "SP", "k6"}
		}
		out = append(out[:pos], append([][]string{l}, out[pos:]...)...)
	}
	return out
}
