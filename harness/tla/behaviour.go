package tla

import (
	"bufio"
	"io"
	"regexp"
	"strings"
)

// BehState is one state of a behaviour written by `tlc -simulate file=...`: the action that led to
// it (from the comment line) and the variables.
type BehState struct {
	Action string
	State
}

var reStateHdr = regexp.MustCompile(`^STATE_(\d+) ==`)
var reAction = regexp.MustCompile(`^\\\* <(\S+)`)

// ReadBehaviour parses one behaviour file.
func ReadBehaviour(r io.Reader) ([]*BehState, error) {
	br := bufio.NewReaderSize(r, 1<<20)
	var out []*BehState
	var cur *BehState
	var curVar, action string
	var sb strings.Builder
	flushVar := func() {
		if cur != nil && curVar != "" {
			cur.Raw[curVar] = sb.String()
		}
		curVar = ""
		sb.Reset()
	}
	for {
		line, err := br.ReadString('\n')
		l := strings.TrimRight(line, "\n")
		switch {
		case reAction.MatchString(l):
			action = reAction.FindStringSubmatch(l)[1]
		case reStateHdr.MatchString(l):
			flushVar()
			cur = &BehState{Action: action}
			cur.Raw = map[string]string{}
			cur.N = len(out) + 1
			out = append(out, cur)
		case strings.HasPrefix(l, "/\\ ") && cur != nil:
			flushVar()
			body := l[3:]
			if eq := strings.Index(body, " ="); eq >= 0 {
				curVar = body[:eq]
				sb.WriteString(body[eq+2:])
				sb.WriteByte('\n')
			}
		case strings.HasPrefix(l, "====") || strings.HasPrefix(l, "----"):
			flushVar()
		default:
			if curVar != "" && strings.TrimSpace(l) != "" {
				sb.WriteString(l)
				sb.WriteByte('\n')
			} else if strings.TrimSpace(l) == "" {
				flushVar()
			}
		}
		if err != nil {
			break
		}
	}
	flushVar()
	return out, nil
}

// FnGet looks a key up in a function value by structural equality of records.
func FnGet(f Fn, match func(k Value) bool) (Value, bool) {
	for _, p := range f {
		if match(p.K) {
			return p.V, true
		}
	}
	return nil, false
}
