// Package tla parses TLA+ values as printed by TLC (state dumps, -simulate behaviours).
package tla

import (
	"fmt"
	"strconv"
	"strings"
)

// Value is one of: string, int, bool, Seq, Rec, Set, Fn.
type Value = any

type Seq []Value
type Rec map[string]Value
type Set []Value
type Pair struct{ K, V Value }
type Fn []Pair

type parser struct {
	s string
	i int
}

func Parse(s string) (Value, error) {
	p := &parser{s: s}
	v, err := p.value()
	if err != nil {
		return nil, err
	}
	p.ws()
	if p.i != len(p.s) {
		return nil, fmt.Errorf("trailing input at %d: %q", p.i, p.rest())
	}
	return v, nil
}

func (p *parser) rest() string {
	e := p.i + 40
	if e > len(p.s) {
		e = len(p.s)
	}
	return p.s[p.i:e]
}

func (p *parser) ws() {
	for p.i < len(p.s) {
		switch p.s[p.i] {
		case ' ', '\n', '\t', '\r':
			p.i++
		default:
			return
		}
	}
}

func (p *parser) has(pre string) bool { return strings.HasPrefix(p.s[p.i:], pre) }

func (p *parser) expect(pre string) error {
	p.ws()
	if !p.has(pre) {
		return fmt.Errorf("expected %q at %d: %q", pre, p.i, p.rest())
	}
	p.i += len(pre)
	return nil
}

func (p *parser) value() (Value, error) {
	p.ws()
	if p.i >= len(p.s) {
		return nil, fmt.Errorf("unexpected end")
	}
	c := p.s[p.i]
	switch {
	case c == '"':
		return p.str()
	case c == '<' && p.has("<<"):
		p.i += 2
		var out Seq = Seq{}
		p.ws()
		if p.has(">>") {
			p.i += 2
			return out, nil
		}
		for {
			v, err := p.value()
			if err != nil {
				return nil, err
			}
			out = append(out, v)
			p.ws()
			if p.has(",") {
				p.i++
				continue
			}
			if err := p.expect(">>"); err != nil {
				return nil, err
			}
			return out, nil
		}
	case c == '{':
		p.i++
		var out Set = Set{}
		p.ws()
		if p.has("}") {
			p.i++
			return out, nil
		}
		for {
			v, err := p.value()
			if err != nil {
				return nil, err
			}
			out = append(out, v)
			p.ws()
			if p.has(",") {
				p.i++
				continue
			}
			if err := p.expect("}"); err != nil {
				return nil, err
			}
			return out, nil
		}
	case c == '[':
		p.i++
		out := Rec{}
		for {
			p.ws()
			st := p.i
			for p.i < len(p.s) && (isIdent(p.s[p.i])) {
				p.i++
			}
			key := p.s[st:p.i]
			if key == "" {
				return nil, fmt.Errorf("record key expected at %d: %q", p.i, p.rest())
			}
			if err := p.expect("|->"); err != nil {
				return nil, err
			}
			v, err := p.value()
			if err != nil {
				return nil, err
			}
			out[key] = v
			p.ws()
			if p.has(",") {
				p.i++
				continue
			}
			if err := p.expect("]"); err != nil {
				return nil, err
			}
			return out, nil
		}
	case c == '(':
		// function: (k :> v @@ k :> v)
		p.i++
		var out Fn
		for {
			k, err := p.value()
			if err != nil {
				return nil, err
			}
			if err := p.expect(":>"); err != nil {
				return nil, err
			}
			v, err := p.value()
			if err != nil {
				return nil, err
			}
			out = append(out, Pair{k, v})
			p.ws()
			if p.has("@@") {
				p.i += 2
				continue
			}
			if err := p.expect(")"); err != nil {
				return nil, err
			}
			return out, nil
		}
	case c == '-' || (c >= '0' && c <= '9'):
		st := p.i
		p.i++
		for p.i < len(p.s) && p.s[p.i] >= '0' && p.s[p.i] <= '9' {
			p.i++
		}
		n, err := strconv.Atoi(p.s[st:p.i])
		if err != nil {
			return nil, err
		}
		return n, nil
	case p.has("TRUE"):
		p.i += 4
		return true, nil
	case p.has("FALSE"):
		p.i += 5
		return false, nil
	}
	// model value / bare identifier
	st := p.i
	for p.i < len(p.s) && isIdent(p.s[p.i]) {
		p.i++
	}
	if p.i == st {
		return nil, fmt.Errorf("unexpected %q at %d", p.rest(), p.i)
	}
	return p.s[st:p.i], nil
}

func isIdent(c byte) bool {
	return c == '_' || (c >= 'a' && c <= 'z') || (c >= 'A' && c <= 'Z') || (c >= '0' && c <= '9')
}

func (p *parser) str() (Value, error) {
	p.i++ // opening quote
	var sb strings.Builder
	for p.i < len(p.s) {
		c := p.s[p.i]
		if c == '\\' && p.i+1 < len(p.s) {
			n := p.s[p.i+1]
			switch n {
			case 'n':
				sb.WriteByte('\n')
			case 't':
				sb.WriteByte('\t')
			case 'r':
				sb.WriteByte('\r')
			case 'f':
				sb.WriteByte('\f')
			default:
				sb.WriteByte(n)
			}
			p.i += 2
			continue
		}
		if c == '"' {
			p.i++
			return sb.String(), nil
		}
		sb.WriteByte(c)
		p.i++
	}
	return nil, fmt.Errorf("unterminated string")
}

// ---- accessors (panic on shape errors: a malformed dump is a machinery failure) ----

func S(v Value) string { return v.(string) }
func I(v Value) int    { return v.(int) }
func B(v Value) bool   { return v.(bool) }
func Q(v Value) Seq    { return v.(Seq) }
func R(v Value) Rec    { return v.(Rec) }
func Strs(v Value) []string {
	q := v.(Seq)
	out := make([]string, len(q))
	for i, x := range q {
		out[i] = x.(string)
	}
	return out
}
func StrsOfSet(v Value) []string {
	q := v.(Set)
	out := make([]string, len(q))
	for i, x := range q {
		out[i] = x.(string)
	}
	return out
}

// Lines converts a sequence of token sequences.
func Lines(v Value) [][]string {
	q := v.(Seq)
	out := make([][]string, len(q))
	for i, x := range q {
		out[i] = Strs(x)
	}
	return out
}
