package tla

import (
	"bufio"
	"fmt"
	"io"
	"strings"
)

// State is one TLC state: variable name -> raw value text (parsed lazily).
type State struct {
	N    int
	Raw  map[string]string
	memo map[string]Value
}

func (s *State) Get(name string) Value {
	if v, ok := s.memo[name]; ok {
		return v
	}
	raw, ok := s.Raw[name]
	if !ok {
		panic("state has no variable " + name)
	}
	v, err := Parse(raw)
	if err != nil {
		panic(fmt.Sprintf("cannot parse %s of state %d: %v", name, s.N, err))
	}
	if s.memo == nil {
		s.memo = map[string]Value{}
	}
	s.memo[name] = v
	return v
}

// ReadDump streams the states of a TLC -dump file (or FIFO) to fn.
func ReadDump(r io.Reader, fn func(*State) error) (int, error) {
	br := bufio.NewReaderSize(r, 1<<20)
	var cur *State
	var curVar string
	var sb strings.Builder
	n := 0
	complete := true // the last state read was closed by its blank line
	flushVar := func() {
		if cur != nil && curVar != "" {
			cur.Raw[curVar] = sb.String()
		}
		curVar = ""
		sb.Reset()
	}
	flushState := func() error {
		flushVar()
		if cur != nil {
			n++
			if err := fn(cur); err != nil {
				return err
			}
		}
		cur = nil
		return nil
	}
	for {
		line, err := br.ReadString('\n')
		if len(line) > 0 {
			l := strings.TrimRight(line, "\n")
			complete = l == "" && strings.HasSuffix(line, "\n")
			switch {
			case strings.HasPrefix(l, "State ") && strings.HasSuffix(l, ":"):
				if e := flushState(); e != nil {
					return n, e
				}
				cur = &State{Raw: map[string]string{}}
				fmt.Sscanf(l, "State %d:", &cur.N)
			case strings.HasPrefix(l, "/\\ ") && cur != nil:
				flushVar()
				body := l[3:]
				eq := strings.Index(body, " =")
				if eq < 0 {
					return n, fmt.Errorf("bad dump line %q", l)
				}
				curVar = body[:eq]
				sb.WriteString(body[eq+2:])
				sb.WriteByte('\n')
			default:
				if curVar != "" {
					sb.WriteString(l)
					sb.WriteByte('\n')
				}
			}
		}
		if err == io.EOF {
			break
		}
		if err != nil {
			return n, err
		}
	}
	if cur != nil && !complete {
		// the writer was stopped in the middle of a state (TLC killed by its timeout): not a state to replay
		return n, fmt.Errorf("dump ends inside state %d", cur.N)
	}
	if e := flushState(); e != nil {
		return n, e
	}
	return n, nil
}
