// Package tlcrun runs TLC on a model of /verif/spec in a scratch directory.
package tlcrun

import (
	"bufio"
	"fmt"
	"io"
	"os"
	"os/exec"
	"path/filepath"
	"regexp"
	"strconv"
	"strings"
	"syscall"
	"time"

	"verif/harness/tla"
)

type Opts struct {
	SpecDir string            // directory holding the *.tla and *.cfg files
	Module  string            // e.g. "MC_C01"
	Cfg     string            // e.g. "MC_C01_quick.cfg"
	Workers int               // 0 = 8
	Timeout time.Duration     // 0 = 10 min
	Extra   map[string]string // extra files written into the scratch dir (generated cfg, traces)
	Args    []string          // extra TLC arguments (-simulate ..., -depth ...)
	Dump    bool              // stream the state graph's states to OnState
	JavaOpt string            // extra JAVA_TOOL_OPTIONS
	KeepOut io.Writer         // if non-nil TLC output is copied there as it arrives
	Collect string            // glob (relative to the scratch directory) of files to read back after the run
}

type Result struct {
	Generated int
	Distinct  int
	Depth     int
	Violated  string // name of the violated invariant/property, "" if none
	Deadlock  bool
	ErrorText string // first "Error:" line, if any
	Output    string
	TimedOut  bool
	Wall      time.Duration
	Dumped    int
	Files     map[string]string // collected files (Opts.Collect)
}

var (
	reFinal = regexp.MustCompile(`(\d+) states generated, (\d+) distinct states found, (\d+) states left on queue`)
	reDepth = regexp.MustCompile(`The depth of the complete state graph search is (\d+)`)
	reInv   = regexp.MustCompile(`Error: Invariant (\S+) is violated`)
	reProp  = regexp.MustCompile(`Error: (Temporal properties were violated|Temporal property \S+ was violated|Action property (\S+) is violated)`)
)

func copyFile(dst, src string) error {
	b, err := os.ReadFile(src)
	if err != nil {
		return err
	}
	return os.WriteFile(dst, b, 0o644)
}

// Run model-checks; when o.Dump, every state of the dump is handed to onState while TLC runs.
func Run(o Opts, onState func(*tla.State) error) (*Result, error) {
	if o.Workers == 0 {
		o.Workers = 8
	}
	if o.Timeout == 0 {
		o.Timeout = 10 * time.Minute
	}
	// The limits the checks pass were measured on an idle machine and cover TLC plus the replay that consumes its state
	// dump (the FIFO makes TLC wait for the consumers).  On a loaded machine the same run takes several times as long; a
	// limit that fires there is a machinery failure on a tree where nothing is wrong.  The limit only has to stop a TLC
	// that never ends: six times the measured allowance.
	o.Timeout *= 6
	scratch, err := os.MkdirTemp("", "verif-tlc-")
	if err != nil {
		return nil, err
	}
	defer os.RemoveAll(scratch)
	ents, err := os.ReadDir(o.SpecDir)
	if err != nil {
		return nil, err
	}
	for _, e := range ents {
		n := e.Name()
		if strings.HasSuffix(n, ".tla") || n == o.Cfg {
			if err := copyFile(filepath.Join(scratch, n), filepath.Join(o.SpecDir, n)); err != nil {
				return nil, err
			}
		}
	}
	for n, body := range o.Extra {
		if err := os.WriteFile(filepath.Join(scratch, n), []byte(body), 0o644); err != nil {
			return nil, err
		}
	}
	os.MkdirAll(filepath.Join(scratch, "tmp"), 0o755)
	args := []string{"-workers", strconv.Itoa(o.Workers), "-metadir", filepath.Join(scratch, "meta"),
		"-config", o.Cfg}
	var fifo string
	if o.Dump {
		fifo = filepath.Join(scratch, "graph.dump")
		if err := syscall.Mkfifo(fifo, 0o600); err != nil {
			return nil, err
		}
		args = append(args, "-dump", filepath.Join(scratch, "graph"))
	}
	args = append(args, o.Args...)
	args = append(args, o.Module+".tla")
	cmd := exec.Command("tlc", args...)
	cmd.Dir = scratch
	cmd.Env = append(os.Environ(), "JAVA_TOOL_OPTIONS=-Djava.io.tmpdir="+filepath.Join(scratch, "tmp")+" -Xss64m "+o.JavaOpt)
	cmd.SysProcAttr = &syscall.SysProcAttr{Setpgid: true}
	stdout, err := cmd.StdoutPipe()
	if err != nil {
		return nil, err
	}
	cmd.Stderr = cmd.Stdout
	start := time.Now()
	if err := cmd.Start(); err != nil {
		return nil, err
	}
	res := &Result{}
	var sb strings.Builder
	outDone := make(chan struct{})
	go func() {
		defer close(outDone)
		sc := bufio.NewScanner(stdout)
		sc.Buffer(make([]byte, 1<<20), 1<<26)
		for sc.Scan() {
			l := sc.Text()
			if sb.Len() < 1<<22 {
				sb.WriteString(l)
				sb.WriteByte('\n')
			}
			if o.KeepOut != nil {
				fmt.Fprintln(o.KeepOut, l)
			}
		}
	}()
	dumpDone := make(chan error, 1)
	if o.Dump {
		go func() {
			// opening the FIFO blocks until TLC opens it for writing; if TLC dies first, unblock by
			// opening the write end ourselves after it exits (see below)
			f, err := os.OpenFile(fifo, os.O_RDONLY, 0)
			if err != nil {
				dumpDone <- err
				return
			}
			defer f.Close()
			n, err := tla.ReadDump(f, onState)
			res.Dumped = n
			if err != nil {
				// drain so that TLC is not blocked on a full pipe
				io.Copy(io.Discard, f)
			}
			dumpDone <- err
		}()
	} else {
		dumpDone <- nil
	}
	timer := time.AfterFunc(o.Timeout, func() {
		res.TimedOut = true
		syscall.Kill(-cmd.Process.Pid, syscall.SIGKILL)
	})
	<-outDone
	werr := cmd.Wait()
	timer.Stop()
	if o.Dump {
		// make sure the reader is released even if TLC never opened the FIFO
		if w, e := os.OpenFile(fifo, os.O_WRONLY|syscall.O_NONBLOCK, 0); e == nil {
			w.Close()
		}
	}
	derr := <-dumpDone
	res.Wall = time.Since(start)
	res.Output = sb.String()
	if o.Collect != "" {
		res.Files = map[string]string{}
		if ms, _ := filepath.Glob(filepath.Join(scratch, o.Collect)); ms != nil {
			for _, m := range ms {
				if b, e := os.ReadFile(m); e == nil {
					res.Files[filepath.Base(m)] = string(b)
				}
			}
		}
	}
	if m := reFinal.FindAllStringSubmatch(res.Output, -1); len(m) > 0 {
		last := m[len(m)-1]
		res.Generated, _ = strconv.Atoi(last[1])
		res.Distinct, _ = strconv.Atoi(last[2])
	}
	if m := reDepth.FindStringSubmatch(res.Output); m != nil {
		res.Depth, _ = strconv.Atoi(m[1])
	}
	if m := reInv.FindStringSubmatch(res.Output); m != nil {
		res.Violated = m[1]
	} else if m := reProp.FindStringSubmatch(res.Output); m != nil {
		res.Violated = m[1]
	}
	if strings.Contains(res.Output, "Error: Deadlock reached") {
		res.Deadlock = true
	}
	for _, l := range strings.Split(res.Output, "\n") {
		if strings.HasPrefix(l, "Error:") {
			res.ErrorText = l
			break
		}
	}
	if derr != nil {
		return res, fmt.Errorf("dump reader: %w", derr)
	}
	if res.TimedOut {
		return res, fmt.Errorf("TLC timed out after %v", o.Timeout)
	}
	_ = werr // TLC's exit status is reflected in Violated/ErrorText
	return res, nil
}

// Tail returns the last n lines of the TLC output (for diagnostics).
func (r *Result) Tail(n int) string {
	ls := strings.Split(strings.TrimRight(r.Output, "\n"), "\n")
	if len(ls) > n {
		ls = ls[len(ls)-n:]
	}
	return strings.Join(ls, "\n")
}
