// Package wproto: the line protocol between the check driver and its isolated worker processes
// (default-build worker, tinywasm-build worker).  One JSON request per line, one JSON reply per line.
package wproto

import (
	"bufio"
	"encoding/base64"
	"encoding/json"
	"fmt"
	"io"
	"os"
	"os/exec"
	"strings"
	"sync"
	"time"
	"unicode/utf8"
)

type Req struct {
	ID          int        `json:"id"`
	Op          string     `json:"op"` // output | walk | mkdir | verify
	Doc         string     `json:"doc"`
	Massive     bool       `json:"massive,omitempty"`
	Format      string     `json:"format,omitempty"` // "", json, yaml, toml
	DryRun      bool       `json:"dryrun,omitempty"`
	NoIter      bool       `json:"noiter,omitempty"`
	Branches    []string   `json:"branches,omitempty"` // LD LI MD MI
	Exts        []string   `json:"exts,omitempty"`
	Strict      bool       `json:"strict,omitempty"`
	Jail        bool       `json:"jail,omitempty"`        // mkdir/verify: run inside a fresh temp dir and report it
	Target      string     `json:"target,omitempty"`      // explicit target directory (the parent owns the jail)
	TargetSpell string     `json:"targetspell,omitempty"` // Target handed over in another spelling of the same directory, relative to its grandparent (the worker changes into it): "slash" p/t/, "dot" ./p/t, "dslash" p//t, "dotin" p/./t, "dotdot" p/gone/../t
	Route       string     `json:"route,omitempty"`       // "" / "md": From-Markdown; "root": From-Root (tree built from Items)
	Items       []Item     `json:"items,omitempty"`
	Alias       bool       `json:"alias,omitempty"`     // use the deprecated alias of the entry point
	Leaks       bool       `json:"leaks,omitempty"`     // after the call, wait for gtree goroutines to settle and report those left
	ReadFail    *int       `json:"readfail,omitempty"`  // the reader delivers this many bytes and then fails with a sentinel error
	ReadOnce    bool       `json:"readonce,omitempty"`  // ... once: read again, it delivers the rest of the document (a timeout, not a broken pipe)
	WFault      *WFault    `json:"wfault,omitempty"`    // the writer refuses one Write call
	OptMode     bool       `json:"optmode,omitempty"`   // the options of the call are exactly OptSeq (possibly empty)
	OptSeq      []string   `json:"optseq,omitempty"`    // the options of the call, in this order (Options.tla's tokens), after WithTargetDir(jail/A); jail holds A and B
	PreFiles    []string   `json:"prefiles,omitempty"`  // OptSeq mode: regular files made below the jail before the call
	ErrWrap     string     `json:"errwrap,omitempty"`   // the injected reader/writer error also wraps "canceled" (context.Canceled) or "deadline"
	Procs       int        `json:"procs,omitempty"`     // GOMAXPROCS for this call (0 = leave)
	Yield       int        `json:"yield,omitempty"`     // reader, writer and callbacks yield / sleep (1 = Gosched, n>1 = n microseconds)
	CancelAt    *int       `json:"cancelat,omitempty"`  // cancel the caller's context when the reader has delivered this many bytes (-1: before the call)
	Color       bool       `json:"color,omitempty"`     // colours on (color.NoColor = false) for this call: what a program on a terminal has
	CtxKind     string     `json:"ctxkind,omitempty"`   // "" : the caller's context ends by cancel(); "deadline": it ends as an expired deadline (Err() = DeadlineExceeded)
	FailVisit   int        `json:"failvisit,omitempty"` // walk: the callback fails at its n-th call (counted over all goroutines)
	FailNames   []string   `json:"failnames,omitempty"` // walk: the callback fails at every node with one of these names
	PreDoc      string     `json:"predoc,omitempty"`    // mkdir/verify in a worker-owned jail: directories made (simple mode) before the call
	NodeIdx     int        `json:"nodeidx,omitempty"`   // From-Root: operate on the k-th node in pre-order instead of the root (-1: nil)
	PreLoose    bool       `json:"preloose,omitempty"`  // a failing pre-mkdir is not a harness failure: the call meets whatever it left (equally named roots: the first block's tree)
	PreOps      []string   `json:"preops,omitempty"`    // From-Root: operations performed on the same tree first ("output", "walk", "walkiter", "json", "massive-output", "mkdir-elsewhere", "dry-color")
	JailIn      string     `json:"jailin,omitempty"`    // (set by the worker for Par) the jail of this request, instead of a fresh temporary directory
	RelJail     bool       `json:"reljail,omitempty"`   // ... and its targets are handed over RELATIVE to the current directory (the jail's parent)
	WBig        int        `json:"wbig,omitempty"`      // the writer sleeps this many microseconds inside every Write of 1 KiB or more (what a buffered writer flushes), outside its own lock
	Par         []Req      `json:"par,omitempty"`       // run these requests at the same time (one goroutine each) in this worker; the reply carries theirs in Sub
	Stall       *Stall     `json:"stall,omitempty"`     // back-pressure: the sink is held until the splitter is handing over its last block, then something happens
	Record      bool       `json:"record,omitempty"`    // record the hook events of this call
	Delays      int64      `json:"delays,omitempty"`    // seed for random delays at hook points (0 = none)
	Plan        []PlanStep `json:"plan,omitempty"`      // gate: hold goroutines at hook points until the plan allows them
}

// Event is one recorded hook event.
type Event struct {
	Seq   uint64 `json:"seq"`
	Point string `json:"ev"`
	Gid   uint64 `json:"gid"`
	Item  string `json:"item"`
}

// PlanStep names a hook event that must happen next: point, and optionally the item.
type PlanStep struct {
	Point string  `json:"ev"`
	Item  string  `json:"item,omitempty"`
	Any   bool    `json:"any,omitempty"` // any item
	Gid   *uint64 `json:"gid,omitempty"` // the hook's goroutine id must match too (handlers: channel index)
}

// Stall: every Write call / callback blocks until the splitter has logged its Blocks-th hand-over attempt (the last
// block: every stage is full by then), then the caller cancels ("cancel") or the writer starts failing ("wfail"),
// and the sink is let go.  If the splitter never gets there within 10 s the sink is let go and the reply says Unforced.
type Stall struct {
	Blocks int    `json:"blocks"`
	Then   string `json:"then"`
}

// WFault: Write call number At (1-based) is refused: "fail" accepts nothing, "short" accepts half, "full"
// accepts everything; all return an error, every later call is refused as well ("-once": only that call).
type WFault struct {
	How string `json:"how"`
	At  int    `json:"at"`
}

// Item is one line of a well-formed document: depth (roots 1) and name.
type Item struct {
	D int    `json:"d"`
	N string `json:"n"`
}

type Rep struct {
	ID          int      `json:"id"`
	Class       string   `json:"class"` // ok | err | panic | hang
	Out         string   `json:"out"`
	Err         string   `json:"err"`
	Walk        []string `json:"walk,omitempty"` // rows seen by the callback
	Entries     []string `json:"entries,omitempty"`
	Leaked      int      `json:"leaked,omitempty"`      // goroutines with gtree frames alive after the call settled
	LeakSigs    []string `json:"leaksigs,omitempty"`    // top gtree frame + wait reason of each
	Unsettled   bool     `json:"unsettled,omitempty"`   // goroutines of the call were still moving when the harness gave up waiting: no verdict
	ReadsAfter  int      `json:"reads_after,omitempty"` // Read calls on the input reader that began after the call had returned and the settling period was over
	IsReaderErr bool     `json:"isreadererr,omitempty"` // errors.Is(err, the injected reader error)
	WCalls      int      `json:"wcalls,omitempty"`      // Write calls seen by the writer
	WRefused    bool     `json:"wrefused,omitempty"`    // some Write call was refused or cut
	WSizes      []int    `json:"wsizes,omitempty"`      // requested size of each Write call
	IsCtxErr    bool     `json:"isctxerr,omitempty"`    // errors.Is(err, context.Canceled)
	Events      []Event  `json:"events,omitempty"`
	Unforced    bool     `json:"unforced,omitempty"` // the plan could not be forced (a gate timed out)
	PlanDone    int      `json:"plandone,omitempty"` // plan steps that happened in order
	ElapsedUs   int64    `json:"elapsed_us,omitempty"`
	Sub         []Rep    `json:"sub,omitempty"`    // replies to Par
	Stray       string   `json:"stray,omitempty"`  // bytes that arrived at the sink this operation has no business with (Output*: color.Output; Mkdir: none)
	RawErr      string   `json:"rawerr,omitempty"` // err.Error() exactly as it was when the call returned
	Held        []string `json:"held,omitempty"`   // Error() of the errors earlier calls of this process returned, read again now (after this call)
}

// JSON carries valid UTF-8 only (encoding/json replaces every other byte by U+FFFD): strings that are not valid UTF-8
// travel base64-encoded behind a marker, so that documents, names, outputs and errors arrive byte for byte.
const b64Marker = "\x00b64:"

func encStr(s string) string {
	if utf8.ValidString(s) && !strings.HasPrefix(s, b64Marker) {
		return s
	}
	return b64Marker + base64.StdEncoding.EncodeToString([]byte(s))
}

func decStr(s string) string {
	if !strings.HasPrefix(s, b64Marker) {
		return s
	}
	b, err := base64.StdEncoding.DecodeString(s[len(b64Marker):])
	if err != nil {
		return s
	}
	return string(b)
}

func mapReq(rq *Req, f func(string) string) {
	rq.Doc, rq.PreDoc = f(rq.Doc), f(rq.PreDoc)
	for i := range rq.Items {
		rq.Items[i].N = f(rq.Items[i].N)
	}
	for i := range rq.Branches {
		rq.Branches[i] = f(rq.Branches[i])
	}
	for i := range rq.Exts {
		rq.Exts[i] = f(rq.Exts[i])
	}
	for i := range rq.FailNames {
		rq.FailNames[i] = f(rq.FailNames[i])
	}
	for i := range rq.Par {
		mapReq(&rq.Par[i], f)
	}
}

func mapRep(rp *Rep, f func(string) string) {
	rp.Out, rp.Err, rp.Stray, rp.RawErr = f(rp.Out), f(rp.Err), f(rp.Stray), f(rp.RawErr)
	for i := range rp.Walk {
		rp.Walk[i] = f(rp.Walk[i])
	}
	for i := range rp.Entries {
		rp.Entries[i] = f(rp.Entries[i])
	}
	for i := range rp.Held {
		rp.Held[i] = f(rp.Held[i])
	}
	for i := range rp.Sub {
		mapRep(&rp.Sub[i], f)
	}
}

// Serve runs the worker loop on stdin/stdout.
func Serve(handle func(Req) Rep) {
	in := bufio.NewReaderSize(os.Stdin, 1<<20)
	out := bufio.NewWriter(os.Stdout)
	for {
		line, err := in.ReadBytes('\n')
		if len(line) > 0 {
			var rq Req
			if e := json.Unmarshal(line, &rq); e != nil {
				fmt.Fprintln(os.Stderr, "worker: bad request:", e)
				os.Exit(3)
			}
			mapReq(&rq, decStr)
			rp := handle(rq)
			rp.ID = rq.ID
			mapRep(&rp, encStr)
			b, _ := json.Marshal(rp)
			out.Write(b)
			out.WriteByte('\n')
			out.Flush()
		}
		if err != nil {
			return
		}
	}
}

// Proc is one worker process.
type Proc struct {
	path   string
	args   []string
	cmd    *exec.Cmd
	stdin  io.WriteCloser
	out    *bufio.Reader
	stderr *tailBuf
	mu     sync.Mutex
	Deaths int
}

type tailBuf struct {
	mu sync.Mutex
	b  []byte
}

func (t *tailBuf) Write(p []byte) (int, error) {
	t.mu.Lock()
	t.b = append(t.b, p...)
	if len(t.b) > 1<<20 {
		t.b = t.b[len(t.b)-(1<<20):]
	}
	t.mu.Unlock()
	return len(p), nil
}

func (t *tailBuf) String() string { t.mu.Lock(); defer t.mu.Unlock(); return string(t.b) }

func Start(path string, args ...string) (*Proc, error) {
	p := &Proc{path: path, args: args}
	if err := p.spawn(); err != nil {
		return nil, err
	}
	return p, nil
}

func (p *Proc) spawn() error {
	p.cmd = exec.Command(p.path, p.args...)
	// (no NO_COLOR in the environment: fatih/color would switch every colour object off for good; the worker's main sets
	// color.NoColor = true and a request may switch colours on for its own duration)
	p.cmd.Env = nil
	for _, e := range os.Environ() {
		if !strings.HasPrefix(e, "NO_COLOR=") {
			p.cmd.Env = append(p.cmd.Env, e)
		}
	}
	var err error
	if p.stdin, err = p.cmd.StdinPipe(); err != nil {
		return err
	}
	so, err := p.cmd.StdoutPipe()
	if err != nil {
		return err
	}
	p.out = bufio.NewReaderSize(so, 1<<20)
	p.stderr = &tailBuf{}
	p.cmd.Stderr = p.stderr
	return p.cmd.Start()
}

// Call sends one request. If the worker process dies while serving it (a panic in any goroutine, a
// fatal error) the reply has Class "panic" and Err holds the tail of its stderr; if it does not answer
// within the deadline it is killed and the reply has Class "hang". The worker is restarted either way.
func (p *Proc) Call(rq Req, deadline time.Duration) Rep {
	p.mu.Lock()
	defer p.mu.Unlock()
	wire := rq // (a copy: the caller's request keeps its strings)
	wire.Items = append([]Item{}, rq.Items...)
	wire.Branches = append([]string{}, rq.Branches...)
	wire.Exts = append([]string(nil), rq.Exts...)
	wire.FailNames = append([]string{}, rq.FailNames...)
	wire.Par = append([]Req{}, rq.Par...)
	if rq.Exts != nil && wire.Exts == nil {
		wire.Exts = []string{}
	}
	mapReq(&wire, encStr)
	b, _ := json.Marshal(wire)
	type res struct {
		line []byte
		err  error
	}
	ch := make(chan res, 1)
	if _, err := p.stdin.Write(append(b, '\n')); err != nil {
		ch <- res{nil, err}
	} else {
		go func() {
			l, err := p.out.ReadBytes('\n')
			ch <- res{l, err}
		}()
	}
	select {
	case r := <-ch:
		if r.err != nil || len(r.line) == 0 {
			p.cmd.Wait()
			msg := p.stderr.String()
			p.Deaths++
			if err := p.spawn(); err != nil {
				return Rep{ID: rq.ID, Class: "panic", Err: "worker died and could not be restarted: " + err.Error() + "\n" + msg}
			}
			return Rep{ID: rq.ID, Class: "panic", Err: crashSummary(msg)}
		}
		var rp Rep
		if err := json.Unmarshal(r.line, &rp); err != nil {
			return Rep{ID: rq.ID, Class: "panic", Err: "unparsable worker reply: " + string(r.line)}
		}
		mapRep(&rp, decStr)
		return rp
	case <-time.After(deadline):
		// A verdict "does not return" must be a fact about the call, not about the machine: a worker that is still
		// burning CPU when its deadline passes (a starved machine, a long computation) gets more time, up to two more
		// deadlines; one whose CPU time stands still is blocked, and is reported at once.
		for ext := 0; ext < 2 && cpuAdvances(p.cmd.Process.Pid); ext++ {
			select {
			case r := <-ch:
				if r.err == nil && len(r.line) > 0 {
					var rp Rep
					if err := json.Unmarshal(r.line, &rp); err == nil {
						mapRep(&rp, decStr)
						return rp
					}
				}
				p.cmd.Wait()
				msg := p.stderr.String()
				p.Deaths++
				p.spawn()
				return Rep{ID: rq.ID, Class: "panic", Err: crashSummary(msg)}
			case <-time.After(deadline):
			}
		}
		p.cmd.Process.Kill()
		p.cmd.Wait()
		p.Deaths++
		p.spawn()
		return Rep{ID: rq.ID, Class: "hang", Err: "no reply within " + deadline.String()}
	}
}

func (p *Proc) Close() {
	p.mu.Lock()
	defer p.mu.Unlock()
	p.stdin.Close()
	done := make(chan struct{})
	go func() { p.cmd.Wait(); close(done) }()
	select {
	case <-done:
	case <-time.After(3 * time.Second):
		p.cmd.Process.Kill()
	}
}

// cpuAdvances: does the process (all its threads) consume CPU time right now?  (utime + stime of /proc/<pid>/stat,
// sampled twice 400 ms apart; more than 2 ticks of difference counts as running)
func cpuAdvances(pid int) bool {
	read := func() (int64, bool) {
		b, err := os.ReadFile(fmt.Sprintf("/proc/%d/stat", pid))
		if err != nil {
			return 0, false
		}
		s := string(b)
		k := strings.LastIndex(s, ")")
		if k < 0 {
			return 0, false
		}
		f := strings.Fields(s[k+1:])
		if len(f) < 13 {
			return 0, false
		}
		var ut, st int64
		fmt.Sscan(f[11], &ut)
		fmt.Sscan(f[12], &st)
		return ut + st, true
	}
	a, ok1 := read()
	time.Sleep(400 * time.Millisecond)
	b, ok2 := read()
	return ok1 && ok2 && b-a > 2
}

// crashSummary keeps the panic message and the first gtree frames of a Go crash dump.
func crashSummary(stderr string) string {
	ls := strings.Split(stderr, "\n")
	var keep []string
	for i, l := range ls {
		if strings.HasPrefix(l, "panic:") || strings.HasPrefix(l, "fatal error:") || strings.Contains(l, "[signal ") {
			keep = append(keep, l)
		}
		if strings.Contains(l, "github.com/ddddddO/gtree") && !strings.Contains(l, "/verif/") && len(keep) < 8 {
			keep = append(keep, strings.TrimSpace(l))
			if i+1 < len(ls) {
				keep = append(keep, strings.TrimSpace(ls[i+1]))
			}
		}
	}
	if len(keep) == 0 {
		if len(stderr) > 600 {
			stderr = stderr[len(stderr)-600:]
		}
		return "worker died: " + stderr
	}
	return strings.Join(keep, " | ")
}

// Pool is a set of workers used round-robin from many goroutines.
type Pool struct {
	procs []*Proc
	next  chan *Proc
}

func NewPool(n int, path string, args ...string) (*Pool, error) {
	pl := &Pool{next: make(chan *Proc, n)}
	for i := 0; i < n; i++ {
		p, err := Start(path, args...)
		if err != nil {
			pl.Close()
			return nil, err
		}
		pl.procs = append(pl.procs, p)
		pl.next <- p
	}
	return pl, nil
}

func (pl *Pool) Call(rq Req, deadline time.Duration) Rep {
	p := <-pl.next
	defer func() { pl.next <- p }()
	return p.Call(rq, deadline)
}

// Stderr returns what the workers wrote to stderr so far (race reports, crash dumps).
func (pl *Pool) Stderr() []string {
	var out []string
	for _, p := range pl.procs {
		p.mu.Lock()
		out = append(out, p.stderr.String())
		p.mu.Unlock()
	}
	return out
}

func (pl *Pool) Deaths() int {
	n := 0
	for _, p := range pl.procs {
		n += p.Deaths
	}
	return n
}

func (pl *Pool) Close() {
	for _, p := range pl.procs {
		p.Close()
	}
}
