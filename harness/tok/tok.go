// Package tok maps between the specification's token vocabulary and bytes.
package tok

import (
	"fmt"
	"hash/adler32"
	"hash/crc32"
	"hash/fnv"
	"math/rand"
	"strings"
	"sync"
	"unicode"
	"unicode/utf8"
)

// Conc is one concretisation: how chunk ids, the WS token, branch tokens and line ends are spelled.
type Conc struct {
	Name           string
	Chunks         map[string]string // chunk id -> bytes (no special rune, prefix-free)
	WS             string            // the "other Unicode white space" token
	LD, LI, MD, MI string
	EOL            string // "\n" or "\r\n" is NOT used here: CR is a token; EOL is always "\n"
	FinalNL        bool
}

var special = map[string]string{
	"SP": " ", "TAB": "\t", "CR": "\r", "HY": "-", "AS": "*", "PL": "+", "SH": "#", "SL": "/", "DOT": ".",
}

func (c *Conc) Tok(t string) string {
	if s, ok := special[t]; ok {
		return s
	}
	switch t {
	case "WS":
		return c.WS
	case "LD":
		return c.LD
	case "LI":
		return c.LI
	case "MD":
		return c.MD
	case "MI":
		return c.MI
	}
	if s, ok := c.Chunks[t]; ok {
		return s
	}
	// unknown chunk id: spell it as itself (ids are plain identifiers)
	return t
}

func (c *Conc) Seq(ts []string) string {
	var sb strings.Builder
	for _, t := range ts {
		sb.WriteString(c.Tok(t))
	}
	return sb.String()
}

// Doc spells a document (lines of tokens) as bytes.
func (c *Conc) Doc(lines [][]string) string {
	var sb strings.Builder
	for i, l := range lines {
		sb.WriteString(c.Seq(l))
		if i < len(lines)-1 || c.FinalNL {
			sb.WriteString("\n")
		}
	}
	return sb.String()
}

// Branch option values for gtree.WithBranchFormat*.
func (c *Conc) IsDefaultBranches() bool {
	return c.LD == "└──" && c.LI == "    " && c.MD == "├──" && c.MI == "│   "
}

// chunk pools: every word starts with a rune that occurs nowhere else in the pool (prefix-free, so
// token sequences and byte strings correspond one to one), and contains no special rune.
var chunkPools = [][]string{
	{"a", "b", "c", "d", "e", "f", "g", "h"},
	{"αλφα", "Ünï", "日本語", "🌳🌲", "é", "ключ", "żółć", "한글"},
	{"q\"uo", "k:v", "w\\x", "t'ic", "y=1", "[z]", "{m}", "n,o"},
	{"1e3", "yes", "~", "null", "true", "0x1F", "&anc", "!tag"},
	{"x\x01y", "v​z", "r\x7f", "p%s", "u<b>", "j|k", "i`l", "o$H"},
	// names that differ only in letter case (never shuffled: the first two chunk ids are such a pair; K is the Kelvin sign)
	{"a", "A", "b", "B", "ä", "Ä", "k", "K"},
}

const caseTwinPool = 5

type branchSet struct{ name, ld, li, md, mi string }

var branchSets = []branchSet{
	{"default", "└──", "    ", "├──", "│   "},
	{"ascii", "+->", ":   ", "+--", ":   "},
	{"empty", "", "", "", ""},
	{"multibyte", "└─🌿", "　　", "├─🍃", "┃　"},
	{"distinct", "L", "l", "M", "m"},
	{"empty-connectors", "", "a", "", "b"},       // connectors empty, continuation strings differ
	{"overlapping", "|", "| ", "|-", "|  "},      // a connector that also occurs inside the continuation strings
	{"unequal", "`--", "  ", "+---->", "|     "}, // connectors (and continuation strings) of different byte lengths
	{"ruled", "|--", "|--", "|--", "|--"},        // one string for everything: every continuation ends in the connector's characters
	{"blank-tail", "+- ", "|  ", "+- ", "   "},   // connectors with their own trailing blank
}

// InvalidUTF8Conc: names that are not valid UTF-8 (Latin-1 bytes, truncated and overlong sequences, surrogates), two of
// them differing in an invalid byte only; for the text and walk routes (the encoders cannot carry such names).
func InvalidUTF8Conc(branches int, chunkIDs []string) *Conc {
	p := []string{"caf\xe9", "caf\xe8", "\xff\xfe", "a\xc3", "\x80x", "\xf0\x9f", "\xed\xa0\x80", "z\xc0\xaf"}
	b := branchSets[branches%len(branchSets)]
	c := &Conc{Name: "invalid-utf8/" + b.name, Chunks: map[string]string{}, WS: "\u3000", LD: b.ld, LI: b.li, MD: b.md, MI: b.mi, FinalNL: true}
	for i, id := range chunkIDs {
		c.Chunks[id] = p[i%len(p)]
	}
	return c
}

// HashTwinConc: sibling names that collide under the usual 32-bit string hashes (FNV-1a, FNV-1, CRC-32, Adler-32): chunk
// ids 1/2, 3/4, 5/6, 7/8 are such pairs (found by a birthday search over "w<number>" words; FNV-1a also has the
// dictionary pair declinate / macallums).  Names are equal when their bytes are equal, whatever a hash says.  Only for
// the specification -> implementation direction (the words are not prefix-free).
var hashTwinOnce sync.Once
var hashTwins []string

func HashTwinConc(branches int, chunkIDs []string) *Conc {
	hashTwinOnce.Do(func() {
		find := func(h func(string) uint32, skip int) (string, string) {
			seen := map[uint32]string{}
			for i := 0; ; i++ {
				w := fmt.Sprintf("w%d", i)
				k := h(w)
				if o, ok := seen[k]; ok {
					if skip == 0 {
						return o, w
					}
					skip--
				}
				seen[k] = w
			}
		}
		fa := func(s string) uint32 { h := fnv.New32a(); h.Write([]byte(s)); return h.Sum32() }
		f1 := func(s string) uint32 { h := fnv.New32(); h.Write([]byte(s)); return h.Sum32() }
		cr := func(s string) uint32 { return crc32.ChecksumIEEE([]byte(s)) }
		ad := func(s string) uint32 { return adler32.Checksum([]byte(s)) }
		hashTwins = []string{"declinate", "macallums"}
		for _, h := range []func(string) uint32{f1, cr, ad} {
			a, b := find(h, 0)
			hashTwins = append(hashTwins, a, b)
		}
		_ = fa
	})
	b := branchSets[branches%len(branchSets)]
	c := &Conc{Name: "hash-twins/" + b.name, Chunks: map[string]string{}, WS: "\u3000", LD: b.ld, LI: b.li, MD: b.md, MI: b.mi, FinalNL: true}
	for i, id := range chunkIDs {
		c.Chunks[id] = hashTwins[i%len(hashTwins)]
	}
	return c
}

// NumBranchSets: how many branch-string sets MakeConc knows.
func NumBranchSets() int { return len(branchSets) }

// Concs returns n concretisations chosen by seed; the first is always plain ASCII chunks with the
// default branch strings.
func Concs(seed int64, n int, chunkIDs []string) []*Conc {
	rng := rand.New(rand.NewSource(seed))
	var out []*Conc
	for i := 0; i < n; i++ {
		pi, bi := 0, 0
		if i > 0 {
			pi = (i + int(rng.Intn(len(chunkPools)))) % len(chunkPools)
			bi = i % len(branchSets)
			if i == 2 {
				pi = caseTwinPool // the third concretisation always has sibling names that differ only in letter case
			}
		}
		out = append(out, MakeConc(pi, bi, i%2 == 1, chunkIDs, rng))
	}
	return out
}

func MakeConc(pool, branches int, finalNL bool, chunkIDs []string, rng *rand.Rand) *Conc {
	p := chunkPools[pool%len(chunkPools)]
	b := branchSets[branches%len(branchSets)]
	perm := make([]int, len(p))
	for i := range perm {
		perm[i] = i
	}
	if rng != nil && pool != 0 && pool%len(chunkPools) != caseTwinPool {
		rng.Shuffle(len(perm), func(i, j int) { perm[i], perm[j] = perm[j], perm[i] })
	}
	c := &Conc{Name: fmt.Sprintf("pool%d/%s/nl=%v", pool, b.name, finalNL), Chunks: map[string]string{},
		WS: "　", LD: b.ld, LI: b.li, MD: b.md, MI: b.mi, FinalNL: finalNL}
	if pool%2 == 1 {
		c.WS = " "
	}
	for i, id := range chunkIDs {
		c.Chunks[id] = p[perm[i%len(p)]]
	}
	return c
}

// ---- abstraction: bytes -> tokens (total) ----

// Abstractor assigns chunk ids to maximal runs of non-special runes.
type Abstractor struct {
	ids map[string]string
	n   int
}

func NewAbstractor() *Abstractor { return &Abstractor{ids: map[string]string{}} }

func classify(r rune, size int, raw string) string {
	switch r {
	case ' ':
		return "SP"
	case '\t':
		return "TAB"
	case '\r':
		return "CR"
	case '-':
		return "HY"
	case '*':
		return "AS"
	case '+':
		return "PL"
	case '#':
		return "SH"
	case '/':
		return "SL"
	case '.':
		return "DOT"
	}
	if r == utf8.RuneError && size == 1 {
		return ""
	}
	if unicode.IsSpace(r) {
		return "WS"
	}
	return ""
}

// Line abstracts one line (no '\n' inside).
func (a *Abstractor) Line(s string) []string {
	var out []string
	run := ""
	flush := func() {
		if run != "" {
			id, ok := a.ids[run]
			if !ok {
				a.n++
				id = fmt.Sprintf("k%d", a.n)
				a.ids[run] = id
			}
			out = append(out, id)
			run = ""
		}
	}
	for i := 0; i < len(s); {
		r, size := utf8.DecodeRuneInString(s[i:])
		cl := classify(r, size, s[i:i+size])
		if cl == "" {
			run += s[i : i+size]
		} else {
			flush()
			out = append(out, cl)
		}
		i += size
	}
	flush()
	if out == nil {
		out = []string{}
	}
	return out
}

// Chunks returns id -> bytes for everything seen so far.
func (a *Abstractor) Chunks() map[string]string {
	m := map[string]string{}
	for s, id := range a.ids {
		m[id] = s
	}
	return m
}

// ---- decodable concretisations for the Impl -> Spec direction ----

var traceFirst = []rune("abcdefghijknopqrstuvwxyzABCDEFGHIJKNOPQRSTUVWXYZ0123456789αβγδεζηθ日本語한글🌳🌲éñ")
var traceBody = []rune("abcxyz019_:;'\"\\=()[]{}<>!?%&|~^`@,éλ木🍃")

// TraceConc builds a concretisation whose code words (chunks, branch strings) have pairwise distinct
// first runes, none of them special, so that output bytes decode uniquely back to tokens.
func TraceConc(rng *rand.Rand, nChunks int) *Conc {
	c := &Conc{Name: "trace", Chunks: map[string]string{}, WS: " ", LD: "L>", LI: "l ", MD: "M=", MI: "m ", FinalNL: rng.Intn(2) == 0}
	perm := rng.Perm(len(traceFirst))
	for i := 0; i < nChunks; i++ {
		w := string(traceFirst[perm[i%len(perm)]])
		for k := rng.Intn(3); k > 0; k-- {
			w += string(traceBody[rng.Intn(len(traceBody))])
		}
		c.Chunks[fmt.Sprintf("k%d", i+1)] = w
	}
	return c
}

// Decode maps bytes back to tokens (inverse of Seq) for a concretisation with distinct first runes.
func (c *Conc) Decode(s string) ([]string, bool) {
	type cw struct{ word, tok string }
	table := map[rune]cw{}
	add := func(word, tok string) {
		if word == "" {
			return
		}
		r, _ := utf8.DecodeRuneInString(word)
		table[r] = cw{word, tok}
	}
	for t, w := range special {
		add(w, t)
	}
	add(c.WS, "WS")
	add(c.LD, "LD")
	add(c.LI, "LI")
	add(c.MD, "MD")
	add(c.MI, "MI")
	for id, w := range c.Chunks {
		add(w, id)
	}
	out := []string{}
	for i := 0; i < len(s); {
		r, _ := utf8.DecodeRuneInString(s[i:])
		e, ok := table[r]
		if !ok || !strings.HasPrefix(s[i:], e.word) {
			return nil, false
		}
		out = append(out, e.tok)
		i += len(e.word)
	}
	return out, true
}

// WithBranches returns a copy of c that spells the branch tokens with the k-th branch-string set.
func WithBranches(c *Conc, k int) *Conc {
	b := branchSets[((k%len(branchSets))+len(branchSets))%len(branchSets)]
	d := *c
	d.Name = c.Name + "+" + b.name
	d.LD, d.LI, d.MD, d.MI = b.ld, b.li, b.md, b.mi
	return &d
}
