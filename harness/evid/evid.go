// Package evid: evidence files, known findings, violation reporting, exit status.
package evid

import (
	"bufio"
	"crypto/sha1"
	"encoding/hex"
	"encoding/json"
	"fmt"
	"os"
	"path/filepath"
	"sort"
	"strconv"
	"strings"
	"sync"
	"time"
)

// Root is the verification directory (VERIF_ROOT lets a snapshot of /verif run on its own files).
var Root = rootDir()

func rootDir() string {
	if r := os.Getenv("VERIF_ROOT"); r != "" {
		return r
	}
	return "/verif"
}

type Coverage map[string]any

type Evidence struct {
	PropertyID  string   `json:"property_id"`
	Tier        string   `json:"tier"`
	Seed        int64    `json:"seed"`
	Level       string   `json:"level"`
	Coverage    Coverage `json:"coverage"`
	Assumptions []string `json:"assumptions,omitempty"`
	WallS       float64  `json:"wall_s"`
	Violations  int      `json:"violations"`
}

type Finding struct {
	Status   string // open | fixed
	Property string
	Sig      string
	Text     string
}

type Run struct {
	ID    string
	Tier  string
	Seed  int64
	Start time.Time

	mu         sync.Mutex
	cov        Coverage
	counters   map[string]int
	samples    []any
	assume     []string
	violations map[string]string // sig -> replay path
	knownHit   map[string]int
	findings   []Finding
	notes      []string
	broken     []string // machinery failures
	OnlySig    string   // --replay of a stored violation: only this signature counts
	hangs      int      // calls of the real code that did not return within their deadline (each costs the whole deadline)
	Level      string   // the level the check claims (for an early Finish)
}

func NewRun(id string) *Run {
	tier := os.Getenv("VERIF_TIER")
	if tier == "" {
		tier = "quick"
	}
	seed, _ := strconv.ParseInt(os.Getenv("VERIF_SEED"), 10, 64)
	r := &Run{ID: id, Tier: tier, Seed: seed, Start: time.Now(), cov: Coverage{}, counters: map[string]int{},
		violations: map[string]string{}, knownHit: map[string]int{}}
	r.findings = LoadFindings()
	return r
}

func LoadFindings() []Finding {
	f, err := os.Open(filepath.Join(Root, "KNOWN_FINDINGS"))
	if err != nil {
		return nil
	}
	defer f.Close()
	var out []Finding
	sc := bufio.NewScanner(f)
	for sc.Scan() {
		l := strings.TrimSpace(sc.Text())
		if l == "" || strings.HasPrefix(l, "#") {
			continue
		}
		var fd Finding
		switch {
		case strings.HasPrefix(l, "open:"):
			fd.Status = "open"
			l = strings.TrimSpace(l[5:])
		case strings.HasPrefix(l, "fixed:"):
			fd.Status = "fixed"
			l = strings.TrimSpace(l[6:])
		default:
			continue
		}
		fields := strings.Fields(l)
		rest := []string{}
		for _, w := range fields {
			switch {
			case strings.HasPrefix(w, "property=") && fd.Property == "":
				fd.Property = w[9:]
			case strings.HasPrefix(w, "sig=") && fd.Sig == "":
				fd.Sig = w[4:]
			default:
				rest = append(rest, w)
			}
		}
		fd.Text = strings.Join(rest, " ")
		out = append(out, fd)
	}
	return out
}

func (r *Run) isOpen(sig string) (Finding, bool) {
	for _, f := range r.findings {
		if f.Status == "open" && f.Property == r.ID && f.Sig == sig {
			return f, true
		}
	}
	return Finding{}, false
}

// Count adds to a named counter that ends up in coverage.
func (r *Run) Count(name string, n int) {
	r.mu.Lock()
	r.counters[name] += n
	r.mu.Unlock()
}

func (r *Run) Get(name string) int {
	r.mu.Lock()
	defer r.mu.Unlock()
	return r.counters[name]
}

func (r *Run) Set(name string, v any) {
	r.mu.Lock()
	r.cov[name] = v
	r.mu.Unlock()
}

func (r *Run) Sample(v any) {
	r.mu.Lock()
	if len(r.samples) < 6 {
		r.samples = append(r.samples, v)
	}
	r.mu.Unlock()
}

func (r *Run) Assume(s string) { r.assume = append(r.assume, s) }
func (r *Run) Note(s string)   { r.mu.Lock(); r.notes = append(r.notes, s); r.mu.Unlock() }

// Broken records a machinery failure (exit 2, nothing concluded).
func (r *Run) Broken(format string, a ...any) {
	r.mu.Lock()
	msg := fmt.Sprintf(format, a...)
	r.broken = append(r.broken, msg)
	r.mu.Unlock()
	fmt.Printf("MACHINERY-FAILURE property=%s %s\n", r.ID, msg)
}

// Mismatch reports a deviation reproduced on the real code. sig identifies the class of input / call
// site; replay is stored so that `--replay` can re-run it. Open findings with the same sig are printed
// as KNOWN-FINDING; everything else is a VIOLATION.
func (r *Run) Mismatch(sig, what string, replay any) {
	r.mu.Lock()
	defer r.mu.Unlock()
	if r.OnlySig != "" && sig != r.OnlySig {
		return
	}
	if f, ok := r.isOpen(sig); ok {
		r.knownHit[sig]++
		if r.knownHit[sig] == 1 {
			fmt.Printf("KNOWN-FINDING: property=%s sig=%s %s [e.g. %s]\n", r.ID, sig, f.Text, what)
		}
		return
	}
	if strings.Contains(sig, "hang") || strings.Contains(sig, "does-not-return") {
		// a call that does not return costs its whole deadline: once a dozen of them are on record the verdict stands
		// and the run ends (a change that makes every massive-mode call hang would otherwise keep the check busy for hours)
		r.hangs++
		if r.hangs >= 12 && len(r.violations) > 0 {
			fmt.Printf("NOTE property=%s: %d calls did not return within their deadline; the run ends here with the violations reported so far\n", r.ID, r.hangs)
			r.counters["ended_early_after_hangs"] = r.hangs
			r.mu.Unlock()
			code := r.Finish(r.Level)
			os.Exit(code)
		}
	}
	if _, seen := r.violations[sig]; seen {
		r.counters["violation_instances"]++
		return
	}
	b, _ := json.MarshalIndent(map[string]any{"property": r.ID, "sig": sig, "what": what, "replay": replay,
		"tier": r.Tier, "seed": r.Seed}, "", " ")
	h := sha1.Sum(b)
	dir := filepath.Join(Root, "replays")
	os.MkdirAll(dir, 0o755)
	path := filepath.Join(dir, fmt.Sprintf("%s-%s.json", r.ID, hex.EncodeToString(h[:6])))
	os.WriteFile(path, b, 0o644)
	r.violations[sig] = path
	r.counters["violation_instances"]++
	fmt.Printf("VIOLATION property=%s replay=%s\n", r.ID, path)
	fmt.Printf("  sig=%s\n  %s\n", sig, what)
}

func (r *Run) Violations() int { r.mu.Lock(); defer r.mu.Unlock(); return len(r.violations) }

// Finish writes the evidence file and returns the exit status.
func (r *Run) Finish(level string) int {
	r.mu.Lock()
	defer r.mu.Unlock()
	for k, v := range r.counters {
		r.cov[k] = v
	}
	if _, ok := r.cov["traces_validated_against_impl"]; !ok {
		r.cov["traces_validated_against_impl"] = 0
	}
	if _, ok := r.cov["evaluations"]; !ok {
		r.cov["evaluations"] = r.counters["real_calls"]
	}
	if len(r.samples) > 0 {
		r.cov["samples"] = r.samples
	}
	hit := []string{}
	for s, n := range r.knownHit {
		hit = append(hit, fmt.Sprintf("%s x%d", s, n))
	}
	sort.Strings(hit)
	r.cov["known_findings_hit"] = hit
	if len(r.notes) > 0 {
		r.cov["notes"] = r.notes
	}
	if len(r.broken) > 0 {
		r.cov["machinery_failures"] = r.broken
	}
	ev := Evidence{PropertyID: r.ID, Tier: r.Tier, Seed: r.Seed, Level: level, Coverage: r.cov,
		Assumptions: r.assume, WallS: time.Since(r.Start).Seconds(), Violations: len(r.violations)}
	b, _ := json.MarshalIndent(ev, "", " ")
	// evidence/<id>.json exists for the properties only (selftest and the debugging entries are not properties)
	if len(r.ID) == 3 && r.ID[0] == 'C' {
		os.MkdirAll(filepath.Join(Root, "evidence"), 0o755)
		if err := os.WriteFile(filepath.Join(Root, "evidence", r.ID+".json"), b, 0o644); err != nil {
			fmt.Println("cannot write evidence:", err)
			return 2
		}
	}
	switch {
	case len(r.violations) > 0:
		return 1
	case len(r.broken) > 0:
		return 2
	}
	fmt.Printf("OK property=%s tier=%s seed=%d wall=%.1fs\n", r.ID, r.Tier, r.Seed, time.Since(r.Start).Seconds())
	return 0
}
