---------------------------- MODULE SessionProof ----------------------------
(***************************************************************************)
(* TLC checks Session.tla for sessions of at most MaxLen calls.  This      *)
(* module proves (TLAPS) the same statement for sessions of ANY length:    *)
(* in the specified design (Dev = {}) no call leaves a residue, so every   *)
(* call of every session gives the result it gives alone.                  *)
(*   tlapm --threads 16 SessionProof.tla                                   *)
(***************************************************************************)
EXTENDS Session, TLAPS

ASSUME DesignHasNoDeviation == Dev = {}

\* the session machine without the length bound
CallU(c) ==
  /\ hist' = Append(hist, c)
  /\ res' = Append(res, Result(c, residue))
  /\ residue' = residue \cup Leaves(c)
  /\ UNCHANGED overlap
\* two calls at the same time, at any point of the session
CallPairU(c1, c2) ==
  /\ hist' = Append(Append(hist, c1), c2)
  /\ res' = Append(Append(res, Result(c1, residue \cup Leaves(c2))), Result(c2, residue \cup Leaves(c1)))
  /\ residue' = residue \cup Leaves(c1) \cup Leaves(c2)
  /\ overlap' = overlap \cup {Len(hist) + 1}
NextU == \/ \E c \in Calls : CallU(c)
         \/ \E c1, c2 \in Calls : CallPairU(c1, c2)
SpecU == Init /\ [][NextU]_svars

Results == {Alone(c) : c \in Calls}

IndInv ==
  /\ residue = {}
  /\ hist \in Seq(Calls)
  /\ res \in Seq(Results)
  /\ Len(res) = Len(hist)
  /\ \A i \in 1..Len(hist) : res[i] = Alone(hist[i])

LEMMA NothingLeft == \A c \in Calls : Leaves(c) = {}
  BY DesignHasNoDeviation DEF Leaves

LEMMA AloneWhenClean == \A c \in Calls : Result(c, {}) = Alone(c)
  BY DEF Result, Disturbs

LEMMA InitInv == Init => IndInv
  BY DEF Init, IndInv, Results

LEMMA StepInv == IndInv /\ [NextU]_svars => IndInv'
<1> SUFFICES ASSUME IndInv, [NextU]_svars PROVE IndInv'
  OBVIOUS
<1>1. CASE UNCHANGED svars
  BY <1>1 DEF IndInv, svars, Results
<1>2. CASE \E c \in Calls : CallU(c)
  <2>1. PICK c \in Calls : CallU(c)
    BY <1>2
  <2>2. Result(c, residue) = Alone(c) /\ Alone(c) \in Results
    BY AloneWhenClean DEF IndInv, Results
  <2>3. residue' = {}
    BY <2>1, NothingLeft DEF CallU, IndInv
  <2>4. hist' \in Seq(Calls) /\ res' \in Seq(Results) /\ Len(res') = Len(hist')
    BY <2>1, <2>2 DEF CallU, IndInv
  <2>5. \A i \in 1..Len(hist') : res'[i] = Alone(hist'[i])
    BY <2>1, <2>2 DEF CallU, IndInv
  <2> QED
    BY <2>3, <2>4, <2>5 DEF IndInv
<1>3. CASE \E c1, c2 \in Calls : CallPairU(c1, c2)
  <2>1. PICK c1 \in Calls, c2 \in Calls : CallPairU(c1, c2)
    BY <1>3
  <2>2. /\ Result(c1, residue \cup Leaves(c2)) = Alone(c1) /\ Alone(c1) \in Results
        /\ Result(c2, residue \cup Leaves(c1)) = Alone(c2) /\ Alone(c2) \in Results
    BY AloneWhenClean, NothingLeft DEF IndInv, Results
  <2>3. residue' = {}
    BY <2>1, NothingLeft DEF CallPairU, IndInv
  <2> DEFINE h1 == Append(hist, c1)
             r1 == Append(res, Alone(c1))
  <2>4. /\ h1 \in Seq(Calls) /\ r1 \in Seq(Results) /\ Len(r1) = Len(h1)
        /\ \A i \in 1..Len(h1) : r1[i] = Alone(h1[i])
    BY <2>2 DEF IndInv
  <2>5. hist' = Append(h1, c2) /\ res' = Append(r1, Alone(c2))
    BY <2>1, <2>2 DEF CallPairU
  <2>6. hist' \in Seq(Calls) /\ res' \in Seq(Results) /\ Len(res') = Len(hist')
    BY <2>2, <2>4, <2>5
  <2>7. \A i \in 1..Len(hist') : res'[i] = Alone(hist'[i])
    BY <2>2, <2>4, <2>5
  <2> QED
    BY <2>3, <2>6, <2>7 DEF IndInv
<1> QED
  BY <1>1, <1>2, <1>3 DEF NextU

THEOREM AnyLength == SpecU => [](CallsAreIndependent /\ NoResidue)
<1>1. IndInv => CallsAreIndependent /\ NoResidue
  BY DEF IndInv, CallsAreIndependent, NoResidue
<1> QED
  BY InitInv, StepInv, <1>1, PTL DEF SpecU
=============================================================================
