---------------------------- MODULE SessionProof ----------------------------
(***************************************************************************)
(* TLC checks Session.tla for sessions of at most MaxLen calls.  This      *)
(* module proves (TLAPS) the same statement for sessions of ANY length:    *)
(* in the specified design (Dev = {}) no call leaves a residue, so every   *)
(* call of every session gives the result it gives alone.                  *)
(*   tlapm --threads 16 SessionProof.tla                                   *)
(***************************************************************************)
EXTENDS Session, TLAPS

ASSUME DesignHasNoDeviation == Dev = {}

\* the session machine without the length bound
CallU(c) ==
  /\ hist' = Append(hist, c)
  /\ res' = Append(res, Result(c, residue))
  /\ residue' = residue \cup Leaves(c)
NextU == \E c \in Calls : CallU(c)
SpecU == Init /\ [][NextU]_svars

Results == {Alone(c) : c \in Calls}

IndInv ==
  /\ residue = {}
  /\ hist \in Seq(Calls)
  /\ res \in Seq(Results)
  /\ Len(res) = Len(hist)
  /\ \A i \in 1..Len(hist) : res[i] = Alone(hist[i])

LEMMA NothingLeft == \A c \in Calls : Leaves(c) = {}
  BY DesignHasNoDeviation DEF Leaves

LEMMA AloneWhenClean == \A c \in Calls : Result(c, {}) = Alone(c)
  BY DEF Result, Disturbs

LEMMA InitInv == Init => IndInv
  BY DEF Init, IndInv, Results

LEMMA StepInv == IndInv /\ [NextU]_svars => IndInv'
<1> SUFFICES ASSUME IndInv, [NextU]_svars PROVE IndInv'
  OBVIOUS
<1>1. CASE UNCHANGED svars
  BY <1>1 DEF IndInv, svars, Results
<1>2. CASE NextU
  <2>1. PICK c \in Calls : CallU(c)
    BY <1>2 DEF NextU
  <2>2. Result(c, residue) = Alone(c) /\ Alone(c) \in Results
    BY AloneWhenClean DEF IndInv, Results
  <2>3. residue' = {}
    BY <2>1, NothingLeft DEF CallU, IndInv
  <2>4. hist' \in Seq(Calls) /\ res' \in Seq(Results) /\ Len(res') = Len(hist')
    BY <2>1, <2>2 DEF CallU, IndInv
  <2>5. \A i \in 1..Len(hist') : res'[i] = Alone(hist'[i])
    BY <2>1, <2>2 DEF CallU, IndInv
  <2> QED
    BY <2>3, <2>4, <2>5 DEF IndInv
<1> QED
  BY <1>1, <1>2

THEOREM AnyLength == SpecU => [](CallsAreIndependent /\ NoResidue)
<1>1. IndInv => CallsAreIndependent /\ NoResidue
  BY DEF IndInv, CallsAreIndependent, NoResidue
<1> QED
  BY InitInv, StepInv, <1>1, PTL DEF SpecU
=============================================================================
