SPECIFICATION FairSpec
CONSTANTS
  N = 3
  W = 2
  Fates <- GenGrowFates
  ReaderFails <- NoReaderFail
  Entry = "md"
  Sink = "text"
  CanCancel = FALSE
  PreCancelled = FALSE
  Dev = {"ErrSendBlocks"}
PROPERTIES Termination NoLeak
CHECK_DEADLOCK FALSE
