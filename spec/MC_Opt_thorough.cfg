SPECIFICATION Spec
CONSTANTS
  OptToks <- Opt_All
  MaxOpts = 3
  Ops <- AllOps
  Dev <- AsBuilt
INVARIANTS Idempotent NilIsNeutral FamiliesAgree OptionsMeanWhatTheySay
CHECK_DEADLOCK FALSE
