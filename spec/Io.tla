--------------------------------- MODULE Io ---------------------------------
(***************************************************************************)
(* Reader and writer failures (C14).                                       *)
(*                                                                         *)
(* READER.  bufio.Scanner over a reader that fails after `k` tokens of the *)
(* document: the complete lines before the failure are delivered, then the *)
(* truncated rest of the current line (if any) as a last token, then       *)
(* Scanner.Err() is the reader's error.  The generators parse every        *)
(* delivered line; with "TruncatedLineWins" \in Dev a parse error on the   *)
(* truncated line is returned instead of the reader's error (as built).    *)
(* A reader may fail ONCE (a timeout) and deliver the rest if it is read   *)
(* again: the scanner never reads again after an error, the call returns   *)
(* that error all the same; with "ReadRetried" \in Dev something in front  *)
(* of the scanner consumes the error and reads on (a seeded change did).   *)
(*                                                                         *)
(* WRITER.  A sink performs a sequence of Write calls (text: one per row;  *)
(* encoders: one per root; dry-run: one flush per root or one at the end). *)
(* The writer refuses call number `at` ("fail": accepts nothing, "short":  *)
(* accepts a proper prefix, "full": accepts every byte; all return an      *)
(* error; "-once": later calls succeed again).  Sinks react as the         *)
(* code does: return the error at once, or (named deviations) ignore it.   *)
(***************************************************************************)
EXTENDS MdDoc, Forest, TLC

CONSTANT Dev

---------------------------------------------------------------------------
\* the token stream of a document: lines joined by NL
RECURSIVE DocToks(_)
DocToks(doc) == IF doc = <<>> THEN <<>> ELSE Head(doc) \o <<"NL">> \o DocToks(Tail(doc))

RECURSIVE SplitNL(_)
SplitNL(ts) ==
  LET i == IndexOf(ts, "NL") IN
  IF i = 0 THEN (IF ts = <<>> THEN <<>> ELSE <<ts>>)          \* a last line without a terminator
  ELSE <<SubSeq(ts, 1, i - 1)>> \o SplitNL(SubSeq(ts, i + 1, Len(ts)))

\* what the scanner delivers when the reader fails after k tokens
Delivered(doc, k) == SplitNL(SubSeq(DocToks(doc), 1, k))

\* result of a From-Markdown call whose reader fails after k tokens (k = Len(DocToks(doc)): no failure... the
\* error is still returned at the end of input instead of EOF)
ReadResult(doc, k, gen, sticky) ==
  LET gs == GenRun(Delivered(doc, k), gen, {}) IN
  IF ~sticky /\ "ReadRetried" \in Dev
  THEN (IF GenRun(doc, gen, {}).status = "err" THEN "parseErr" ELSE "nil")   \* the whole document arrives after all
  ELSE IF gs.status = "err" /\ "TruncatedLineWins" \in Dev /\ gs.errline = Len(Delivered(doc, k))
  THEN "parseErr"                                      \* the truncated last line is malformed
  ELSE IF gs.status = "err" /\ gs.errline < Len(Delivered(doc, k)) THEN "parseErr"   \* a complete line was malformed: not the reader's fault
  ELSE "readerErr"

---------------------------------------------------------------------------
\* sinks: kind -> the write calls for a forest (each a sequence of rows) and the reaction to a refusal
SinkKinds == {"text", "enc", "dry-iter", "dry-once"}

Writes(kind, f) ==
  CASE kind = "text"     -> [i \in 1..Len(RuleRows(f)) |-> <<RuleRows(f)[i]>>]   \* fmt.Fprint per line
    [] kind = "enc"      -> [i \in 1..Len(f) |-> RootRows(f[i])]                  \* one Encode per root
    [] kind = "dry-iter" -> [i \in 1..Len(f) |-> RootRows(f[i])]                  \* flush per root
    [] kind = "dry-once" -> IF f = <<>> THEN <<>> ELSE <<RuleRows(f)>>            \* one write at the end

Ignores(kind) ==
  \/ kind = "text" /\ "TextWriteErrIgnored" \in Dev
  \/ kind = "dry-iter" /\ "DryIterErrDropped" \in Dev

\* fate = [how |-> "never" | "fail" | "short", at |-> call index]
\* result = [ret, ncalls (Write calls performed), accepted (calls fully accepted)]
WriteResult(kind, f, fate) ==
  LET ws  == Writes(kind, f)
      hit == fate.how # "never" /\ fate.at <= Len(ws)        \* ("fail-once": only that call is refused, later ones succeed again)
  IN IF ~hit THEN [ret |-> "nil", ncalls |-> Len(ws), refused |-> FALSE]
     ELSE IF Ignores(kind) THEN [ret |-> "nil", ncalls |-> Len(ws), refused |-> TRUE]
     ELSE [ret |-> "err", ncalls |-> fate.at, refused |-> TRUE]
=============================================================================
