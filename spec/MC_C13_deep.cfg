SPECIFICATION Spec
CONSTANTS
  ApiNames <- Api_Names1
  MaxCalls = 7
  MaxNodes = 6
  Kinds = {"tree", "text"}
  LastBy = "identity"
  ResetIdx = TRUE
  OpsAtEnd = 2
  Interleave = TRUE
  BadArgs = FALSE
  Iters = FALSE
INVARIANTS HistoryIndependent NoDuplicateSiblings
CHECK_DEADLOCK FALSE
