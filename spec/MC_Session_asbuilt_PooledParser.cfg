SPECIFICATION Spec
CONSTANTS
  Calls <- AllCalls
  MaxLen = 2
  Dev = {"PooledParser"}
INVARIANTS CallsAreIndependent
CHECK_DEADLOCK FALSE
