------------------------------ MODULE Pipeline ------------------------------
(***************************************************************************)
(* Massive mode: pipeline_tree*.go, input_spliter.go, the pipeline form of *)
(* root_generator.go.                                                      *)
(*                                                                         *)
(*   split --blocks--> gen[1..W] --roots--> grow[1..W] --nodes--> sink[..] *)
(*   (or, for the From-Root entry points:  feeder --roots--> grow ...)     *)
(*   one error channel per stage (split: capacity 0, others: capacity 1),  *)
(*   one closer per stage (wg.Wait; close(out); close(errc)),              *)
(*   handlePipelineErr: one errgroup goroutine per error channel, each     *)
(*   doing ONE select { <-errc | <-ectx.Done() }, then eg.Wait(), then the *)
(*   deferred cancel() of the pipeline's context.                          *)
(*                                                                         *)
(* Every hand-over point is an action.  A `select` is modelled coarsely:   *)
(* any arm that is ready may fire; a process "at" a select stands both for *)
(* a goroutine parked in it and for one that has not entered it yet, so    *)
(* every behaviour is one the Go scheduler can produce.  An unbuffered     *)
(* hand-over is one joint step of sender and receiver.                     *)
(*                                                                         *)
(* Blocks 1..N; fate[b] says at which stage block b fails ("ok": never).   *)
(* Dev: deviations switched on (as-built behaviours)                       *)
(*   "ErrSendBlocks"     error sends have no ctx.Done() arm                *)
(*   "FeederBlocks"      the From-Root feeder's send has no ctx.Done() arm *)
(*   "NilOnCancel"       eg.Wait()'s nil is returned although the caller's *)
(*                       context was cancelled before the work finished    *)
(*   "LastSendNoCtx"     the splitter hands over its LAST block with a     *)
(*                       plain send after one look at the context (a       *)
(*                       seeded change): nobody may be left to take it     *)
(***************************************************************************)
EXTENDS Naturals, Sequences, FiniteSets, TLC

CONSTANTS
  N,            \* number of root blocks
  W,            \* workers per stage
  Fates,        \* set of fate vectors [1..N -> {"ok","genErr","growErr","sinkErr"}]
  ReaderFails,  \* set of positions r \in 0..N ("reader fails after r blocks") plus N+1 = never
  Entry,        \* "md" (split + gen) | "root" (feeder)
  Sink,         \* "text" | "enc" | "dry" | "mkdir" | "verify" | "walk"
  CanCancel,    \* the caller's context may be cancelled at any moment
  PreCancelled, \* ... or is already cancelled when the call starts
  Dev

Stages == <<"gen", "grow", "sink">>
StageSet == IF Entry = "md" THEN {"gen", "grow", "sink"} ELSE {"grow", "sink"}
ErrChans == IF Entry = "md" THEN {"split", "gen", "grow", "sink"} ELSE {"grow", "sink"}
Down(s) == CASE s = "split" -> "gen" [] s = "feeder" -> "grow" [] s = "gen" -> "grow" [] s = "grow" -> "sink" [] OTHER -> "none"
ErrCap(c) == IF c = "split" THEN 0 ELSE 1

\* the encoder and dry-run spreaders are a single goroutine (which also closes its error channel)
SinkWorkers == IF Sink \in {"enc", "dry"} THEN 1 ELSE W
\* (until fix 45df1cf an encoding option selected a pass-through grower with one goroutine; now every sink has the real grower)
NW(s) == IF s = "sink" THEN SinkWorkers ELSE W
\* sinks that keep looping after reporting an error (no return after errc <- err)
SinkContinues == Sink \in {"enc", "verify", "walk"}

P(t, s, i) == [t |-> t, s |-> s, i |-> i]
Split  == P("split", "split", 0)
Feeder == P("feeder", "feeder", 0)
Wk(s, i) == P("w", s, i)
Closer(s) == P("closer", s, 0)
H(c) == P("h", c, 0)
Main == P("main", "main", 0)

WorkersOf(s) == {Wk(s, i) : i \in 1..NW(s)}
Procs == (IF Entry = "md" THEN {Split} ELSE {Feeder})
         \cup UNION {WorkersOf(s) : s \in StageSet}
         \cup {Closer(s) : s \in StageSet}
         \cup {H(c) : c \in ErrChans}
         \cup {Main}

VARIABLES
  pc,         \* program counter per process
  item,       \* block held by a process (0 = none)
  fate,       \* chosen fate vector
  readerFail, \* chosen reader failure position
  next,       \* next block the splitter will produce
  chClosed,   \* chClosed[s]: the data channel INTO stage s is closed
  errbuf,     \* errbuf[c]: errors buffered in error channel c
  errClosed,  \* error channel closed
  ctxDone,    \* the pipeline's context (cancelled by the caller's context or by the deferred cancel)
  ectxDone,   \* the errgroup's context
  userCancel, \* the caller's context is cancelled
  early,      \* ... and it was cancelled before all the work was done
  egErr,      \* first non-nil error returned by a handler: "nil" | "err" | "ctx"
  result,     \* what the call returned ("none" before)
  mutex,      \* holder of the text spreader's mutex (0 = free; else the worker index)
  out,        \* sequence of <<block, part>> writes / creations / visits
  errsSent    \* number of errors a continuing sink worker still has to send for its current item

vars == <<pc, item, fate, readerFail, next, chClosed, errbuf, errClosed, ctxDone, ectxDone, userCancel, early,
          egErr, result, mutex, out, errsSent>>

Parts == 2                                   \* a block is written in two parts (so that interleaving is observable)
DoneBlocks == {b \in 1..N : \E i \in 1..Len(out) : out[i] = <<b, Parts>>}
FailStage(b) == CASE fate[b] = "genErr" -> "gen" [] fate[b] = "growErr" -> "grow" [] fate[b] = "sinkErr" -> "sink" [] OTHER -> "none"
Faulty == (\E b \in 1..N : fate[b] # "ok" /\ (Entry = "md" \/ fate[b] # "genErr")) \/ (Entry = "md" /\ readerFail <= N)
\* blocks that must come out when nothing fails
AllWork == IF Entry = "md" THEN 1..N ELSE {1}

Init ==
  /\ fate \in Fates
  /\ readerFail \in ReaderFails
  /\ pc = [p \in Procs |->
            CASE p.t = "split"  -> "scan"
              [] p.t = "feeder" -> "send"
              [] p.t = "w"      -> "recv"
              [] p.t = "closer" -> "wait"
              [] p.t = "h"      -> "select"
              [] p.t = "main"   -> "wait"]
  /\ item = [p \in Procs |-> IF p.t = "feeder" THEN 1 ELSE 0]
  /\ next = 1
  /\ chClosed = [s \in {"gen", "grow", "sink"} |-> FALSE]
  /\ errbuf = [c \in ErrChans |-> 0]
  /\ errClosed = [c \in ErrChans |-> FALSE]
  /\ userCancel \in (IF PreCancelled THEN {FALSE, TRUE} ELSE {FALSE})
  /\ ctxDone = userCancel /\ ectxDone = userCancel /\ early = userCancel
  /\ egErr = "nil" /\ result = "none" /\ mutex = 0 /\ out = <<>>
  /\ errsSent = [p \in Procs |-> 0]

Set(p, v) == pc' = [pc EXCEPT ![p] = v]
Set2(p, v, q, u) == pc' = [pc EXCEPT ![p] = v, ![q] = u]
ErrArm == "ErrSendBlocks" \notin Dev          \* error sends also select on ctx.Done()

---------------------------------------------------------------------------
(* splitter *)
\* strict = FALSE is used by trace validation: the hook that logs the outcome runs a moment after the poll, so a
\* cancellation may be logged in between
SplitScanCore(strict) ==
  /\ pc[Split] = "scan"
  \* every scanned line polls the context (select with default: a cancelled context is always seen); the LAST
  \* block is sent after the loop, at EOF, without a poll in between
  /\ \/ /\ ctxDone /\ next <= N /\ Set(Split, "exit") /\ UNCHANGED <<item, next>>
     \/ /\ next <= N /\ readerFail >= next /\ ((strict /\ ctxDone) => next = N)
        /\ Set(Split, "send") /\ item' = [item EXCEPT ![Split] = next] /\ next' = next + 1
     \/ /\ next <= N + 1 /\ readerFail = next - 1 /\ readerFail <= N
        /\ Set(Split, "errsend") /\ UNCHANGED <<item, next>>
     \/ /\ next > N /\ readerFail > N /\ Set(Split, "exit") /\ UNCHANGED <<item, next>>
  /\ UNCHANGED <<fate, readerFail, chClosed, errbuf, errClosed, ctxDone, ectxDone, userCancel, early, egErr, result, mutex, out, errsSent>>

SplitScan == SplitScanCore(TRUE)

\* data hand-over from p (at "send") to a worker of the next stage (at "recv"): one joint step
Xfer(p, s) ==
  /\ pc[p] = "send"
  /\ \E q \in WorkersOf(s) :
       /\ pc[q] = "recv"
       /\ item' = [item EXCEPT ![q] = item[p], ![p] = 0]
       /\ Set2(p, IF p.t = "split" THEN "scan" ELSE IF p.t = "feeder" THEN "exit" ELSE "recv", q, "work")
  /\ UNCHANGED <<fate, readerFail, next, chClosed, errbuf, errClosed, ctxDone, ectxDone, userCancel, early, egErr, result, mutex, out, errsSent>>

SendCancel(p) ==                              \* case <-ctx.Done(): return
  /\ pc[p] = "send" /\ ctxDone
  /\ (p.t = "feeder" => "FeederBlocks" \notin Dev)
  /\ (p.t = "split" /\ item[p] = N => "LastSendNoCtx" \notin Dev)
  /\ Set(p, IF p.t \in {"split", "feeder"} THEN "exit" ELSE "done")
  /\ UNCHANGED <<item, fate, readerFail, next, chClosed, errbuf, errClosed, ctxDone, ectxDone, userCancel, early, egErr, result, mutex, out, errsSent>>

\* the splitter's error channel has capacity 0: a send is a hand-over to its handler
SplitErrSend ==
  /\ pc[Split] = "errsend"
  /\ \/ /\ pc[H("split")] = "select"
        /\ Set2(Split, "exit", H("split"), "done")
        /\ egErr' = IF egErr = "nil" THEN "err" ELSE egErr
        /\ ectxDone' = TRUE
     \/ /\ ErrArm /\ ctxDone /\ Set(Split, "exit") /\ UNCHANGED <<egErr, ectxDone>>
  /\ UNCHANGED <<item, fate, readerFail, next, chClosed, errbuf, errClosed, ctxDone, userCancel, early, result, mutex, out, errsSent>>

\* deferred close(blockc); close(errc)   (the feeder: defer close(rootStream))
SourceExit(p) ==
  /\ pc[p] = "exit"
  /\ Set(p, "done")
  /\ chClosed' = [chClosed EXCEPT ![Down(p.s)] = TRUE]
  /\ errClosed' = IF p.t = "split" THEN [errClosed EXCEPT !["split"] = TRUE] ELSE errClosed
  /\ UNCHANGED <<item, fate, readerFail, next, errbuf, ctxDone, ectxDone, userCancel, early, egErr, result, mutex, out, errsSent>>

---------------------------------------------------------------------------
(* workers *)
Upstream(s) == IF s = "gen" THEN {Split} ELSE IF s = "grow" /\ Entry = "root" THEN {Feeder} ELSE WorkersOf(IF s = "grow" THEN "gen" ELSE "grow")

RecvCancel(p) ==
  /\ pc[p] = "recv" /\ ctxDone /\ Set(p, "done")
  /\ UNCHANGED <<item, fate, readerFail, next, chClosed, errbuf, errClosed, ctxDone, ectxDone, userCancel, early, egErr, result, mutex, out, errsSent>>

RecvClosed(p) ==
  /\ pc[p] = "recv" /\ chClosed[p.s] /\ Set(p, "done")
  /\ UNCHANGED <<item, fate, readerFail, next, chClosed, errbuf, errClosed, ctxDone, ectxDone, userCancel, early, egErr, result, mutex, out, errsSent>>

\* purely local computation on the received block
Work(p) ==
  /\ pc[p] = "work"
  /\ LET b == item[p] IN
     IF FailStage(b) = p.s /\ p.s = "sink" /\ Sink = "text" THEN
        \* the text spreader's failure is a failing Write: it happens UNDER the mutex, which is released before the error is sent
        /\ mutex = 0 /\ mutex' = p.i /\ Set(p, "wfail") /\ UNCHANGED <<out, errsSent>>
     ELSE IF FailStage(b) = p.s THEN
        /\ Set(p, "errsend")
        /\ errsSent' = [errsSent EXCEPT ![p] = 1]   \* (verifyRoot's error and handleErr's exclude each other)
        /\ UNCHANGED <<mutex, out>>
     ELSE IF p.s # "sink" THEN Set(p, "send") /\ UNCHANGED <<mutex, out, errsSent>>
     ELSE IF Sink = "text" THEN
        /\ mutex = 0 /\ mutex' = p.i /\ Set(p, "w1") /\ UNCHANGED <<out, errsSent>>      \* ds.Lock()
     ELSE /\ out' = out \o <<<<b, 1>>, <<b, 2>>>> /\ Set(p, "recv") /\ item' = [item EXCEPT ![p] = 0]
          /\ UNCHANGED <<mutex, errsSent>>
  /\ (pc'[p] # "recv" => UNCHANGED item)
  /\ UNCHANGED <<fate, readerFail, next, chClosed, errbuf, errClosed, ctxDone, ectxDone, userCancel, early, egErr, result>>

\* the text spreader writes a block line by line under its mutex
WritePart(p) ==
  /\ pc[p] \in {"w1", "w2"}
  /\ out' = Append(out, <<item[p], IF pc[p] = "w1" THEN 1 ELSE 2>>)
  /\ IF pc[p] = "w1" THEN Set(p, "w2") /\ UNCHANGED <<mutex, item>>
     ELSE Set(p, "recv") /\ mutex' = 0 /\ item' = [item EXCEPT ![p] = 0]               \* ds.Unlock()
  /\ UNCHANGED <<fate, readerFail, next, chClosed, errbuf, errClosed, ctxDone, ectxDone, userCancel, early, egErr, result, errsSent>>

\* ds.Unlock() after a failed write, then the error is reported
WriteFail(p) ==
  /\ pc[p] = "wfail"
  /\ mutex' = 0 /\ Set(p, "errsend") /\ errsSent' = [errsSent EXCEPT ![p] = 1]
  /\ UNCHANGED <<item, fate, readerFail, next, chClosed, errbuf, errClosed, ctxDone, ectxDone, userCancel, early, egErr, result, out>>

\* both parts in one step (trace validation: the writes between Lock and Unlock are not logged one by one)
WriteBoth(p) ==
  /\ pc[p] = "w1"
  /\ out' = out \o <<<<item[p], 1>>, <<item[p], 2>>>>
  /\ Set(p, "recv") /\ mutex' = 0 /\ item' = [item EXCEPT ![p] = 0]
  /\ UNCHANGED <<fate, readerFail, next, chClosed, errbuf, errClosed, ctxDone, ectxDone, userCancel, early, egErr, result, errsSent>>

\* errc <- err : buffered if there is room, otherwise blocked (until the context is done, when ErrArm)
ErrSend(p) ==
  /\ pc[p] = "errsend"
  /\ LET cont == p.s = "sink" /\ SinkContinues IN
     \/ /\ errbuf[p.s] < ErrCap(p.s)
        /\ errbuf' = [errbuf EXCEPT ![p.s] = @ + 1]
        /\ errsSent' = [errsSent EXCEPT ![p] = @ - 1]
        /\ IF errsSent[p] > 1 THEN UNCHANGED <<pc, item>>
           ELSE IF cont THEN Set(p, "recv") /\ item' = [item EXCEPT ![p] = 0]
           ELSE Set(p, "done") /\ UNCHANGED item
     \/ /\ ErrArm /\ ctxDone /\ UNCHANGED <<errbuf, errsSent>>        \* case <-ctx.Done(): the send is given up
        /\ IF cont THEN Set(p, "recv") /\ item' = [item EXCEPT ![p] = 0]   \* (these sinks go on with their loop)
           ELSE Set(p, "done") /\ UNCHANGED item
  /\ UNCHANGED <<fate, readerFail, next, chClosed, errClosed, ctxDone, ectxDone, userCancel, early, egErr, result, mutex, out>>

\* a buffered error send immediately followed by the handler's receive (one joint step; used by trace
\* validation when the handler logged its receive before the sender logged the end of its send)
SendAndRecv(p) ==
  /\ pc[p] = "errsend" /\ errbuf[p.s] < ErrCap(p.s) /\ pc[H(p.s)] = "select"
  /\ LET cont == p.s = "sink" /\ SinkContinues IN
     /\ errsSent' = [errsSent EXCEPT ![p] = @ - 1]
     /\ IF cont THEN pc' = [pc EXCEPT ![p] = "recv", ![H(p.s)] = "done"] /\ item' = [item EXCEPT ![p] = 0]
        ELSE pc' = [pc EXCEPT ![p] = "done", ![H(p.s)] = "done"] /\ UNCHANGED item
  /\ egErr' = IF egErr = "nil" THEN "err" ELSE egErr
  /\ ectxDone' = TRUE
  /\ UNCHANGED <<fate, readerFail, next, chClosed, errbuf, errClosed, ctxDone, userCancel, early, result, mutex, out>>

\* wg.Wait(); close(out); close(errc)
CloserRun(s) ==
  /\ pc[Closer(s)] = "wait"
  /\ \A p \in WorkersOf(s) : pc[p] = "done"
  /\ Set(Closer(s), "done")
  /\ chClosed' = IF s = "sink" THEN chClosed ELSE [chClosed EXCEPT ![Down(s)] = TRUE]
  /\ errClosed' = [errClosed EXCEPT ![s] = TRUE]
  /\ UNCHANGED <<item, fate, readerFail, next, errbuf, ctxDone, ectxDone, userCancel, early, egErr, result, mutex, out, errsSent>>

---------------------------------------------------------------------------
(* handlePipelineErr *)
HandlerRecv(c) ==                              \* case err, ok := <-errc  with a buffered error
  /\ pc[H(c)] = "select" /\ errbuf[c] > 0
  /\ errbuf' = [errbuf EXCEPT ![c] = @ - 1]
  /\ egErr' = IF egErr = "nil" THEN "err" ELSE egErr
  /\ ectxDone' = TRUE                           \* errgroup cancels its context on the first error
  /\ Set(H(c), "done")
  /\ UNCHANGED <<item, fate, readerFail, next, chClosed, errClosed, ctxDone, userCancel, early, result, mutex, out, errsSent>>

HandlerClosed(c) ==                            \* !ok : return nil
  /\ pc[H(c)] = "select" /\ errClosed[c] /\ errbuf[c] = 0
  /\ Set(H(c), "done")
  /\ UNCHANGED <<item, fate, readerFail, next, chClosed, errbuf, errClosed, ctxDone, ectxDone, userCancel, early, egErr, result, mutex, out, errsSent>>

HandlerCtx(c) ==                               \* case <-ectx.Done(): return ectx.Err()
  /\ pc[H(c)] = "select" /\ ectxDone
  /\ egErr' = IF egErr = "nil" THEN "ctx" ELSE egErr
  /\ Set(H(c), "done")
  /\ UNCHANGED <<item, fate, readerFail, next, chClosed, errbuf, errClosed, ctxDone, ectxDone, userCancel, early, result, mutex, out, errsSent>>

MainWait ==                                    \* eg.Wait() returns
  /\ pc[Main] = "wait" /\ \A c \in ErrChans : pc[H(c)] = "done"
  \* (repaired code: a nil from eg.Wait() becomes the caller's ctx.Err() if that context is cancelled)
  /\ result' = IF egErr = "nil" /\ userCancel /\ "NilOnCancel" \notin Dev THEN "ctx" ELSE egErr
  /\ Set(Main, "cancel")
  /\ UNCHANGED <<item, fate, readerFail, next, chClosed, errbuf, errClosed, ctxDone, ectxDone, userCancel, early, egErr, mutex, out, errsSent>>

MainCancel ==                                  \* deferred cancel()
  /\ pc[Main] = "cancel" /\ Set(Main, "done")
  /\ ctxDone' = TRUE /\ ectxDone' = TRUE
  /\ UNCHANGED <<item, fate, readerFail, next, chClosed, errbuf, errClosed, userCancel, early, egErr, result, mutex, out, errsSent>>

EnvCancel ==                                   \* the caller cancels its context
  /\ CanCancel /\ ~userCancel /\ pc[Main] = "wait"
  /\ userCancel' = TRUE /\ ctxDone' = TRUE /\ ectxDone' = TRUE
  /\ early' = (DoneBlocks # AllWork)
  /\ UNCHANGED <<pc, item, fate, readerFail, next, chClosed, errbuf, errClosed, egErr, result, mutex, out, errsSent>>

AllDone == \A p \in Procs : pc[p] = "done"
Terminated == AllDone /\ UNCHANGED vars

Next ==
  \/ (Entry = "md" /\ (SplitScan \/ Xfer(Split, "gen") \/ SendCancel(Split) \/ SplitErrSend \/ SourceExit(Split)))
  \/ (Entry = "root" /\ (Xfer(Feeder, "grow") \/ SendCancel(Feeder) \/ SourceExit(Feeder)))
  \/ \E s \in StageSet : \E p \in WorkersOf(s) :
        \/ RecvCancel(p) \/ RecvClosed(p) \/ Work(p) \/ WritePart(p) \/ WriteFail(p) \/ ErrSend(p)
        \/ (s # "sink" /\ (Xfer(p, Down(s)) \/ SendCancel(p)))
  \/ \E s \in StageSet : CloserRun(s)
  \/ \E c \in ErrChans : HandlerRecv(c) \/ HandlerClosed(c) \/ HandlerCtx(c)
  \/ MainWait \/ MainCancel \/ EnvCancel
  \/ Terminated

Spec == Init /\ [][Next]_vars

\* liveness: under weak fairness of the pipeline's own steps the call returns and every goroutine finishes
FairSpec == Init /\ [][Next]_vars /\ WF_vars(Next /\ ~Terminated)
Termination == <>(pc[Main] = "done")
NoLeak == <>[](\A p \in Procs : pc[p] = "done")

---------------------------------------------------------------------------
(* Properties.  Every action other than Terminated makes progress, so "always returns and leaves no  *)
(* goroutine behind" is: the only states without a successor other than themselves are AllDone states *)
(* (TLC's deadlock check on Next without the Terminated disjunct = NoStuck below).                   *)

Returned == pc[Main] = "done"

\* C11: no goroutine is left blocked forever, the call returns
NoStuck == (~ENABLED (Next /\ ~Terminated)) => AllDone

\* C10/C14: nil means everything came out and nothing failed
NilMeansComplete == (Returned /\ result = "nil") => (DoneBlocks = AllWork /\ ~Faulty)
\* C10: an error iff the simple mode has one (faults are exactly what makes the simple mode fail)
FaultMeansErr == (Returned /\ Faulty) => result # "nil"
NoSpuriousErr == (Returned /\ ~Faulty /\ ~userCancel) => result = "nil"
\* C11: cancelled before finishing => the context's error (another fault may win: then any non-nil error)
CancelMeansCtxErr == (Returned /\ early) => (IF Faulty THEN result # "nil" ELSE result = "ctx")
\* C10: a root's block is written in one piece
BlockIntegrity ==
  \A i, j \in 1..Len(out) : (i < j /\ out[i][1] = out[j][1]) => \A k \in i..j : out[k][1] = out[i][1]
\* a block comes out at most once, and only blocks that did not fail
NoDupNoGhost ==
  /\ \A i, j \in 1..Len(out) : (out[i] = out[j]) => i = j
  /\ \A i \in 1..Len(out) : fate[out[i][1]] = "ok" \/ (Entry = "root" /\ fate[out[i][1]] = "genErr")

\* every stage is full and the splitter is handing over the LAST block into it: the state the back-pressure jobs of
\* C11 force on the real pipeline (as many blocks as the stages hold, plus one); NeverBackedUp is checked only to see
\* TLC reach it (MC_Pipe_backpressure_reach.cfg: expected to be violated)
BackedUpAtLastBlock ==
  /\ Entry = "md" /\ pc[Split] = "send" /\ item[Split] = N
  /\ \A s \in {"gen", "grow"} : \A p \in WorkersOf(s) : pc[p] = "send"
  /\ \A p \in WorkersOf("sink") : pc[p] \in {"work", "w1", "w2"}
NeverBackedUp == ~BackedUpAtLastBlock

TypeOK == /\ mutex \in 0..W /\ \A c \in ErrChans : errbuf[c] \in 0..1
=============================================================================
