------------------------------ MODULE TraceApi ------------------------------
(***************************************************************************)
(* Impl -> Spec for the programmatic API: a long random history of         *)
(* NewRoot / Add / From-Root operations executed on the real library is    *)
(* replayed against Api.tla's actions; after every call the logged result  *)
(* (node identity for NewRoot/Add, rows / forest / walk records / error    *)
(* class for operations) must equal the DECLARATIVE result `exp` (Layer P) *)
(* and the code-shaped result `res` (Layer M).                             *)
(* record: [op, name, p, kind, got]   got = [k, err, rows, forest, walk, id]*)
(***************************************************************************)
EXTENDS Api, Json

Trace == ndJsonDeserialize("atrace.ndjson")

VARIABLES l, bad
tvars == <<avars, l, bad>>

TInit == Init /\ l = 1 /\ bad = {}

Got(e) == e.got

\* the node paths of a tree, '/'-joined
RECURSIVE TreePaths(_, _)
TreePaths(t, prefix) ==
  LET me == prefix \o t.name IN
  {me} \cup UNION {TreePaths(t.kids[i], me \o <<"SL">>) : i \in 1..Len(t.kids)}

\* a logged result agrees with a specified one; for "mkdir" the log lists what appeared in a fresh directory
\* (in directory order): exactly the node paths, each once
Agrees(x, g) ==
  IF x.k = "mkdir"
  THEN /\ g.k = "mkdir"
       /\ {g.rows[i] : i \in 1..Len(g.rows)} = TreePaths(x.forest[1], <<>>)
       /\ \A i, j \in 1..Len(g.rows) : g.rows[i] = g.rows[j] => i = j
  ELSE x = g

\* a node id the model does not know: an earlier Add returned a node it should not have created (that
\* call has been flagged already); the call cannot be replayed, it is flagged too and skipped
Unknown(e) == \/ e.op \in {"Add", "Op", "Open"} /\ e.p > Len(store)
              \/ e.op = "Open" /\ e.p >= 1 /\ e.p <= Len(store) /\ store[e.p].hier # 1
              \/ e.op = "Range" /\ (e.p > Len(iters) \/ iters[e.p].root = 0)

Step ==
  /\ l <= Len(Trace)
  /\ LET e == Trace[l] IN
     IF Unknown(e) THEN
        \* (an iterator over an unknown node still takes its place in the program's list of iterators)
        /\ iters' = IF e.op = "Open" THEN Append(iters, [root |-> 0, snap |-> <<>>]) ELSE iters
        /\ UNCHANGED <<store, idx, hist, res, exp>>
        /\ bad' = bad \cup {<<l, "P">>}
     ELSE
     /\ CASE e.op = "reset"   -> store' = <<>> /\ idx' = 0 /\ hist' = <<>> /\ res' = None /\ exp' = None /\ iters' = <<>>   \* a new history
          [] e.op = "NewRoot" -> NewRoot(e.name)
          [] e.op = "Add"     -> Add(e.p, e.name)
          [] e.op = "Op"      -> Op(e.kind, e.p)
          [] e.op = "Open"    -> Open(e.p)
          [] e.op = "Range"   -> Range(e.p)
     \* (ranging over an iterator: the walk of the tree as it is now - or as it was when the iterator was made)
     /\ bad' = bad \cup (IF e.op = "reset" \/ Agrees(exp', Got(e))
                             \/ (e.op = "Range" /\ Got(e).k = "walk" /\ Got(e).walk = iters[e.p].snap) THEN {} ELSE {<<l, "P">>})
                   \cup (IF e.op = "reset" \/ Agrees(res', Got(e)) THEN {} ELSE {<<l, "M">>})
  /\ l' = l + 1

Finish ==
  /\ l = Len(Trace) + 1
  /\ PrintT(<<"TRACE-VERDICT", Len(Trace), bad>>)
  /\ l' = l + 1 /\ UNCHANGED <<avars, bad>>

TNext == Step \/ Finish
TSpec == TInit /\ [][TNext]_tvars
=============================================================================
