--------------------------------- MODULE Fs ---------------------------------
(***************************************************************************)
(* Abstract filesystem + the filesystem-facing operations of gtree.        *)
(*                                                                         *)
(* CODE-SHAPED part (simple_tree_mkdirer.go, simple_tree_verifier.go,      *)
(* node.go setPath/validatePath, simple_tree.go routes):                   *)
(*   - node paths are built by STAGED path.Join calls (each stage cleans), *)
(*     the root's path is its raw name;                                    *)
(*   - validatePath looks at '/' in the name and at fs.ValidPath of the    *)
(*     CLEANED path (plus the names "." and ".." below a root, RejectDots);*)
(*   - mkdir: Stat every root first, then MkdirAll/Create leaf by leaf,    *)
(*     stopping at the first failure (earlier creations stay);             *)
(*   - verify: collect the node paths, walk the root's directory, compare. *)
(* DECLARATIVE part: Expected(forest, exts), Diff, the C06-C09 statements. *)
(*                                                                         *)
(* A path is a token string (names joined by "SL"), exactly as the Go      *)
(* strings are.  The filesystem is a pair of sets of cleaned paths         *)
(* relative to the JAIL root: [dirs, files]; a path that starts with       *)
(* DOT DOT lies outside the jail.  tree = [name, kids].                    *)
(***************************************************************************)
EXTENDS Forest

CONSTANTS
  LongToks,     \* chunk ids concretised as over-long names: every syscall on a path containing one fails
  Dev           \* deviations switched on:
                \*   "NoValidationMd"    MkdirFromMarkdown does not validate names
                \*   "DotsAccepted"      non-root "." and ".." pass validation (only the cleaned path is checked)
                \*   "DryRunCreates"     MkdirFromMarkdown + dry-run creates the directories
                \*   "RootMissingShort"  verify lists only the root when the root is missing
                \*   "FileRootNotDir"    verify fails on a root that is a regular file

---------------------------------------------------------------------------
(* path.Clean / path.Join on token strings                                 *)

RECURSIVE SplitSL(_)
SplitSL(ts) ==                         \* strings.Split(ts, "/")
  LET i == IndexOf(ts, "SL") IN
  IF i = 0 THEN <<ts>> ELSE <<SubSeq(ts, 1, i - 1)>> \o SplitSL(SubSeq(ts, i + 1, Len(ts)))

RECURSIVE JoinSL(_)
JoinSL(els) == IF els = <<>> THEN <<>>
               ELSE IF Len(els) = 1 THEN els[1] ELSE els[1] \o <<"SL">> \o JoinSL(Tail(els))

DD == <<"DOT", "DOT">>

RECURSIVE CleanEls(_, _, _)
CleanEls(out, rest, rooted) ==
  IF rest = <<>> THEN out
  ELSE LET e == Head(rest) IN
       IF e = <<>> \/ e = <<"DOT">> THEN CleanEls(out, Tail(rest), rooted)
       ELSE IF e = DD THEN
            IF out # <<>> /\ out[Len(out)] # DD THEN CleanEls(SubSeq(out, 1, Len(out) - 1), Tail(rest), rooted)
            ELSE IF rooted THEN CleanEls(out, Tail(rest), rooted)
            ELSE CleanEls(Append(out, e), Tail(rest), rooted)
       ELSE CleanEls(Append(out, e), Tail(rest), rooted)

Clean(ts) ==                           \* path.Clean
  IF ts = <<>> THEN <<"DOT">>
  ELSE LET rooted == ts[1] = "SL"
           els    == CleanEls(<<>>, SplitSL(ts), rooted)
       IN IF rooted THEN <<"SL">> \o JoinSL(els)
          ELSE IF els = <<>> THEN <<"DOT">> ELSE JoinSL(els)

Join2(a, b) ==                         \* path.Join(a, b): empty elements are ignored
  IF a = <<>> /\ b = <<>> THEN <<>>
  ELSE IF a = <<>> THEN Clean(b)
  ELSE IF b = <<>> THEN Clean(a)
  ELSE Clean(a \o <<"SL">> \o b)
Join1(a) == IF a = <<>> THEN <<>> ELSE Clean(a)

\* The spellings of one directory a caller may hand to WithTargetDir (relative to the directory above `parent`): all of
\* them Clean to the same path, so every operation behaves as for the clean one.  The replays hand the target over in
\* each of them by turns; MC_FsC checks SpellingsAgree for the jail's names (ASSUME).
TargetSpellings(parent, p) ==
  [plain  |-> parent \o <<"SL">> \o p,
   slash  |-> parent \o <<"SL">> \o p \o <<"SL">>,
   dot    |-> <<"DOT", "SL">> \o parent \o <<"SL">> \o p,
   dslash |-> parent \o <<"SL", "SL">> \o p,
   dotin  |-> parent \o <<"SL", "DOT", "SL">> \o p,
   dotdot |-> parent \o <<"SL", "gone", "SL", "DOT", "DOT", "SL">> \o p]   \* ('gone' need not exist: the cleaning is lexical)
SpellingsAgree(parent, p) ==
  \A k \in DOMAIN TargetSpellings(parent, p) : Clean(TargetSpellings(parent, p)[k]) = parent \o <<"SL">> \o p

\* fs.ValidPath
ValidPath(p) ==
  \/ p = <<"DOT">>
  \/ /\ p # <<>>
     /\ \A e \in {SplitSL(p)[i] : i \in 1..Len(SplitSL(p))} : e # <<>> /\ e # <<"DOT">> /\ e # DD

---------------------------------------------------------------------------
(* Node paths as the grower computes them (assembleBranch): staged joins   *)

\* names = <<root name, ..., node name>>
RECURSIVE StagedUp(_, _)
StagedUp(mid, acc) ==                  \* the non-root ancestors, nearest first
  IF mid = <<>> THEN acc ELSE StagedUp(SubSeq(mid, 1, Len(mid) - 1), Join2(mid[Len(mid)], acc))

NodePath(names) ==
  IF Len(names) = 1 THEN names[1]                      \* root.path() = its raw name
  ELSE LET own == Join1(names[Len(names)])             \* setPath(current.name)
           mid == SubSeq(names, 2, Len(names) - 1)     \* non-root ancestors
       IN Join2(names[1], StagedUp(mid, own))          \* assembleBranchFinally

\* validatePath
NameOK(names, RejectDots) ==
  LET nm == names[Len(names)] IN
  /\ IndexOf(nm, "SL") = 0
  /\ (RejectDots => (nm # DD /\ (Len(names) > 1 => nm # <<"DOT">>)))
  /\ ValidPath(NodePath(names))

\* pre-order list of [names, leaf] for a forest (the order of assemble / makeDirectoriesAndFiles)
RECURSIVE TreeNodes(_, _)
TreeNodes(t, above) ==
  LET me == Append(above, t.name) IN
  <<[names |-> me, leaf |-> t.kids = <<>>]>> \o Flat([i \in 1..Len(t.kids) |-> TreeNodes(t.kids[i], me)])
ForestNodes(f) == Flat([i \in 1..Len(f) |-> TreeNodes(f[i], <<>>)])

\* grower with validation: the first invalid node in pre-order fails the call
FirstInvalid(f, RejectDots) ==
  LET ns == ForestNodes(f) IN
  IF \E i \in 1..Len(ns) : ~NameOK(ns[i].names, RejectDots)
  THEN CHOOSE i \in 1..Len(ns) : ~NameOK(ns[i].names, RejectDots) /\ \A j \in 1..(i-1) : NameOK(ns[j].names, RejectDots)
  ELSE 0

---------------------------------------------------------------------------
(* The abstract OS                                                         *)

FS0 == [dirs |-> {}, files |-> {}]      \* the jail root itself always exists (a directory)

HasLong(p) == \E i \in 1..Len(p) : p[i] \in LongToks
Outside(p) == Len(p) >= 2 /\ p[1] = "DOT" /\ p[2] = "DOT"

IsDir(fs, p)  == p = <<"DOT">> \/ p \in fs.dirs \/ (Outside(p) /\ SplitSL(p)[Len(SplitSL(p))] = DD)
IsFile(fs, p) == p \in fs.files
Exists(fs, p) == IsDir(fs, p) \/ IsFile(fs, p)

\* cumulative prefixes of a cleaned relative path
Prefixes(p) == LET els == SplitSL(p) IN [i \in 1..Len(els) |-> JoinSL(SubSeq(els, 1, i))]

\* os.Stat: "ok" | "notexist" | "err".  The path is resolved component by component: an over-long
\* component fails with ENAMETOOLONG only if everything before it exists; a regular file that is not
\* the last component gives ENOTDIR; the first missing component gives ENOENT.
LastEl(p) == SplitSL(p)[Len(SplitSL(p))]
RECURSIVE Resolve(_, _, _)
Resolve(fs, pre, i) ==
  IF i > Len(pre) THEN "ok"
  ELSE LET q == pre[i] IN
       IF HasLong(LastEl(q)) THEN "err"
       ELSE IF IsDir(fs, q) THEN Resolve(fs, pre, i + 1)
       ELSE IF IsFile(fs, q) THEN (IF i = Len(pre) THEN "ok" ELSE "err")
       ELSE "notexist"
Stat(fs, p) == IF p = <<"DOT">> THEN "ok" ELSE Resolve(fs, Prefixes(p), 1)

\* os.MkdirAll: [fs, ok]; creates prefix by prefix, a file in the way fails after the earlier prefixes were made
RECURSIVE MkAll(_, _, _)
MkAll(fs, pre, i) ==
  IF i > Len(pre) THEN [fs |-> fs, ok |-> TRUE]
  ELSE LET q == pre[i] IN
       IF HasLong(LastEl(q)) THEN [fs |-> fs, ok |-> FALSE]
       ELSE IF IsFile(fs, q) THEN [fs |-> fs, ok |-> FALSE]
       ELSE IF IsDir(fs, q) THEN MkAll(fs, pre, i + 1)
       ELSE MkAll([fs EXCEPT !.dirs = @ \cup {q}], pre, i + 1)
\* MkdirAll first stats the whole path: an existing directory is success, an existing file is an error
MkdirAll(fs, p) ==
  IF IsDir(fs, p) THEN [fs |-> fs, ok |-> TRUE]
  ELSE IF IsFile(fs, p) THEN [fs |-> fs, ok |-> FALSE]
  ELSE MkAll(fs, Prefixes(p), 1)

ParentOf(p) == LET els == SplitSL(p) IN IF Len(els) = 1 THEN <<"DOT">> ELSE JoinSL(SubSeq(els, 1, Len(els) - 1))

\* os.Create + Close
Create(fs, p) ==
  IF HasLong(p) \/ ~IsDir(fs, ParentOf(p)) \/ IsDir(fs, p) THEN [fs |-> fs, ok |-> FALSE]
  ELSE [fs |-> [fs EXCEPT !.files = @ \cup {p}], ok |-> TRUE]

---------------------------------------------------------------------------
(* mkdir (code-shaped)                                                     *)

IsFileNode(n, exts) == n.leaf /\ \E e \in exts : IsSuffixSeq(e, n.names[Len(n.names)])

\* strings.TrimSuffix(path, name)
TrimSuffixTok(p, s) == IF IsSuffixSeq(s, p) THEN SubSeq(p, 1, Len(p) - Len(s)) ELSE p

\* makeDirectoriesAndFiles on the pre-order node list: only leaves act
RECURSIVE MakeAll(_, _, _, _, _)
MakeAll(fs, ns, i, target, exts) ==
  IF i > Len(ns) THEN [fs |-> fs, ok |-> TRUE]
  ELSE LET n == ns[i]   p == NodePath(n.names) IN
       IF ~n.leaf THEN MakeAll(fs, ns, i + 1, target, exts)
       ELSE IF IsFileNode(n, exts) THEN
            LET dir == TrimSuffixTok(p, n.names[Len(n.names)])
                m   == MkdirAll(fs, Join2(target, dir))
            IN IF ~m.ok THEN [fs |-> m.fs, ok |-> FALSE]
               ELSE LET c == Create(m.fs, Join2(target, p)) IN
                    IF ~c.ok THEN [fs |-> c.fs, ok |-> FALSE] ELSE MakeAll(c.fs, ns, i + 1, target, exts)
       ELSE LET m == MkdirAll(fs, Join2(target, p)) IN
            IF ~m.ok THEN [fs |-> m.fs, ok |-> FALSE] ELSE MakeAll(m.fs, ns, i + 1, target, exts)

\* isExistRoot: !os.IsNotExist(Stat(...)) for any root
RootExists(fs, f, target) == \E i \in 1..Len(f) : Stat(fs, Join2(target, f[i].name)) # "notexist"

\* route \in {"md","root"}; dry \in BOOLEAN.  Returns [fs, res] with res \in {"ok","invalid","exists","oserr","report"}
Validates(route, dry) == route = "root" \/ dry \/ "NoValidationMd" \notin Dev
RejectDots == "DotsAccepted" \notin Dev

MkdirOp(fs, f, exts, target, route, dry) ==
  IF Validates(route, dry) /\ FirstInvalid(f, RejectDots) # 0 THEN [fs |-> fs, res |-> "invalid"]
  ELSE IF dry /\ ~(route = "md" /\ "DryRunCreates" \in Dev) THEN [fs |-> fs, res |-> "report"]
  ELSE IF RootExists(fs, f, target) THEN [fs |-> fs, res |-> "exists"]
  ELSE LET m == MakeAll(fs, ForestNodes(f), 1, target, exts) IN
       [fs |-> m.fs, res |-> IF m.ok THEN "ok" ELSE "oserr"]

\* the dry-run report: per root <<dirs, files>> counted by the colourising printer
RECURSIVE CountKinds(_, _, _)
CountKinds(ns, i, exts) ==
  IF i > Len(ns) THEN <<0, 0>>
  ELSE LET r == CountKinds(ns, i + 1, exts) IN
       IF IsFileNode(ns[i], exts) THEN <<r[1], r[2] + 1>> ELSE <<r[1] + 1, r[2]>>
DryCounts(f, exts) == [i \in 1..Len(f) |-> CountKinds(TreeNodes(f[i], <<>>), 1, exts)]

---------------------------------------------------------------------------
(* verify (code-shaped)                                                    *)

\* entries beneath directory d (every depth)
Beneath(fs, d) == {p \in fs.dirs \cup fs.files : p # d /\ IsPrefixSeq(d \o <<"SL">>, p)}

\* verifyRoot for one tree: [k \in {"ok","diff","oserr"}, extra, missing]
VerifyRoot(fs, t, target) ==
  LET ns      == TreeNodes(t, <<>>)
      wanted  == {Join2(target, NodePath(ns[i].names)) : i \in 1..Len(ns)}
      rootdir == Join2(target, t.name)
      st      == Stat(fs, rootdir)
  IN IF st = "notexist" THEN
        [k |-> "diff", extra |-> {},
         missing |-> IF "RootMissingShort" \in Dev THEN {rootdir} ELSE wanted]
     ELSE IF st = "err" THEN [k |-> "oserr", extra |-> {}, missing |-> {}]
     ELSE IF IsFile(fs, rootdir) THEN
        IF "FileRootNotDir" \in Dev THEN [k |-> "oserr", extra |-> {}, missing |-> {}]
        ELSE [k |-> "seen", extra |-> {}, missing |-> wanted \ {rootdir}]
     ELSE LET seen == {rootdir} \cup Beneath(fs, rootdir) IN
          [k |-> "seen", extra |-> seen \ wanted, missing |-> wanted \ seen]

RECURSIVE VerifyRoots(_, _, _, _, _)
VerifyRoots(fs, f, i, target, strict) ==
  IF i > Len(f) THEN [k |-> "ok", extra |-> {}, missing |-> {}]
  ELSE LET v == VerifyRoot(fs, f[i], target) IN
       IF v.k = "oserr" THEN v
       ELSE IF v.k = "diff" THEN v                                   \* verifyError returned from the walk
       ELSE IF (strict /\ v.extra # {}) \/ v.missing # {}
            THEN [k |-> "diff", extra |-> IF strict THEN v.extra ELSE {}, missing |-> v.missing]
            ELSE VerifyRoots(fs, f, i + 1, target, strict)

VerifyOp(fs, f, target, strict) ==
  IF FirstInvalid(f, RejectDots) # 0 THEN [k |-> "invalid", extra |-> {}, missing |-> {}]
  ELSE VerifyRoots(fs, f, 1, target, strict)

---------------------------------------------------------------------------
(* DECLARATIVE: what mkdir must create, what verify must say               *)

PlainName(n) == IndexOf(n, "SL") = 0 /\ n # <<"DOT">> /\ n # DD /\ n # <<>>
AllPlain(f) == \A i \in 1..Len(ForestNodes(f)) :
                  LET ns == ForestNodes(f)[i].names IN PlainName(ns[Len(ns)])

\* expected entries for a forest of plain names: path = target/names joined, kind by the extension rule
ExpectedDirs(f, exts, target) ==
  {target \o <<"SL">> \o JoinSL(ForestNodes(f)[i].names) :
      i \in {j \in 1..Len(ForestNodes(f)) : ~IsFileNode(ForestNodes(f)[j], exts)}}
ExpectedFiles(f, exts, target) ==
  {target \o <<"SL">> \o JoinSL(ForestNodes(f)[i].names) :
      i \in {j \in 1..Len(ForestNodes(f)) : IsFileNode(ForestNodes(f)[j], exts)}}
ExpectedPaths(f, target) == {target \o <<"SL">> \o JoinSL(ForestNodes(f)[i].names) : i \in 1..Len(ForestNodes(f))}

All(fs) == fs.dirs \cup fs.files
UnderTarget(p, target) == p = target \/ IsPrefixSeq(target \o <<"SL">>, p)
=============================================================================
