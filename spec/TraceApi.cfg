SPECIFICATION TSpec
CONSTANTS
  ApiNames = {}
  MaxCalls = 100000
  MaxNodes = 100000
  Kinds = {"text", "tree", "walk"}
  LastBy = "identity"
  ResetIdx = TRUE
  OpsAtEnd = 2
  Interleave = TRUE
  BadArgs = TRUE
  Iters = TRUE
CHECK_DEADLOCK FALSE
