SPECIFICATION Spec
CONSTANTS
  N = 1
  W = 2
  Fates <- AllFates
  ReaderFails <- NoReaderFail
  Entry = "root"
  Sink = "verify"
  CanCancel = TRUE
  PreCancelled = TRUE
  Dev = {}
INVARIANTS TypeOK NoStuck NilMeansComplete FaultMeansErr NoSpuriousErr CancelMeansCtxErr BlockIntegrity NoDupNoGhost
CHECK_DEADLOCK FALSE
