------------------------------- MODULE MC_C05 -------------------------------
(* C05: walk facts for every forest up to the bound; names are single path elements (the property's
   premise), one of them with a dot inside and one starting with a dot. *)
EXTENDS MC_Doc
C05_Names == { <<"a">>, <<"b">>, <<"DOT", "a", "DOT", "b">> }
C05_Sigma == { [unit |-> <<"TAB">>, heading |-> FALSE, crlf |-> FALSE, bullets |-> {"AS"}, blanks |-> FALSE] }
C05_Blank == { <<>> }
C05_Pool  == { <<>> }

\* StopAt(k): the callback fails at its k-th visit -> exactly the first k records were visited
StopAt(walk, k) == [visits |-> SubSeq(walk, 1, IF k <= Len(walk) THEN k ELSE Len(walk)),
                    err |-> IF k >= 1 /\ k <= Len(walk) THEN "injected" ELSE "nil"]
\* the code's recursion: walkNode returns the callback's error and the loops over children/roots stop
RECURSIVE WalkNodeStop(_, _, _, _)
WalkNodeStop(nodes, n, k, seen) ==          \* returns [seen, err]
  LET s1 == Append(seen, n) IN
  IF Len(s1) = k THEN [seen |-> s1, err |-> TRUE]
  ELSE LET RECURSIVE Kids(_, _)
           Kids(i, acc) == IF i > Len(nodes[n].kids) \/ acc.err THEN acc
                           ELSE Kids(i + 1, WalkNodeStop(nodes, nodes[n].kids[i], k, acc.seen))
       IN Kids(1, [seen |-> s1, err |-> FALSE])
RECURSIVE WalkRootsStop(_, _, _, _, _)
WalkRootsStop(nodes, roots, i, k, acc) ==
  IF i > Len(roots) \/ acc.err THEN acc
  ELSE WalkRootsStop(nodes, roots, i + 1, k, WalkNodeStop(nodes, roots[i], k, acc.seen))

StopMatchesRule ==
  (an.verdict = "accept") =>
    \A k \in 1..(Len(gs.nodes) + 1) :
      LET c == WalkRootsStop(gs.nodes, gs.roots, 1, k, [seen |-> <<>>, err |-> FALSE])
          d == StopAt(RuleWalk(RuleForest), k)
      IN /\ [i \in 1..Len(c.seen) |-> CodeWalkRec(gs.nodes, c.seen[i], LastBy)] = d.visits
         /\ c.err = (d.err = "injected")
=============================================================================
