SPECIFICATION Spec
CONSTANTS
  Mode = "wf"
  Gen = "iter"
  Dev = {}
  LastBy = "identity"
  MaxLines = 6
  MaxDepth = 5
  MaxBlank = 0
  Names <- C01_Names
  SigmaSet <- C01_Sigma
  BlankPool <- C01_Blank
  LinePool <- C01_Pool
INVARIANTS TypeOK RenderMatchesRule ForestMatchesTrie WalkMatchesRule AcceptsWellFormed NoSilentLoss SpellingInvariance NoNilRoot
CHECK_DEADLOCK FALSE
