SPECIFICATION Spec
CONSTANTS
  Invs <- AllInvs
  FollowUps <- Follow
  MaxSteps = 1
  Dev = {"ExitZeroOnUsageError"}
INVARIANTS TruthfulExit
CHECK_DEADLOCK FALSE
