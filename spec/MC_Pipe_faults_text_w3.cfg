SPECIFICATION Spec
CONSTANTS
  N = 2
  W = 3
  Fates <- AllFates
  ReaderFails <- NoReaderFail
  Entry = "md"
  Sink = "text"
  CanCancel = FALSE
  PreCancelled = FALSE
  Dev = {}
INVARIANTS TypeOK NoStuck NilMeansComplete FaultMeansErr NoSpuriousErr CancelMeansCtxErr BlockIntegrity NoDupNoGhost
CHECK_DEADLOCK FALSE
