SPECIFICATION FairSpec
CONSTANTS
  N = 4
  W = 1
  Fates <- OkOnly
  ReaderFails <- NoReaderFail
  Entry = "md"
  Sink = "text"
  CanCancel = TRUE
  PreCancelled = FALSE
  Dev = {}
PROPERTIES Termination NoLeak
CHECK_DEADLOCK FALSE
