SPECIFICATION Spec
CONSTANTS
  Calls <- AllCalls
  MaxLen = 2
  Dev = {"SharedGrower"}
INVARIANTS CallsAreIndependent
CHECK_DEADLOCK FALSE
