SPECIFICATION Spec
CONSTANTS
  N = 2
  W = 2
  Fates <- GenFates
  ReaderFails <- AnyReaderFail
  Entry = "md"
  Sink = "verify"
  CanCancel = TRUE
  PreCancelled = FALSE
  Dev = {}
INVARIANTS TypeOK NoStuck NilMeansComplete FaultMeansErr NoSpuriousErr CancelMeansCtxErr BlockIntegrity NoDupNoGhost
CHECK_DEADLOCK FALSE
