------------------------------ MODULE TraceDoc ------------------------------
(***************************************************************************)
(* Impl -> Spec: calls recorded from the real library (one ndjson record    *)
(* per From-Markdown call: the document as token lines, the entry point,   *)
(* the projected result) are checked against the specification.            *)
(*                                                                         *)
(* Layer P (property): the declarative reading of the document (Forest)    *)
(*   decides what the call had to deliver.  A failure is a fact about a    *)
(*   real execution.                                                       *)
(* Layer M (model conformance): the code-shaped generator/renderer (MdDoc, *)
(*   Render) must predict the very same result, error class and offending  *)
(*   line.  A failure is SPEC-DRIFT (the code took a step the model does   *)
(*   not have), not by itself a violation.                                 *)
(*                                                                         *)
(* record: [op, gen, doc, res, rows, walk, forest, errk, errrow]            *)
(*   op  \in {"text","walk","tree","mtree","class"}  gen \in {"iter","slice"} *)
(*   ("tree": the forest decoded from the JSON / YAML output; "mtree": the  *)
(*   same in massive mode, roots in any order)                              *)
(*   ("class": only the accept/reject decision and the error are logged)   *)
(*   res \in {"ok","err"}; errk \in {"","fmt","empty","nilstack","other"}  *)
(***************************************************************************)
EXTENDS MdDoc, Render, Forest, TLC, Json

CONSTANTS Dev, LastBy

Trace == ndJsonDeserialize("trace.ndjson")

VARIABLES l, bad
tvars == <<l, bad>>

\* massive mode hands the roots over in any order: the decoded forest as a multiset of trees
CountIn(s, x) == Cardinality({i \in 1..Len(s) : s[i] = x})
SameBag(s, t) == Len(s) = Len(t) /\ \A i \in 1..Len(s) : CountIn(s, s[i]) = CountIn(t, s[i])

PayloadP(e, f) ==
  CASE e.op = "text" -> e.rows = RuleRows(f)
    [] e.op = "mtree" -> SameBag(e.forest, f)
    [] e.op = "walk" -> e.walk = RuleWalk(f)
    [] e.op = "tree" -> e.forest = f
    [] OTHER -> TRUE

PayloadM(e, gs) ==
  CASE e.op = "text" -> e.rows = CodeRows(gs.nodes, gs.roots, LastBy)
    [] e.op = "walk" -> e.walk = CodeWalk(gs.nodes, gs.roots, LastBy)
    [] e.op = "tree" -> e.forest = ForestOf(gs.nodes, gs.roots)
    [] e.op = "mtree" -> SameBag(e.forest, ForestOf(gs.nodes, gs.roots))
    [] OTHER -> TRUE

CheckP(e) ==
  LET a == Analyze(e.doc) IN
  CASE a.verdict = "accept" -> e.res = "ok" /\ PayloadP(e, Trie(a.items))
    [] a.verdict = "reject" -> e.res = "err" /\ (e.errk = "fmt" => StripCR(e.doc[a.line]) = e.errrow)
    [] OTHER -> TRUE

CheckM(e) ==
  LET gs == GenRun(e.doc, e.gen, Dev) IN
  IF gs.status = "run" THEN e.res = "ok" /\ PayloadM(e, gs)
  ELSE /\ e.res = "err"
       /\ e.errk = gs.errk
       /\ (gs.errk = "fmt" => StripCR(e.doc[gs.errline]) = e.errrow)

Init == l = 1 /\ bad = {}

Step ==
  /\ l <= Len(Trace)
  /\ LET e == Trace[l] IN
     bad' = bad \cup (IF CheckP(e) THEN {} ELSE {<<l, "P">>}) \cup (IF CheckM(e) THEN {} ELSE {<<l, "M">>})
  /\ l' = l + 1

Finish ==
  /\ l = Len(Trace) + 1
  /\ PrintT(<<"TRACE-VERDICT", Len(Trace), bad>>)
  /\ l' = l + 1
  /\ UNCHANGED bad

Next == Step \/ Finish
Spec == Init /\ [][Next]_tvars
=============================================================================
