------------------------------- MODULE MC_Io --------------------------------
(* C14: every small forest x every sink kind x a refusal at every write call index (and one past the
   end), and every document x a reader failure after every token offset. *)
EXTENDS Io
CONSTANTS IoNames, MaxItemsIo, MaxDepthIo, Gen
VARIABLES items, phase, op, result
ivars == <<items, phase, op, result>>

Spell(its) == [i \in 1..Len(its) |-> Rep(<<"SP", "SP">>, its[i].d - 1) \o <<"HY", "SP">> \o its[i].n]
F == Trie(items)
Doc == Spell(items)

Init == items = <<>> /\ phase = "build" /\ op = [k |-> "none"] /\ result = [ret |-> "none"]

Build ==
  /\ phase = "build" /\ Len(items) < MaxItemsIo
  /\ \E d \in 1..MaxDepthIo, n \in IoNames :
       /\ d <= (IF items = <<>> THEN 1 ELSE items[Len(items)].d + 1)
       /\ items' = Append(items, [d |-> d, n |-> n])
  /\ UNCHANGED <<phase, op, result>>

ReadFail ==
  /\ phase = "build" /\ items # <<>>
  /\ \E k \in 0..Len(DocToks(Doc)), sticky \in BOOLEAN :
       /\ op' = [k |-> "read", at |-> k, sticky |-> sticky, delivered |-> Delivered(Doc, k)]
       /\ result' = [ret |-> ReadResult(Doc, k, Gen, sticky)]
  /\ phase' = "done" /\ UNCHANGED items

WriteFail ==
  /\ phase = "build" /\ items # <<>>
  /\ \E kind \in SinkKinds, how \in {"fail", "short", "fail-once", "full", "full-once"}, at \in 1..(Len(RuleRows(F)) + 1) :
       /\ at <= Len(Writes(kind, F)) + 1
       /\ op' = [k |-> "write", kind |-> kind, how |-> how, at |-> at, writes |-> Writes(kind, F)]
       /\ result' = WriteResult(kind, F, [how |-> how, at |-> at])
  /\ phase' = "done" /\ UNCHANGED items

Next == Build \/ ReadFail \/ WriteFail
Spec == Init /\ [][Next]_ivars

\* C14, first sentence: a failing reader's error is what the call returns
ReaderErrReturned == (phase = "done" /\ op.k = "read") => result.ret = "readerErr"
\* C14, second sentence: nil only if every write was accepted in full
NilMeansAllAccepted == (phase = "done" /\ op.k = "write" /\ result.ret = "nil") => ~result.refused
IoNames2 == { <<"a">>, <<"b", "SP", "HY">> }
=============================================================================
