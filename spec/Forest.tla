------------------------------- MODULE Forest -------------------------------
(***************************************************************************)
(* The DECLARATIVE side: what a Markdown bullet list means and how a       *)
(* forest must be drawn, walked and encoded.  Written from the statements  *)
(* of the properties (C01 C02 C04 C05 C15), with no reference to the       *)
(* parser state, the open-node stack, node indices or parent walks.        *)
(*                                                                         *)
(* tree   = [name |-> token sequence, kids |-> sequence of trees]          *)
(* forest = sequence of trees                                              *)
(* item   = [d |-> depth (roots 1), n |-> name]                            *)
(***************************************************************************)
EXTENDS Tokens

---------------------------------------------------------------------------
(* 1. Reading one line (statement of C02/C15)                              *)

\* [k \in {"blank","item","heading","nobullet","emptytext","mixed","grey"}, name, ind]
DLine(l) ==
  LET mk(k, n, i) == [k |-> k, name |-> n, ind |-> i] IN
  IF IsBlank(l) THEN mk("blank", <<>>, <<>>)
  ELSE IF l[1] = "SH" THEN
    LET nm == TrimSet(DropLead(l, {"SH"}), {"SP"}) IN
    IF nm = <<>> THEN mk("emptytext", <<>>, <<>>)
    ELSE IF IsBlank(nm) \/ nm[1] \in SpaceToks \/ nm[Len(nm)] \in SpaceToks THEN mk("grey", <<>>, <<>>)
    ELSE mk("heading", nm, <<>>)
  ELSE
    LET k    == LeadLen(l, IndentToks)
        ind  == SubSeq(l, 1, k)
        rest == SubSeq(l, k + 1, Len(l))
    IN IF rest[1] \in {"WS", "CR"} THEN mk("grey", <<>>, ind)            \* exotic indentation
       \* (an indented '#' is neither a heading nor a bullet: "no bullet after the indentation", the next case)
       ELSE IF rest[1] \notin Bullets THEN mk("nobullet", <<>>, ind)
       ELSE LET t0 == Tail(rest)
                t  == IF t0 # <<>> /\ t0[1] = "SP" THEN Tail(t0) ELSE t0
            IN IF t = <<>> THEN mk("emptytext", <<>>, ind)
               ELSE IF IsBlank(t) THEN mk("grey", <<>>, ind)              \* item text of blanks only
               ELSE IF \E i, j \in 1..k : ind[i] # ind[j] THEN mk("mixed", <<>>, ind)
               ELSE mk("item", t, ind)

---------------------------------------------------------------------------
(* 2. Reading a document: verdict + items                                  *)
(*    verdict "accept": well-formed; "reject": the statement of C02 calls  *)
(*    for an error and `line` is the first offending line; "grey": the     *)
(*    statement does not settle it (DESIGN.md section 5).                  *)

A0 == [verdict |-> "accept", line |-> 0, why |-> "", unit |-> 0, uchar |-> "", bchar |-> "", mode |-> "none",
       prev |-> 0, items |-> <<>>, n |-> 0]

AStep(a, raw) ==
  LET l  == StripCR(raw)
      a1 == [a EXCEPT !.n = @ + 1]
      dl == DLine(l)
      bad(v, w) == [a1 EXCEPT !.verdict = v, !.line = a1.n, !.why = w]
  IN
  IF a.verdict # "accept" THEN a1
  ELSE IF dl.k = "blank" THEN a1
  ELSE IF dl.k = "grey" THEN bad("grey", "grey-line")
  ELSE IF dl.k \in {"nobullet", "emptytext", "mixed"} THEN bad("reject", dl.k)
  ELSE IF dl.k = "heading" THEN
       IF a.mode = "bullet" THEN bad("grey", "heading-after-bullet-root")
       ELSE [a1 EXCEPT !.mode = "heading", !.prev = 1, !.items = Append(@, [d |-> 1, n |-> dl.name])]
  ELSE \* item
    LET k     == Len(dl.ind)
        unit  == IF a.unit = 0 /\ k > 0 THEN k ELSE a.unit
        uchar == IF a.unit = 0 /\ k > 0 THEN dl.ind[1] ELSE a.uchar
        \* the indentation character of the lines since the last item at the left margin
        bchar == IF k = 0 THEN "" ELSE IF a.bchar = "" THEN dl.ind[1] ELSE a.bchar
    IN IF k > 0 /\ dl.ind[1] # bchar THEN bad("reject", "mixed-across-lines")   \* tabs and spaces below one item
       ELSE IF k > 0 /\ dl.ind[1] # uchar THEN bad("grey", "other-indent-char")  \* another character than the unit's, in another block
       ELSE IF k > 0 /\ k % unit # 0 THEN bad("reject", "offunit")
       ELSE LET d == (IF k = 0 THEN 1 ELSE (k \div unit) + 1) + (IF a.mode = "heading" THEN 1 ELSE 0) IN
            IF a.mode = "none" /\ d > 1 THEN bad("reject", "item-before-root")
            ELSE IF a.mode # "none" /\ d > a.prev + 1 THEN bad("reject", "jump")
            ELSE [a1 EXCEPT !.unit = unit, !.uchar = uchar, !.bchar = bchar,
                            !.mode = IF a.mode = "none" THEN "bullet" ELSE a.mode,
                            !.prev = d, !.items = Append(@, [d |-> d, n |-> dl.name])]

RECURSIVE AFold(_, _)
AFold(a, doc) == IF doc = <<>> THEN a ELSE AFold(AStep(a, Head(doc)), Tail(doc))
Analyze(doc) == AFold(A0, doc)

---------------------------------------------------------------------------
(* 3. Items -> forest (the path trie): children in order of first          *)
(*    occurrence, equally named siblings are one node, roots never merge   *)

ChildIdx(kids, n) == IF \E i \in 1..Len(kids) : kids[i].name = n
                     THEN CHOOSE i \in 1..Len(kids) : kids[i].name = n ELSE 0

RECURSIVE Insert(_, _)
Insert(kids, path) ==
  IF path = <<>> THEN kids
  ELSE LET i == ChildIdx(kids, Head(path)) IN
       IF i = 0 THEN Append(kids, [name |-> Head(path), kids |-> Insert(<<>>, Tail(path))])
       ELSE [kids EXCEPT ![i] = [name |-> kids[i].name, kids |-> Insert(kids[i].kids, Tail(path))]]

\* fold with the chain of names of the currently open items
RECURSIVE TrieFold(_, _, _)
TrieFold(f, chain, items) ==
  IF items = <<>> THEN f
  ELSE LET it == Head(items)
           ch == Append(SubSeq(chain, 1, it.d - 1), it.n)
       IN IF it.d = 1
          THEN TrieFold(Append(f, [name |-> it.n, kids |-> <<>>]), ch, Tail(items))
          ELSE TrieFold([f EXCEPT ![Len(f)] = [name |-> f[Len(f)].name,
                                               kids |-> Insert(f[Len(f)].kids, Tail(ch))]],
                        ch, Tail(items))
Trie(items) == TrieFold(<<>>, <<>>, items)

\* 3a. Composition.  The tree of a root is the root's name over the trees of its children, and the tree of a child
\*     is the tree of the sub-document made of that child's items moved up one level.  (With equally named children
\*     the sub-documents' roots would have to be merged first; the relation is stated for distinct names.)  Replays of
\*     trees far beyond what TLC can evaluate - one root with more than 10000 leaves - are checked against this
\*     relation: the big tree's children must be the trees the same library call gives for the small sub-documents,
\*     which TLC does evaluate.
RootStarts(items) == {i \in 1..Len(items) : items[i].d = 1}
Block(items, i) == LET later == {j \in RootStarts(items) : j > i}
                       e == IF later = {} THEN Len(items) ELSE (CHOOSE j \in later : \A k \in later : j <= k) - 1
                   IN SubSeq(items, i, e)
Lift(items) == [i \in 1..Len(items) |-> [items[i] EXCEPT !.d = @ - 1]]
DistinctTop(items) == \A i, j \in RootStarts(items) : items[i].n = items[j].n => i = j
TrieComposes(items) ==
  \A i \in RootStarts(items) :
     LET b == Block(items, i)
         below == Lift(Tail(b)) IN
     DistinctTop(below) => Trie(b) = <<[name |-> b[1].n, kids |-> Trie(below)]>>

RECURSIVE TreeSize(_)
TreeSize(t) == 1 + (LET RECURSIVE S(_)
                        S(ks) == IF ks = <<>> THEN 0 ELSE TreeSize(Head(ks)) + S(Tail(ks))
                    IN S(t.kids))

---------------------------------------------------------------------------
(* 4. The drawing rule (C01), the walk facts (C05), read off the statement *)

RECURSIVE SubRows(_, _, _)
SubRows(t, prefix, last) ==
  LET own == prefix \o <<IF last THEN "LD" ELSE "MD", "SP">> \o t.name
      pre == Append(prefix, IF last THEN "LI" ELSE "MI")
  IN <<own>> \o Flat([i \in 1..Len(t.kids) |-> SubRows(t.kids[i], pre, i = Len(t.kids))])

RootRows(r)  == <<r.name>> \o Flat([i \in 1..Len(r.kids) |-> SubRows(r.kids[i], <<>>, i = Len(r.kids))])
RuleRows(f)  == Flat([i \in 1..Len(f) |-> RootRows(f[i])])
RuleBlocks(f) == [i \in 1..Len(f) |-> RootRows(f[i])]

\* walk record: name, branch (tokens, <<>> for a root), level, path (names from the root), hasChild
RECURSIVE SubWalk(_, _, _, _, _)
SubWalk(t, prefix, last, level, ppath) ==
  LET me  == [name |-> t.name, branch |-> Append(prefix, IF last THEN "LD" ELSE "MD"),
              level |-> level, path |-> Append(ppath, t.name), hasChild |-> t.kids # <<>>]
      pre == Append(prefix, IF last THEN "LI" ELSE "MI")
  IN <<me>> \o Flat([i \in 1..Len(t.kids) |->
                      SubWalk(t.kids[i], pre, i = Len(t.kids), level + 1, Append(ppath, t.name))])
RootWalk(r) == <<[name |-> r.name, branch |-> <<>>, level |-> 1, path |-> <<r.name>>,
                  hasChild |-> r.kids # <<>>]>>
               \o Flat([i \in 1..Len(r.kids) |-> SubWalk(r.kids[i], <<>>, i = Len(r.kids), 2, <<r.name>>)])
RuleWalk(f) == Flat([i \in 1..Len(f) |-> RootWalk(f[i])])

\* the row a walk record stands for
WalkRow(w) == IF w.level = 1 THEN w.name ELSE w.branch \o <<"SP">> \o w.name
=============================================================================
