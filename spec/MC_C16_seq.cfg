SPECIFICATION Spec
CONSTANTS
  Invs <- FirstOfSeq
  FollowUps <- Follow
  MaxSteps = 3
  Dev = {}
INVARIANTS TruthfulExit
CHECK_DEADLOCK FALSE
