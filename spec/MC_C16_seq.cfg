SPECIFICATION Spec
CONSTANTS
  Invs <- FirstOfSeq
  FollowUps <- Follow
  MaxSteps = 3
  Dev = {}
INVARIANTS TruthfulExit DecodeRoundTrip SpellingIrrelevant
CHECK_DEADLOCK FALSE
