------------------------------- MODULE MdLine -------------------------------
(***************************************************************************)
(* markdown/parser.go transcribed branch for branch (code-shaped).         *)
(*                                                                         *)
(* Parser state  ps = [sep \in {"none","sp","tab"}, spaces \in Nat,         *)
(*                     sharp \in BOOLEAN]                                   *)
(* Parse(l, ps) = [res \in {"blank","fmt","empty","ok"}, hier, text, ps]    *)
(*   "blank" -> ErrBlankLine, "fmt" -> ErrIncorrectFormat,                  *)
(*   "empty" -> ErrEmptyText, "ok" -> &Markdown{hierarchy, text}            *)
(* The state changes made by failed separateRow attempts survive, as in    *)
(* the code.                                                               *)
(***************************************************************************)
EXTENDS Tokens

PS0 == [sep |-> "none", spaces |-> 0, sharp |-> FALSE]

Syms      == <<"HY", "AS", "PL">>                 \* listSymbols, in the code's order
SepTok(s) == IF s = "sp" THEN "SP" ELSE "TAB"

\* separateRow: [ok, sc, after, ps]
RECURSIVE TrySyms(_, _, _)
TrySyms(l, ps, k) ==
  IF k > 3 THEN [ok |-> FALSE, sc |-> 0, after |-> <<>>, ps |-> ps]
  ELSE LET i == IndexOf(l, Syms[k]) IN
   IF i = 0 THEN TrySyms(l, ps, k + 1)                                   \* strings.Cut: not found
   ELSE LET before == SubSeq(l, 1, i - 1)
            after  == SubSeq(l, i + 1, Len(l)) IN
    IF before # <<>> /\ before[1] \notin {"SP", "TAB"} THEN TrySyms(l, ps, k + 1)
    ELSE LET ps1 == IF before = <<>> THEN [ps EXCEPT !.sep = "none"]      \* p.sep = ""
                    ELSE IF ps.sep = "none"
                         THEN [ps EXCEPT !.sep = IF before[1] = "SP" THEN "sp" ELSE "tab"]
                         ELSE ps
             cnt == IF ps1.sep = "none" THEN 0 ELSE CountTok(before, SepTok(ps1.sep))
         IN IF ps1.sep # "none" /\ cnt # Len(before) THEN TrySyms(l, ps1, k + 1)
            ELSE LET ps2 == IF cnt > 0 /\ ps1.spaces = 0 THEN [ps1 EXCEPT !.spaces = cnt] ELSE ps1
                 IN IF ps2.spaces > 1 /\ cnt % ps2.spaces # 0 THEN TrySyms(l, ps2, k + 1)
                    ELSE [ok |-> TRUE, sc |-> cnt, after |-> after, ps |-> ps2]

\* calculateHierarchy
Hier(ps, sc) == (IF ps.spaces = 0 \/ ps.sep = "none" THEN sc + 1 ELSE (sc \div ps.spaces) + 1)
                + (IF ps.sharp THEN 1 ELSE 0)

Parse(l, ps) ==
  IF IsBlank(l) THEN [res |-> "blank", hier |-> 0, text |-> <<>>, ps |-> ps]
  ELSE IF l[1] = "SH" THEN                                               \* written outside the mutex
    LET ps1  == [ps EXCEPT !.sharp = TRUE]
        text == TrimSet(DropLead(Tail(l), {"SH"}), {"SP"})
    IN IF text = <<>> THEN [res |-> "empty", hier |-> 0, text |-> <<>>, ps |-> ps1]
       ELSE [res |-> "ok", hier |-> 1, text |-> text, ps |-> ps1]
  ELSE LET r == TrySyms(l, ps, 1) IN
    IF ~r.ok THEN [res |-> "fmt", hier |-> 0, text |-> <<>>, ps |-> r.ps]
    ELSE LET text == IF r.after # <<>> /\ Head(r.after) = "SP" THEN Tail(r.after) ELSE r.after IN
         IF text = <<>> THEN [res |-> "empty", hier |-> 0, text |-> <<>>, ps |-> r.ps]
         ELSE [res |-> "ok", hier |-> Hier(r.ps, r.sc), text |-> text, ps |-> r.ps]
=============================================================================
