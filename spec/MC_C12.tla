------------------------------- MODULE MC_C12 -------------------------------
(* C12: totality.  Every line over the FULL token alphabet up to a length bound, every document of
   such lines up to a line bound: Parse is defined on each (TLC would stop with an evaluation error
   otherwise), every running state accepts every line, EOF always yields a result, and the iterator
   form never hands a nil root to its consumer.  The degenerate documents (empty, blank-only, leading
   blank, indented first item, lone '#', lone bullet) are members by construction. *)
EXTENDS MC_Doc
CONSTANT MaxTok
Alphabet == {"SP", "TAB", "CR", "WS", "HY", "AS", "PL", "SH", "SL", "DOT", "a"}
C12_Pool == UNION {[1..n -> Alphabet] : n \in 0..MaxTok}
C12_Names == { <<"a">> }
C12_Sigma == { [unit |-> <<>>, heading |-> FALSE, crlf |-> FALSE, bullets |-> {}, blanks |-> FALSE] }
C12_Blank == { <<>> }

Total ==
  /\ gs.status \in {"run", "err"}
  /\ gs.status = "err" => gs.errk \in {"fmt", "empty", "nilstack"} /\ gs.errline = Len(doc)
  /\ gs.status = "run" => gs.errk = ""
\* empty or blank-only input: no roots, no error
BlankOnlyIsEmpty == (\A i \in 1..Len(doc) : IsBlank(StripCR(doc[i]))) => (gs.status = "run" /\ gs.roots = <<>>)
=============================================================================
