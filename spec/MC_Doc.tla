------------------------------- MODULE MC_Doc -------------------------------
(***************************************************************************)
(* Documents -> forests -> rows: the code-shaped generator + renderer      *)
(* (MdLine, MdDoc, Render) run side by side with the declarative reading   *)
(* (Forest) on every document the model generates.  A state is a document  *)
(* prefix; its observable `obs` is what the real code must show when that  *)
(* prefix is the whole input (replayed by the harness).                    *)
(*                                                                         *)
(* Mode "wf"   : well-formed documents = items x spelling sigma            *)
(* Mode "pool" : every sequence of lines from LinePool (malformed included)*)
(***************************************************************************)
EXTENDS MdDoc, Render, Forest, TLC

CONSTANTS
  Mode,        \* "wf" | "pool"
  Gen,         \* "slice" | "iter"
  Dev,         \* set of deviations switched on
  LastBy,      \* "index" | "identity"
  MaxLines,    \* bound on item lines (wf) / lines (pool)
  MaxDepth,
  MaxBlank,    \* blank lines per document (wf)
  Names,       \* set of names (token sequences)             (wf)
  SigmaSet,    \* set of [unit, heading, crlf, bullets, blanks] (wf)
  BlankPool,   \* set of blank lines                         (wf)
  LinePool     \* set of raw lines                           (pool)

VARIABLES doc, gs, an, sigma, gen_items, nblank, obs, partial
vars == <<doc, gs, an, sigma, gen_items, nblank, obs, partial>>

HeadingOK(n) == n[1] \notin (SpaceToks \cup {"SH"}) /\ n[Len(n)] \notin SpaceToks

SpellItem(d, n, sg, b) ==
  (IF sg.heading
   THEN IF d = 1 THEN <<"SH", "SP">> \o n ELSE Rep(sg.unit, d - 2) \o <<b, "SP">> \o n
   ELSE Rep(sg.unit, d - 1) \o <<b, "SP">> \o n)
  \o (IF sg.crlf THEN <<"CR">> ELSE <<>>)

\* the observable of "this prefix is the whole document", from the DECLARATIVE side
ObsOf(a) ==
  LET f == Trie(a.items) IN
  [verdict |-> a.verdict, line |-> a.line, why |-> a.why,
   forest |-> IF a.verdict = "accept" THEN f ELSE <<>>,
   rows   |-> IF a.verdict = "accept" THEN RuleBlocks(f) ELSE <<>>,
   walk   |-> IF a.verdict = "accept" THEN RuleWalk(f) ELSE <<>>,
   names  |-> [i \in 1..Len(a.items) |-> a.items[i].n]]

\* Layer M only (no property speaks about it): what has already been WRITTEN when the call fails. The
\* iterator generator hands root k to the printer when it meets root k+1, so every root but the open one
\* has been printed; the slice generator prints nothing before it has read everything.
PartialOf(g) ==
  IF g.status # "err" \/ Gen # "iter" \/ Len(g.roots) <= 1 THEN <<>>
  ELSE CodeRows(g.nodes, SubSeq(g.roots, 1, Len(g.roots) - 1), LastBy)

Init ==
  /\ doc = <<>>
  /\ gs = GS0(Gen)
  /\ an = A0
  /\ sigma \in (IF Mode = "wf" THEN SigmaSet ELSE {[unit |-> <<>>, heading |-> FALSE, crlf |-> FALSE, bullets |-> {}, blanks |-> FALSE]})
  /\ gen_items = <<>>
  /\ nblank = 0
  /\ obs = ObsOf(A0)
  /\ partial = <<>>

Feed(l) ==
  /\ gs.status = "run"
  /\ doc' = Append(doc, l)
  /\ gs' = GenStep(gs, l, Gen, Dev)
  /\ an' = AStep(an, l)
  /\ obs' = ObsOf(an')
  /\ partial' = PartialOf(gs')

NextWf ==
  \/ /\ Len(gen_items) < MaxLines
     /\ \E d \in 1..MaxDepth, n \in Names, b \in sigma.bullets :
          /\ d <= (IF gen_items = <<>> THEN 1 ELSE gen_items[Len(gen_items)].d + 1)
          /\ (sigma.heading /\ d = 1) => HeadingOK(n)
          /\ gen_items' = Append(gen_items, [d |-> d, n |-> n])
          /\ Feed(SpellItem(d, n, sigma, b))
          /\ UNCHANGED <<sigma, nblank>>
  \/ /\ nblank < (IF sigma.blanks THEN MaxBlank ELSE 0)
     /\ \E l \in BlankPool :
          /\ Feed(l)
          /\ nblank' = nblank + 1
          /\ UNCHANGED <<sigma, gen_items>>

NextPool ==
  /\ Len(doc) < MaxLines
  /\ \E l \in LinePool : Feed(l)
  /\ UNCHANGED <<sigma, gen_items, nblank>>

Next == IF Mode = "wf" THEN NextWf ELSE NextPool
Spec == Init /\ [][Next]_vars

---------------------------------------------------------------------------
(* Properties of the specified design (every state = "EOF here")           *)

CodeForest == ForestOf(gs.nodes, gs.roots)
RuleForest == Trie(an.items)

\* C01: the code-shaped renderer (index equality, bottom-up parent walk) draws the declarative rule
RenderMatchesRule ==
  (an.verdict = "accept") =>
     /\ gs.status = "run"
     /\ CodeRows(gs.nodes, gs.roots, LastBy) = RuleRows(RuleForest)

\* the stack/dfs generator builds the path trie
ForestMatchesTrie == (an.verdict = "accept") => CodeForest = RuleForest

\* ... and the trie composes: a root's tree is its name over the trees of its children's sub-documents (Forest.tla 3a)
ForestComposes == (an.verdict = "accept") => TrieComposes(an.items)

\* C05: walk records
WalkMatchesRule ==
  (an.verdict = "accept") => CodeWalk(gs.nodes, gs.roots, LastBy) = RuleWalk(RuleForest)

\* C02: malformed => rejected, at the offending line; nothing dropped silently
RejectsMalformed ==
  (an.verdict = "reject") => (gs.status = "err" /\ gs.errline = an.line)
AcceptsWellFormed == (an.verdict = "accept") => gs.status = "run"
NoSilentLoss == gs.dropped = {}

\* C15 (and the generator's own sanity): reading back a spelled document gives the items it was spelled from
SpellingInvariance ==
  (Mode = "wf") => (an.verdict = "accept" /\ an.items = gen_items)

\* the iterator form never hands a nil root to its consumer
NoNilRoot == ~YieldsNilRoot(gs, Gen, Dev)

TypeOK == gs.status \in {"run", "err"} /\ an.verdict \in {"accept", "reject", "grey"}
=============================================================================
