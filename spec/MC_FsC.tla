------------------------------- MODULE MC_FsC -------------------------------
(* constant values for the MC_Fs instances of C06 - C09 *)
EXTENDS MC_Fs
T == <<"t">>
ASSUME SpellingsAgree(<<"jail">>, T)    \* the five spellings of the target the replays use are one directory
Sentinels == [dirs |-> {<<"s">>}, files |-> {<<"s", "SL", "k">>}]
WithTarget == [Sentinels EXCEPT !.dirs = @ \cup {T}]
TargetIsFile == [Sentinels EXCEPT !.files = @ \cup {T}]
InitAll == {WithTarget, Sentinels, TargetIsFile}
InitPlain == {WithTarget, Sentinels}

PlainNames == { <<"a">>, <<"b">>, <<"f", "DOT", "x">> }
\* an over-long name, and a valid name that is ".." once its trailing blank is dropped
PlainNames2L == { <<"a">>, <<"L">>, <<"DOT", "DOT", "SP">> }
ExtsQ == { {}, {<<"DOT", "x">>} }
PlainNamesL == { <<"a">>, <<"b">>, <<"f", "DOT", "x">>, <<"L">> }
\* chains four deep: a valid name that is ".." once trailing blanks are dropped, and ".." itself
DeepNames == { <<"a">>, <<"DOT", "DOT", "SP">>, <<"DOT", "DOT">> }
HostileNames == { <<"a">>, <<"DOT">>, <<"DOT", "DOT">>, <<"a", "SL", "b">>, <<"SL", "a">>, <<"DOT", "DOT", "SL", "a">> }
\* dry-run: names that become files under some extension list, and hostile names
\* ("..a": a valid name that merely starts with two dots)
DryNames == { <<"a">>, <<"f", "DOT", "x">>, <<"DOT", "DOT">>, <<"a", "SL", "b">>, <<"DOT">>, <<"DOT", "DOT", "a">> }
Exts4 == { {}, {<<"DOT", "x">>}, {<<"f", "DOT", "x">>}, {<<"x">>, <<"DOT", "x">>}, {<<"b">>}, {<<"x">>}, {<<>>} }
Exts2 == { {}, {<<"a">>} }
ExtsX == { {<<"DOT", "x">>} }
Suffix1 == { <<"e">>, <<"f">>, <<"A">> }   \* "A": the required name "a" in another letter case   \* "f" is a proper prefix of the required name "f.x"
NoSuffix == {}
Long == {"L"}
=============================================================================
