------------------------------- MODULE MC_FsC -------------------------------
(* constant values for the MC_Fs instances of C06 - C09 *)
EXTENDS MC_Fs
T == <<"t">>
Sentinels == [dirs |-> {<<"s">>}, files |-> {<<"s", "SL", "k">>}]
WithTarget == [Sentinels EXCEPT !.dirs = @ \cup {T}]
TargetIsFile == [Sentinels EXCEPT !.files = @ \cup {T}]
InitAll == {WithTarget, Sentinels, TargetIsFile}
InitPlain == {WithTarget, Sentinels}

PlainNames == { <<"a">>, <<"b">>, <<"f", "DOT", "x">> }
PlainNamesL == { <<"a">>, <<"b">>, <<"f", "DOT", "x">>, <<"L">> }
HostileNames == { <<"a">>, <<"DOT">>, <<"DOT", "DOT">>, <<"a", "SL", "b">>, <<"SL", "a">>, <<"DOT", "DOT", "SL", "a">> }
Exts4 == { {}, {<<"DOT", "x">>}, {<<"f", "DOT", "x">>}, {<<"x">>, <<"DOT", "x">>}, {<<"b">>} }
Exts2 == { {}, {<<"a">>} }
ExtsX == { {<<"DOT", "x">>} }
Suffix1 == { <<"e">> }
NoSuffix == {}
Long == {"L"}
=============================================================================
