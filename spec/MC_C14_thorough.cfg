SPECIFICATION Spec
CONSTANTS
  IoNames <- IoNames2
  MaxItemsIo = 5
  MaxDepthIo = 3
  Gen = "iter"
  Dev = {}
INVARIANTS ReaderErrReturned NilMeansAllAccepted
CHECK_DEADLOCK FALSE
