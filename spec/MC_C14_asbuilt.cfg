SPECIFICATION Spec
CONSTANTS
  IoNames <- IoNames2
  MaxItemsIo = 3
  MaxDepthIo = 3
  Gen = "iter"
  Dev = {"TruncatedLineWins", "TextWriteErrIgnored", "DryIterErrDropped"}
INVARIANTS ReaderErrReturned NilMeansAllAccepted
CHECK_DEADLOCK FALSE
