SPECIFICATION Spec
CONSTANTS
  ApiNames <- Api_Names
  MaxCalls = 6
  MaxNodes = 4
  Kinds = {"text"}
  LastBy = "identity"
  ResetIdx = TRUE
  OpsAtEnd = 2
  Interleave = TRUE
  BadArgs = FALSE
  Iters = TRUE
INVARIANTS HistoryIndependent NoDuplicateSiblings
CHECK_DEADLOCK FALSE
