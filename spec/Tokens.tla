------------------------------- MODULE Tokens -------------------------------
(***************************************************************************)
(* Common vocabulary of the gtree specification suite.                     *)
(*                                                                         *)
(* A line is a sequence of tokens; a token is one of the rune classes the  *)
(* code distinguishes, or an opaque chunk id (any other string).           *)
(*   SP  ' '      TAB '\t'    CR '\r'    WS  any other Unicode white space  *)
(*   HY  '-'      AS  '*'     PL '+'     SH  '#'     SL '/'     DOT '.'      *)
(* A name is a token sequence.  Branch strings are the symbolic tokens     *)
(*   LD LI  (last node: directly / indirectly)                             *)
(*   MD MI  (intermediate node: directly / indirectly)                     *)
(* The harness concretises chunk ids and branch tokens to byte strings.    *)
(***************************************************************************)
EXTENDS Naturals, Sequences, FiniteSets

SpaceToks  == {"SP", "TAB", "CR", "WS"}      \* what strings.TrimSpace removes
IndentToks == {"SP", "TAB"}
Bullets    == {"HY", "AS", "PL"}
Specials   == {"SP", "TAB", "CR", "WS", "HY", "AS", "PL", "SH", "SL", "DOT"}
IsChunk(t) == t \notin Specials

IsBlank(l) == \A i \in 1..Len(l) : l[i] \in SpaceToks

\* index of the first occurrence of token t in l, 0 if none
IndexOf(l, t) ==
  IF \E i \in 1..Len(l) : l[i] = t
  THEN CHOOSE i \in 1..Len(l) : l[i] = t /\ \A j \in 1..(i-1) : l[j] # t
  ELSE 0

CountTok(l, t) == Cardinality({i \in 1..Len(l) : l[i] = t})

\* number of leading tokens of l that belong to S
RECURSIVE LeadLen(_, _)
LeadLen(l, S) == IF l = <<>> \/ Head(l) \notin S THEN 0 ELSE 1 + LeadLen(Tail(l), S)

RECURSIVE TrailLen(_, _)
TrailLen(l, S) == IF l = <<>> \/ l[Len(l)] \notin S THEN 0
                  ELSE 1 + TrailLen(SubSeq(l, 1, Len(l) - 1), S)

DropLead(l, S)  == SubSeq(l, LeadLen(l, S) + 1, Len(l))
DropTrail(l, S) == SubSeq(l, 1, Len(l) - TrailLen(l, S))
TrimSet(l, S)   == DropTrail(DropLead(l, S), S)

\* bufio.ScanLines drops one trailing '\r'
StripCR(l) == IF l # <<>> /\ l[Len(l)] = "CR" THEN SubSeq(l, 1, Len(l) - 1) ELSE l

IsSuffixSeq(s, t) == Len(s) <= Len(t) /\ SubSeq(t, Len(t) - Len(s) + 1, Len(t)) = s
IsPrefixSeq(s, t) == Len(s) <= Len(t) /\ SubSeq(t, 1, Len(s)) = s

RECURSIVE Flat(_)
Flat(ss) == IF ss = <<>> THEN <<>> ELSE Head(ss) \o Flat(Tail(ss))

RECURSIVE Rep(_, _)
Rep(s, n) == IF n = 0 THEN <<>> ELSE s \o Rep(s, n - 1)
=============================================================================
