SPECIFICATION Spec
CONSTANTS
  Mode = "wf"
  Gen = "iter"
  Dev = {}
  LastBy = "identity"
  MaxLines = 4
  MaxDepth = 4
  MaxBlank = 0
  Names <- C01_NamesPath
  SigmaSet <- C01_Sigma
  BlankPool <- C01_Blank
  LinePool <- C01_Pool
INVARIANTS TypeOK RenderMatchesRule ForestMatchesTrie WalkMatchesRule AcceptsWellFormed NoSilentLoss SpellingInvariance NoNilRoot
CHECK_DEADLOCK FALSE
