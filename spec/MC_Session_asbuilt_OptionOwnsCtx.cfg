SPECIFICATION Spec
CONSTANTS
  Calls <- AllCalls
  MaxLen = 2
  Dev = {"OptionOwnsCtx"}
INVARIANTS CallsAreIndependent
CHECK_DEADLOCK FALSE
