------------------------------ MODULE Options -------------------------------
(***************************************************************************)
(* config.go + the component factories of simple_tree.go / pipeline_tree.go *)
(* as a machine over OPTION SEQUENCES.                                     *)
(*                                                                         *)
(* A call receives a sequence of functional options; newConfig applies     *)
(* them in order to the default configuration (a nil option is skipped),   *)
(* then newTreeSimple / newTreePipeline pick a grower, a spreader, a       *)
(* mkdirer, a verifier from the configuration, and the entry point decides *)
(* which of them it uses.  What a call does is therefore a function of     *)
(*   (entry point, family, effective configuration)                        *)
(* and this module says which function:                                    *)
(*                                                                         *)
(*   CodeEff : transcribed from the factories and entry points as built    *)
(*             (named deviations in Dev, see below)                        *)
(*   RuleEff : what the documentation of the options says - the last       *)
(*             setting of a field wins, an option that the operation has   *)
(*             no use for changes nothing, dry run wins over an encoding,  *)
(*             and the two API families (From-Markdown, From-Root) mean    *)
(*             the same thing by the same options (C03: "x all options     *)
(*             accepted by both API families").                            *)
(*                                                                         *)
(* An "effect" is a record that names the behaviour and carries exactly    *)
(* the configuration fields that can influence the result.  Two calls of   *)
(* one entry point on one tree with equal effects must give equal results: *)
(* the harness executes the call with the state's option sequence and the  *)
(* call with the canonical sequence of its effect, on both families, and   *)
(* compares outputs, walk records, errors and directory snapshots.         *)
(*                                                                         *)
(* Dev (deviations found by replaying this model; both have been repaired, *)
(* MC_Opt_beforefix_violates.cfg keeps them as the counter-example):       *)
(*   "RootTextIgnoresDry"  OutputFromRoot with text output, simple mode,   *)
(*        goes through growAndSpread, which never looks at cfg.dryrun: it  *)
(*        prints the plain tree where From-Markdown (and From-Root in      *)
(*        massive mode) prints the dry-run report                          *)
(*   "EncodeDisablesGrower" growerFactory returns the no-op grower for any *)
(*        encoding whatever the entry point: a dry-run report then has no  *)
(*        branches, a walk has no branches and paths, and mkdir / verify   *)
(*        validate nothing and see every node at the empty path            *)
(***************************************************************************)
EXTENDS Sequences, Naturals, FiniteSets, TLC

CONSTANTS
  Mode,        \* "seq": option sequences up to MaxOpts over OptToks; "cfg": every configuration record, each through its canonical sequence
  OptToks,     \* the option alphabet (see Apply)
  MaxOpts,     \* bound on the length of the option sequence
  MinOpts,     \* a call is made only after at least this many options (0 for the exhaustive runs; > 0 steers -simulate to long sequences)
  Ops,         \* entry points: subset of {"output", "walk", "mkdir", "verify"}
  Dev

VARIABLES opts, op, fam, code, rule
ovars == <<opts, op, fam, code, rule>>

Default == [encode |-> "text", dry |-> FALSE, exts |-> "none", target |-> "A", strict |-> FALSE,
            noiter |-> FALSE, massive |-> "no", brL |-> "std", brI |-> "std"]

\* config.go: one option applied to the configuration
Apply(c, o) ==
  CASE o = "json"     -> [c EXCEPT !.encode = "json"]
    [] o = "yaml"     -> [c EXCEPT !.encode = "yaml"]
    [] o = "toml"     -> [c EXCEPT !.encode = "toml"]
    [] o = "dry"      -> [c EXCEPT !.dry = TRUE]
    [] o = "exts1"    -> [c EXCEPT !.exts = "e1"]      \* WithFileExtensions({".x"})
    [] o = "exts2"    -> [c EXCEPT !.exts = "e2"]      \* WithFileExtensions({"a"}): a whole name
    [] o = "exts0"    -> [c EXCEPT !.exts = "none"]    \* WithFileExtensions({}) : back to none
    [] o = "targetB"  -> [c EXCEPT !.target = "B"]
    [] o = "targetA"  -> [c EXCEPT !.target = "A"]
    [] o = "strict"   -> [c EXCEPT !.strict = TRUE]
    [] o = "noiter"   -> [c EXCEPT !.noiter = TRUE]
    [] o = "massive"  -> [c EXCEPT !.massive = "yes"]
    [] o = "mcancel"  -> [c EXCEPT !.massive = "cancelled"]   \* WithMassive(ctx) with a context that is already cancelled
    [] o = "brL1"     -> [c EXCEPT !.brL = "L1"]
    [] o = "brL2"     -> [c EXCEPT !.brL = "L2"]
    [] o = "brI1"     -> [c EXCEPT !.brI = "I1"]
    [] o = "nil"      -> c                              \* a nil Option is skipped

RECURSIVE Fold(_, _)
Fold(c, s) == IF s = <<>> THEN c ELSE Fold(Apply(c, Head(s)), Tail(s))
Cfg(s) == Fold(Default, s)

---------------------------------------------------------------------------
(* effects *)
E(k, fields) == [k |-> k] @@ fields

TextEff(c)    == [k |-> "text",    brL |-> c.brL, brI |-> c.brI]
EncEff(c)     == [k |-> c.encode]
ReportEff(c)  == [k |-> "report",  brL |-> c.brL, brI |-> c.brI, exts |-> c.exts]   \* rows + counts, names validated
FlatEff(c)    == [k |-> "flatreport", exts |-> c.exts]                              \* no branches, names not validated
\* (WithDryRun "detects node that is invalid for directory generation": the grower validates names, also for a walk)
WalkEff(c)    == [k |-> "walk",    brL |-> c.brL, brI |-> c.brI, validate |-> c.dry]
MkdirEff(c)   == [k |-> "mkdir",   exts |-> c.exts, target |-> c.target]
VerifyEff(c)  == [k |-> "verify",  target |-> c.target, strict |-> c.strict]
\* with the no-op grower no node has a branch or a path
NoPathWalk    == [k |-> "walk-nopaths"]
NoPathMkdir(c)  == [k |-> "mkdir-nopaths",  exts |-> c.exts, target |-> c.target]
NoPathVerify(c) == [k |-> "verify-nopaths", target |-> c.target, strict |-> c.strict]

\* massive mode with a context that is cancelled before the call: the context's error, whatever else was asked for (C11)
Cancelled == [k |-> "cancelled"]

\* what the documentation of the options says
RuleEff(o, f, c) ==
  IF c.massive = "cancelled" THEN Cancelled ELSE
  CASE o = "output" -> IF c.dry THEN ReportEff(c)
                       ELSE IF c.encode = "text" THEN TextEff(c) ELSE EncEff(c)
    [] o = "walk"   -> WalkEff(c)
    [] o = "mkdir"  -> IF c.dry THEN ReportEff(c) ELSE MkdirEff(c)
    [] o = "verify" -> VerifyEff(c)

\* the factories and entry points, branch for branch
\*   grower   = nop if encode # text, else branches (+ validation when dry or mkdir/verify enable it)
\*   spreader = colourising if dry, else by encode
CodeEff(o, f, c) ==
  IF c.massive = "cancelled" THEN Cancelled ELSE
  LET nop == c.encode # "text" /\ "EncodeDisablesGrower" \in Dev IN
  CASE o = "output" /\ f = "md" ->
         IF c.dry THEN (IF nop THEN FlatEff(c) ELSE ReportEff(c))
         ELSE IF c.encode = "text" THEN TextEff(c) ELSE EncEff(c)
    [] o = "output" /\ f = "root" ->
         \* outputProgrammably: encode # default -> grow + spread; else growAndSpread (never looks at dryrun)
         \* the pipeline has no growAndSpread: in massive mode it is the From-Markdown case
         IF c.encode # "text" THEN (IF c.dry THEN (IF nop THEN FlatEff(c) ELSE ReportEff(c)) ELSE EncEff(c))
         ELSE IF c.dry /\ (c.massive = "yes" \/ "RootTextIgnoresDry" \notin Dev) THEN ReportEff(c)
         ELSE TextEff(c)
    [] o = "walk"   -> IF nop THEN NoPathWalk ELSE WalkEff(c)
    [] o = "mkdir"  -> IF c.dry THEN (IF nop THEN FlatEff(c) ELSE ReportEff(c))
                       ELSE IF nop THEN NoPathMkdir(c) ELSE MkdirEff(c)
    [] o = "verify" -> IF nop THEN NoPathVerify(c) ELSE VerifyEff(c)

---------------------------------------------------------------------------
Init == opts = <<>> /\ op = "none" /\ fam = "none" /\ code = [k |-> "none"] /\ rule = [k |-> "none"]

AddOpt(o) ==
  /\ op = "none" /\ Len(opts) < MaxOpts
  /\ opts' = Append(opts, o)
  /\ UNCHANGED <<op, fam, code, rule>>

Call(o, f) ==
  /\ op = "none" /\ Len(opts) >= MinOpts
  /\ op' = o /\ fam' = f
  /\ code' = CodeEff(o, f, Cfg(opts))
  /\ rule' = RuleEff(o, f, Cfg(opts))
  /\ UNCHANGED opts

\* Every configuration there is.  Default \in AllCfgs and Apply maps AllCfgs into itself (CfgSpaceClosed), so the
\* configuration of an option sequence of ANY length lies in AllCfgs: what holds for every member of AllCfgs
\* (EffAgreeEverywhere, and the replay of every member on the real entry points) holds for every sequence.
AllCfgs == [encode : {"text", "json", "yaml", "toml"}, dry : BOOLEAN, exts : {"none", "e1", "e2"}, target : {"A", "B"},
            strict : BOOLEAN, noiter : BOOLEAN, massive : {"no", "yes", "cancelled"}, brL : {"std", "L1", "L2"}, brI : {"std", "I1"}]
AllToks == {"json", "yaml", "toml", "dry", "exts1", "exts2", "exts0", "targetB", "targetA", "strict", "noiter",
            "massive", "mcancel", "brL1", "brL2", "brI1", "nil"}
CfgSpaceClosed == Default \in AllCfgs /\ \A c \in AllCfgs, o \in AllToks : Apply(c, o) \in AllCfgs
EffAgreeEverywhere == \A c \in AllCfgs, o \in Ops, f \in {"md", "root"} : CodeEff(o, f, c) = RuleEff(o, f, c)

\* one option per field that differs from the default, in a fixed order
CanonSeq(c) ==
  (IF c.encode = "text" THEN <<>> ELSE <<c.encode>>)
  \o (IF c.dry THEN <<"dry">> ELSE <<>>)
  \o (IF c.exts = "e1" THEN <<"exts1">> ELSE IF c.exts = "e2" THEN <<"exts2">> ELSE <<>>)
  \o (IF c.target = "B" THEN <<"targetB">> ELSE <<>>)
  \o (IF c.strict THEN <<"strict">> ELSE <<>>)
  \o (IF c.noiter THEN <<"noiter">> ELSE <<>>)
  \o (IF c.massive = "yes" THEN <<"massive">> ELSE IF c.massive = "cancelled" THEN <<"mcancel">> ELSE <<>>)
  \o (IF c.brL = "L1" THEN <<"brL1">> ELSE IF c.brL = "L2" THEN <<"brL2">> ELSE <<>>)
  \o (IF c.brI = "I1" THEN <<"brI1">> ELSE <<>>)
CanonSeqIsRight == \A c \in AllCfgs : Cfg(CanonSeq(c)) = c

CallCfg(c, o, f) ==
  /\ op = "none"
  /\ opts' = CanonSeq(c) /\ op' = o /\ fam' = f
  /\ code' = CodeEff(o, f, c)
  /\ rule' = RuleEff(o, f, c)

Next == IF Mode = "cfg" THEN \E c \in AllCfgs, o \in Ops, f \in {"md", "root"} : CallCfg(c, o, f)
        ELSE (\E o \in OptToks : AddOpt(o)) \/ (\E o \in Ops, f \in {"md", "root"} : Call(o, f))
Spec == Init /\ [][Next]_ovars

---------------------------------------------------------------------------
\* the code means by the options what their documentation says
OptionsMeanWhatTheySay == op # "none" => code = rule
\* C03: both API families mean the same by the same options
FamiliesAgree == op # "none" => CodeEff(op, "md", Cfg(opts)) = CodeEff(op, "root", Cfg(opts))

\* facts about config.go that hold by construction of Apply (checked, not assumed)
Idempotent == \A o \in OptToks : Apply(Apply(Cfg(opts), o), o) = Apply(Cfg(opts), o)
NilIsNeutral == Cfg(Append(opts, "nil")) = Cfg(opts)
=============================================================================
