SPECIFICATION Spec
CONSTANTS
  Mode = "wf"
  Gen = "slice"
  Dev = {}
  LastBy = "identity"
  MaxLines = 5
  MaxDepth = 4
  MaxBlank = 0
  Names <- C05_Names
  SigmaSet <- C05_Sigma
  BlankPool <- C05_Blank
  LinePool <- C05_Pool
INVARIANTS TypeOK WalkMatchesRule StopMatchesRule RenderMatchesRule ForestMatchesTrie SpellingInvariance
CHECK_DEADLOCK FALSE
