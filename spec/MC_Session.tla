----------------------------- MODULE MC_Session -----------------------------
EXTENDS Session
C(op, fam, opts, doc, fault) == [op |-> op, fam |-> fam, opts |-> opts, doc |-> doc, fault |-> fault]
Br == <<"brL1", "brI1">>
\* the call alphabet of the bounded sessions: every operation, both API families, the encoders, dry run, custom
\* branch strings, massive mode, the document classes (indentation styles, headings, a name with '/', names that
\* match extensions), failing writers and readers, a target that already holds the tree
TextCalls == {C("output", "md", <<>>, d, "none") : d \in {"tab", "sp2", "sp4", "head", "slash"}}
        \cup {C("output", "md", <<>>, "tab", "w1"), C("output", "md", <<>>, "sp2", "w2"), C("output", "md", Br, "slash", "none"),
              C("output", "md", <<>>, "sp2", "rhalf")}
        \cup {C("output", "root", <<>>, "tab", f) : f \in {"none", "w1", "w2"}} \cup {C("output", "root", <<>>, "slash", "none")}
EncCalls  == {C("output", "md", <<"json">>, "tab", f) : f \in {"none", "w1"}} \cup {C("output", "md", <<"yaml">>, "sp2", f) : f \in {"none", "w1"}}
        \cup {C("output", "root", <<"json">>, "tab", f) : f \in {"none", "w1"}}
DryCalls  == {C("output", "md", <<"dry">>, "sp2", "none"), C("output", "md", <<"dry", "extsDup">>, "files", "none"),
              C("output", "md", <<"dry">>, "slash", "none"), C("output", "root", <<"dry", "extsDup">>, "files", "none"),
              C("mkdir", "md", <<"dry", "extsDup">>, "files", "none")}
WalkCalls == {C("walk", "md", <<>>, "tab", "none"), C("walk", "md", <<>>, "slash", "none"), C("walk", "root", <<>>, "tab", "none")}
MkdirCalls == {C("mkdir", "md", <<>>, "sp2", "none"), C("mkdir", "md", <<"extsDup">>, "files", "none"), C("mkdir", "md", <<>>, "tab", "pre"),
               C("mkdir", "md", <<>>, "slash", "none"), C("mkdir", "root", <<"extsDup">>, "files", "none")}
VerifyCalls == {C("verify", "md", <<>>, "sp2", "none"), C("verify", "md", <<"strict">>, "tab", "pre"), C("verify", "md", Br, "sp2", "none"),
                C("verify", "root", <<>>, "tab", "none")}
MassiveCalls == {C("output", "md", <<"massive">>, "tab", "none"), C("output", "md", <<"massive">>, "sp2", "w1"),
                 C("mkdir", "md", <<"massive", "extsDup">>, "files", "none")}
\* a name the file system refuses (longer than 255 bytes) below a root: mkdir fails after validation, in the middle of its work
LongCalls == {C("mkdir", "md", <<"massive">>, "long", "none"), C("mkdir", "md", <<>>, "long", "none"), C("verify", "md", <<>>, "long", "none")}
\* two documents rejected with a format error, each naming its own row
FmtCalls == {C("output", "md", <<>>, "fmt1", "none"), C("output", "md", <<"massive">>, "fmt2", "none")}
\* a tree rooted at "." (valid: the target directory itself) and a tree with a "." below its root (invalid): what a
\* name is worth depends on where it stands, not on which tree was looked at first
DotCalls == {C("output", "root", <<"dry">>, "dotroot", "none"), C("output", "root", <<"dry">>, "dotchild", "none")}
AllCalls == DotCalls \cup LongCalls \cup FmtCalls \cup TextCalls \cup EncCalls \cup DryCalls \cup WalkCalls \cup MkdirCalls \cup VerifyCalls \cup MassiveCalls
=============================================================================
