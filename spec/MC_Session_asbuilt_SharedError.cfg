SPECIFICATION Spec
CONSTANTS
  Calls <- AllCalls
  MaxLen = 2
  Dev = {"SharedError"}
INVARIANTS CallsAreIndependent
CHECK_DEADLOCK FALSE
