SPECIFICATION Spec
CONSTANTS
  IoNames <- IoNames2
  MaxItemsIo = 4
  MaxDepthIo = 3
  Gen = "iter"
  Dev = {"ReadRetried"}
INVARIANTS ReaderErrReturned NilMeansAllAccepted
CHECK_DEADLOCK FALSE
