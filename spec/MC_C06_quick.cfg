SPECIFICATION Spec
CONSTANTS
  FsNames <- PlainNames
  ExtSets <- Exts4
  InitSet <- InitAll
  Target <- T
  Routes = {"md", "root"}
  Ops = {"env", "mkdir"}
  MaxItems = 3
  MaxDepthFs = 3
  MaxEnv = 1
  MaxOps = 2
  EnvSuffixes <- NoSuffix
  EnvFirst = TRUE
  LongToks <- Long
  Dev = {}
INVARIANTS C06_ExactlyTheTree C06_ExistsUnchanged C06_RefusalIsError C06_Succeeds C07_Confined C07_NothingRemoved C07_InvalidRejected C08_VerdictIff C08_Lists C08_ReadOnly C08_FreshMkdirVerifies C09_DryTouchesNothing C09_DryRejectsIffReal C09_DryIsReportOrInvalid C09_CountsPredictReal
CHECK_DEADLOCK FALSE
