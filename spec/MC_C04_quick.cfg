SPECIFICATION Spec
CONSTANTS
  Mode = "wf"
  Gen = "iter"
  Dev = {}
  LastBy = "identity"
  MaxLines = 4
  MaxDepth = 4
  MaxBlank = 0
  Names <- C04_Names
  SigmaSet <- C04_Sigma
  BlankPool <- C04_Blank
  LinePool <- C04_Pool
INVARIANTS TypeOK ForestMatchesTrie ForestComposes SpellingInvariance AcceptsWellFormed
CHECK_DEADLOCK FALSE
