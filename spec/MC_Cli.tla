------------------------------- MODULE MC_Cli -------------------------------
EXTENDS Cli
B == BOOLEAN
Inv(sub, format, massive, file, dryrun, exts, target, strict, stray, unknown, doc, stdout) ==
  [sub |-> sub, format |-> format, massive |-> massive, file |-> file, dryrun |-> dryrun, exts |-> exts,
   target |-> target, strict |-> strict, stray |-> stray, unknown |-> unknown, doc |-> doc, stdout |-> stdout, mtimeout |-> FALSE, watch |-> FALSE,
   sp |-> "long", usage |-> "", desc |-> FALSE, argv |-> <<>>]
\* output --massive-timeout 1ns (an already expired context)
TimeoutInvs == {[Inv("output", f, m, file, FALSE, {}, "", FALSE, FALSE, FALSE, d, "pipe") EXCEPT !.mtimeout = TRUE] :
                  f \in {"", "json"}, m \in B, file \in {"stdin", "existing"}, d \in {"wf", "empty", "malformed"}}
\* output --watch
WatchInvs == {[Inv("output", f, m, file, FALSE, {}, "", FALSE, FALSE, FALSE, d, "pipe") EXCEPT !.watch = TRUE] :
                f \in {"", "json"}, m \in B, file \in {"stdin", "existing", "missing"}, d \in {"wf", "empty", "malformed"}}
Docs == {"wf", "malformed", "empty", "hostile"}
DotDocs == {"dot"}
Files == {"stdin", "dash", "existing", "missing"}
Outs == {"pipe", "closed", "full"}
OutputInvs == {Inv("output", f, m, file, FALSE, {}, "", FALSE, st, un, d, o) :
                 f \in {"", "json", "yaml", "toml", "bad"}, m \in B, file \in Files, st \in B, un \in B, d \in Docs, o \in Outs}
\* (the mkdir subcommand defines no --massive flag)
MkdirInvs  == {Inv("mkdir", "", m, file, dr, e, t, FALSE, st, un, d, o) :
                 m \in {FALSE}, file \in {"stdin", "existing", "missing"}, dr \in B, e \in {{}, {".x"}}, t \in {"", "sub"}, st \in B, un \in B,
                 d \in Docs, o \in {"pipe", "full"}}
VerifyInvs == {Inv("verify", "", FALSE, file, FALSE, {}, t, s, st, un, d, "pipe") :
                 file \in {"stdin", "existing", "missing"}, t \in {"", "sub"}, s \in B, st \in B, un \in B, d \in Docs}
TemplateInvs == {Inv("template", "", FALSE, "stdin", FALSE, {}, "", FALSE, st, FALSE, "wf", o) : st \in B, o \in Outs}
DotInvs == {Inv("output", "", FALSE, "stdin", FALSE, {}, "", FALSE, FALSE, FALSE, "dot", "pipe")}
           \cup {Inv("mkdir", "", FALSE, "stdin", FALSE, {}, t, FALSE, FALSE, FALSE, "dot", "pipe") : t \in {"", "sub"}}
           \cup {Inv("verify", "", FALSE, "stdin", FALSE, {}, t, s, FALSE, FALSE, "dot", "pipe") : t \in {"", "sub"}, s \in B}
\* further usage errors: a value flag without its value, --massive-timeout 0s / unparsable
UsageInvs == {[Inv("output", "", m, "stdin", FALSE, {}, "", FALSE, FALSE, FALSE, "wf", "pipe") EXCEPT !.usage = u] :
                m \in B, u \in {"noarg", "timeout0", "timeoutbad"}}
             \cup {[Inv(s, "", FALSE, "stdin", FALSE, {}, "", FALSE, FALSE, FALSE, "wf", "pipe") EXCEPT !.usage = "noarg"] : s \in {"mkdir", "verify"}}
\* template --description, version, --help, nothing, an unknown subcommand
InfoInvs == {[Inv("template", "", FALSE, "stdin", FALSE, {}, "", FALSE, st, FALSE, "wf", o) EXCEPT !.desc = TRUE] : st \in B, o \in {"pipe", "full"}}
            \cup {Inv(s, "", FALSE, "stdin", FALSE, {}, "", FALSE, FALSE, FALSE, "wf", "pipe") : s \in {"version", "help", "none", "bogus"}}
            \cup {Inv("version", "", FALSE, "stdin", FALSE, {}, "", FALSE, TRUE, FALSE, "wf", "pipe")}
\* a document of more than 1 MiB (tens of thousands of small roots): size must not change what an invocation is wired to
BigInvs == {Inv("output", f, m, file, FALSE, {}, "", FALSE, FALSE, FALSE, "big", "pipe") : f \in {"", "json"}, m \in B, file \in {"stdin", "existing"}}
\* stdout is a pipe nobody reads any more
BrokenInvs == {Inv("output", f, m, file, FALSE, {}, "", FALSE, FALSE, FALSE, d, "broken") : f \in {"", "json"}, m \in B, file \in {"stdin", "existing"}, d \in {"wf", "empty", "malformed"}}
              \cup {Inv("mkdir", "", FALSE, "stdin", dr, {".x"}, "", FALSE, FALSE, FALSE, "wf", "broken") : dr \in B}
              \cup {Inv("template", "", FALSE, "stdin", FALSE, {}, "", FALSE, FALSE, FALSE, "wf", "broken")}
\* an empty word right after the command (the flags behind it must not be dropped silently: it is a usage error)
EmptyArgInvs == {[Inv(s, "", FALSE, "stdin", dr, e, "", st, FALSE, FALSE, "wf", "pipe") EXCEPT !.usage = "emptyarg"] :
                   s \in {"output", "mkdir", "verify"}, dr \in B, e \in {{}, {".x"}}, st \in B}
\* stdin is /dev/null: the empty document, for every command that reads one
NullInvs == {Inv("output", f, m, "null", FALSE, {}, "", FALSE, FALSE, FALSE, "empty", "pipe") : f \in {"", "json"}, m \in B}
            \cup {Inv("mkdir", "", FALSE, "null", dr, {}, "", FALSE, FALSE, FALSE, "empty", "pipe") : dr \in B}
            \cup {Inv("verify", "", FALSE, "null", FALSE, {}, "", s, FALSE, FALSE, "empty", "pipe") : s \in B}
\* --file /dev/stdin (not seekable) and a --target-dir below a regular file
DevStdinInvs == {Inv(s, f, FALSE, "devstdin", dr, {}, "", FALSE, FALSE, FALSE, d, "pipe") : s \in {"output", "mkdir", "verify"}, f \in {""}, dr \in {FALSE}, d \in {"wf", "malformed"}}
                \cup {Inv("output", "json", m, "devstdin", FALSE, {}, "", FALSE, FALSE, FALSE, "wf", "pipe") : m \in B}
UnderFileInvs == {Inv("mkdir", "", FALSE, "stdin", dr, {}, "reg/sub", FALSE, FALSE, FALSE, d, "pipe") : dr \in B, d \in {"wf", "hostile"}}
                 \cup {Inv("verify", "", FALSE, "stdin", FALSE, {}, "reg/sub", st, FALSE, FALSE, "wf", "pipe") : st \in B}
\* flag values with a '$' in them are names as they stand (nothing expands them)
DollarInvs == {Inv("mkdir", "", FALSE, "stdin", dr, {".x"}, "s$HOME", FALSE, FALSE, FALSE, "wf", "pipe") : dr \in B}
              \cup {Inv("verify", "", FALSE, "stdin", FALSE, {}, "s$HOME", st, FALSE, FALSE, "wf", "pipe") : st \in B}
              \cup {Inv(s, "", FALSE, "dollar", FALSE, {}, "", FALSE, FALSE, FALSE, d, "pipe") : s \in {"output", "mkdir", "verify"}, d \in {"wf", "malformed"}}
\* a verification whose report lists exactly 256 paths
ManyInvs == {Inv("verify", "", FALSE, "stdin", FALSE, {}, t, st, FALSE, FALSE, "many", "pipe") : st \in B, t \in {"", "sub"}}
BaseInvs == ManyInvs \cup DollarInvs \cup DevStdinInvs \cup UnderFileInvs \cup EmptyArgInvs \cup NullInvs \cup BigInvs \cup BrokenInvs \cup OutputInvs \cup MkdirInvs \cup VerifyInvs \cup TemplateInvs \cup DotInvs \cup TimeoutInvs \cup WatchInvs \cup UsageInvs \cup InfoInvs
\* every invocation in its three spellings, with the argv words the real binary is given
Spelled(S, sps) == {[ [i EXCEPT !.sp = sp] EXCEPT !.argv = Argv([i EXCEPT !.sp = sp])] : i \in S, sp \in sps}
AllInvs == Spelled(BaseInvs, {"long", "short", "eq"})
QuickInvs == Spelled(BaseInvs, {"long"}) \cup Spelled({i \in BaseInvs : i.stdout = "pipe" /\ i.file # "dash"}, {"short", "eq"})
\* second and third steps of a sequence: the same well-formed document, mkdir / verify variants
Follow == Spelled({Inv("mkdir", "", FALSE, "stdin", dr, {".x"}, "", FALSE, FALSE, FALSE, "wf", "pipe") : dr \in B}
          \cup {Inv("verify", "", FALSE, "stdin", FALSE, {}, "", s, FALSE, FALSE, d, "pipe") : s \in B, d \in {"wf", "dot"}}, {"long", "short"})
FirstOfSeq == {i \in AllInvs : i.sp = "long" /\ i.usage = "" /\ i.sub \in {"mkdir", "verify"} /\ i.doc = "wf" /\ i.target = "" /\ ~i.stray /\ ~i.unknown /\ i.file = "stdin" /\ i.exts = {".x"} /\ i.stdout = "pipe"}
=============================================================================
