SPECIFICATION FairSpec
CONSTANTS
  N = 2
  W = 2
  Fates <- OkOnly
  ReaderFails <- NoReaderFail
  Entry = "md"
  Sink = "text"
  CanCancel = TRUE
  PreCancelled = TRUE
  Dev = {}
PROPERTIES Termination NoLeak
CHECK_DEADLOCK FALSE
