------------------------------- MODULE Render -------------------------------
(***************************************************************************)
(* simple_tree_grower.go / simple_tree_spreader.go / simple_tree_walker.go *)
(* / simple_tree_grow_spreader.go / node.go transcribed (code-shaped):     *)
(* branches are assembled bottom-up by walking parent links, "is last" is  *)
(* decided by INDEX EQUALITY with the parent's last child (or by node      *)
(* identity when LastBy = "identity", the repaired code).                  *)
(*                                                                         *)
(* nodes : sequence of [name, hier, idx, parent, kids]; roots : ids        *)
(***************************************************************************)
EXTENDS Tokens

\* node.isLastOfHierarchy
IsLast(nodes, n, LastBy) ==
  LET p == nodes[n].parent IN
  IF p = 0 THEN FALSE
  ELSE LET ks == nodes[p].kids IN
       IF LastBy = "index" THEN nodes[n].idx = nodes[ks[Len(ks)]].idx
       ELSE n = ks[Len(ks)]

IsRootNode(nodes, n) == nodes[n].hier = 1

\* assembleBranch: directly, then one indirectly per non-root ancestor (prepended), bottom-up
RECURSIVE UpBranch(_, _, _, _)
UpBranch(nodes, a, acc, LastBy) ==                      \* a = tmpParent
  IF a = 0 \/ IsRootNode(nodes, a) THEN acc
  ELSE UpBranch(nodes, nodes[a].parent,
                <<IF IsLast(nodes, a, LastBy) THEN "LI" ELSE "MI">> \o acc, LastBy)

BranchOf(nodes, n, LastBy) ==
  IF IsRootNode(nodes, n) THEN <<>>
  ELSE UpBranch(nodes, nodes[n].parent,
                <<IF IsLast(nodes, n, LastBy) THEN "LD" ELSE "MD">>, LastBy)

\* names from the root down to n (before path.Join cleans them)
RECURSIVE UpNames(_, _, _)
UpNames(nodes, a, acc) == IF a = 0 THEN acc ELSE UpNames(nodes, nodes[a].parent, <<nodes[a].name>> \o acc)
NamesOf(nodes, n) == UpNames(nodes, n, <<>>)

RowOf(nodes, n, LastBy) ==
  IF IsRootNode(nodes, n) THEN nodes[n].name
  ELSE BranchOf(nodes, n, LastBy) \o <<"SP">> \o nodes[n].name

\* pre-order of the subtree of n (spreadBranch / walkNode / assemble recursion)
RECURSIVE PreOrder(_, _)
PreOrder(nodes, n) ==
  <<n>> \o Flat([i \in 1..Len(nodes[n].kids) |-> PreOrder(nodes, nodes[n].kids[i])])

CodeRowsOfRoot(nodes, r, LastBy) ==
  LET po == PreOrder(nodes, r) IN [i \in 1..Len(po) |-> RowOf(nodes, po[i], LastBy)]

CodeRows(nodes, roots, LastBy) ==
  Flat([i \in 1..Len(roots) |-> CodeRowsOfRoot(nodes, roots[i], LastBy)])

CodeWalkRec(nodes, n, LastBy) ==
  [name |-> nodes[n].name, branch |-> BranchOf(nodes, n, LastBy), level |-> nodes[n].hier,
   path |-> NamesOf(nodes, n), hasChild |-> nodes[n].kids # <<>>]

CodeWalk(nodes, roots, LastBy) ==
  Flat([i \in 1..Len(roots) |->
         LET po == PreOrder(nodes, roots[i]) IN
         [j \in 1..Len(po) |-> CodeWalkRec(nodes, po[j], LastBy)]])

\* the node store as a nested tree (toFormattedNode: positional copy)
RECURSIVE TreeOf(_, _)
TreeOf(nodes, n) == [name |-> nodes[n].name,
                     kids |-> [i \in 1..Len(nodes[n].kids) |-> TreeOf(nodes, nodes[n].kids[i])]]
ForestOf(nodes, roots) == [i \in 1..Len(roots) |-> TreeOf(nodes, roots[i])]
=============================================================================
