SPECIFICATION Spec
CONSTANTS
  Mode = "seq"
  OptToks <- Opt_Quick
  MaxOpts = 3
  MinOpts = 0
  Ops <- AllOps
  Dev <- AsBuilt
INVARIANTS Idempotent NilIsNeutral FamiliesAgree OptionsMeanWhatTheySay
CHECK_DEADLOCK FALSE
