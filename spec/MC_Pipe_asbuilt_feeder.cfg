SPECIFICATION Spec
CONSTANTS
  N = 1
  W = 2
  Fates <- OkOnly
  ReaderFails <- NoReaderFail
  Entry = "root"
  Sink = "text"
  CanCancel = TRUE
  PreCancelled = TRUE
  Dev = {"ErrSendBlocks", "FeederBlocks", "NilOnCancel"}
INVARIANTS TypeOK NoStuck NilMeansComplete FaultMeansErr NoSpuriousErr CancelMeansCtxErr BlockIntegrity NoDupNoGhost
CHECK_DEADLOCK FALSE
