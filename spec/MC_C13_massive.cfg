SPECIFICATION Spec
CONSTANTS
  ApiNames <- Api_Names
  MaxCalls = 5
  MaxNodes = 3
  Kinds = {"mtree", "mtext", "text"}
  LastBy = "identity"
  ResetIdx = TRUE
  OpsAtEnd = 2
  Interleave = TRUE
  BadArgs = FALSE
  Iters = FALSE
INVARIANTS HistoryIndependent NoDuplicateSiblings
CHECK_DEADLOCK FALSE
