------------------------------- MODULE MC_PS --------------------------------
EXTENDS ParserShared
\* documents in ONE notation: bullet roots with 2-space or tab unit, heading roots with items below
L(s) == s
OneNotation == {
  << <<"HY","SP","a">>, <<"SP","SP","HY","SP","b">>, <<"HY","SP","c">>, <<"SP","SP","AS","SP","d">>, <<"SP","SP","SP","SP","HY","SP","e">> >>,
  << <<"HY","SP","a">>, <<"TAB","HY","SP","b">>, <<"TAB","TAB","HY","SP","c">>, <<"PL","SP","a">>, <<"TAB","HY","SP","b">> >>,
  << <<"SH","SP","a">>, <<"HY","SP","b">>, <<"SP","SP","HY","SP","c">>, <<"SH","SH","SP","d">>, <<"AS","SP","e">>, <<"HY","SP","f">> >>,
  << <<>>, <<"SH","SP","a">>, <<"HY","SP","b">>, <<"SP">>, <<"SH","SP","c">>, <<"HY","SP","d">>, <<"TAB","HY","SP","e">> >>,
  << <<"HY","SP","a">>, <<"SP","SP","HY","SP","b">>, <<"HY","SP","c">>, <<"SP","SP","SP","HY","SP","d">> >>,
  << <<"HY","SP","a">>, <<"SP","SP","HY">>, <<"HY","SP","c">>, <<"SP","SP","HY","SP","d">> >>,
  << <<"SP","SP","HY","SP","x">>, <<"HY","SP","a">> >>,
  << <<"HY","SP","a">>, <<"HY","SP","a">>, <<"SP","SP","HY","SP","b">>, <<"SP","SP","SP","SP","SP","SP","HY","SP","c">> >>
}
\* every document of up to MaxPS lines over a pool in ONE notation (list roots, 2-space unit, three bullets,
\* a blank line, an empty item, an off-unit line, a level jump) ...
CONSTANT MaxPS
BulletPool == { <<"HY","SP","a">>, <<"AS","SP","b">>, <<"SP","SP","HY","SP","a">>, <<"SP","SP","PL","SP","b">>,
                <<"SP","SP","SP","SP","HY","SP","a">>, <<>>, <<"SP","SP","HY">>, <<"SP","SP","SP","HY","SP","a">>,
                <<"SP","SP","SP","SP","SP","SP","HY","SP","b">> }
BulletDocs == UNION {[1..n -> BulletPool] : n \in 1..MaxPS}
\* ... and over a pool with # roots and tab-indented items below them
HeadingPool == { <<"SH","SP","a">>, <<"SH","SH","SP","b">>, <<"HY","SP","a">>, <<"AS","SP","b">>, <<"TAB","HY","SP","a">>, <<>>, <<"TAB","TAB","HY","SP","b">> }
HeadingDocs == {d \in UNION {[1..n -> HeadingPool] : n \in 1..MaxPS} : d[1] # <<>> /\ d[1][1] = "SH"}   \* first line is a heading
\* documents that mix notations
Mixed == {
  << <<"HY","SP","a">>, <<"SH","SP","b">>, <<"HY","SP","c">> >>,
  << <<"AS","SP","b">>, <<"AS","SP","b">>, <<"TAB","HY","SP","a">>, <<"SP","SP","PL","SP","b">> >>
}
=============================================================================
