------------------------------- MODULE MC_PS --------------------------------
EXTENDS ParserShared
\* documents in ONE notation: bullet roots with 2-space or tab unit, heading roots with items below
L(s) == s
OneNotation == {
  << <<"HY","SP","a">>, <<"SP","SP","HY","SP","b">>, <<"HY","SP","c">>, <<"SP","SP","AS","SP","d">>, <<"SP","SP","SP","SP","HY","SP","e">> >>,
  << <<"HY","SP","a">>, <<"TAB","HY","SP","b">>, <<"TAB","TAB","HY","SP","c">>, <<"PL","SP","a">>, <<"TAB","HY","SP","b">> >>,
  << <<"SH","SP","a">>, <<"HY","SP","b">>, <<"SP","SP","HY","SP","c">>, <<"SH","SH","SP","d">>, <<"AS","SP","e">>, <<"HY","SP","f">> >>,
  << <<>>, <<"SH","SP","a">>, <<"HY","SP","b">>, <<"SP">>, <<"SH","SP","c">>, <<"HY","SP","d">>, <<"TAB","HY","SP","e">> >>,
  << <<"HY","SP","a">>, <<"SP","SP","HY","SP","b">>, <<"HY","SP","c">>, <<"SP","SP","SP","HY","SP","d">> >>,
  << <<"HY","SP","a">>, <<"SP","SP","HY">>, <<"HY","SP","c">>, <<"SP","SP","HY","SP","d">> >>,
  << <<"SP","SP","HY","SP","x">>, <<"HY","SP","a">> >>,
  << <<"HY","SP","a">>, <<"HY","SP","a">>, <<"SP","SP","HY","SP","b">>, <<"SP","SP","SP","SP","SP","SP","HY","SP","c">> >>
}
\* documents that mix notations
Mixed == {
  << <<"HY","SP","a">>, <<"SH","SP","b">>, <<"HY","SP","c">> >>,
  << <<"AS","SP","b">>, <<"AS","SP","b">>, <<"TAB","HY","SP","a">>, <<"SP","SP","PL","SP","b">> >>
}
=============================================================================
