------------------------------- MODULE MC_Opt -------------------------------
EXTENDS Options
Opt_All == {"json", "yaml", "toml", "dry", "exts1", "exts2", "exts0", "targetB", "targetA", "strict", "noiter",
            "massive", "mcancel", "brL1", "brL2", "brI1", "nil"}
\* quick: one option per configuration field
Opt_Quick == {"json", "toml", "dry", "exts1", "targetB", "strict", "noiter", "massive", "mcancel", "brL1", "nil"}
AllOps == {"output", "walk", "mkdir", "verify"}
\* the tree as it is now: both deviations were repaired (fix 03dabce, fix 45df1cf)
AsBuilt == {}
BeforeFix == {"RootTextIgnoresDry", "EncodeDisablesGrower"}
=============================================================================
