------------------------------- MODULE MC_C01 -------------------------------
(* C01: every well-formed document (= every ordered forest with every pattern of repeated sibling
   names) in the canonical spelling; names include a composite name with a bullet inside and a name
   with leading/trailing blanks. *)
EXTENDS MC_Doc
C01_Names == { <<"a">>, <<"b">>, <<"a", "SP", "HY", "SP", "b">>, <<"SP", "b", "SP">> }
C01_Names3 == { <<"a">>, <<"b">>, <<"SP", "a", "SP", "AS", "b">> }
\* names that are paths or path-special (for the builds' agreement, C17: joined paths that coincide, '.' and '..' below a root)
C01_NamesPath == { <<"a">>, <<"b">>, <<"a", "SL", "b">>, <<"DOT">>, <<"DOT", "DOT">> }
C01_Sigma == { [unit |-> <<"SP", "SP">>, heading |-> FALSE, crlf |-> FALSE, bullets |-> {"HY"}, blanks |-> FALSE] }
C01_Blank == { <<>> }
C01_Pool  == { <<>> }
=============================================================================
