SPECIFICATION Spec
CONSTANTS
  Mode = "wf"
  Gen = "iter"
  Dev = {}
  LastBy = "identity"
  MaxLines = 4
  MaxDepth = 4
  MaxBlank = 1
  Names <- C15_Names3
  SigmaSet <- C15_Sigma
  BlankPool <- C15_Blank3
  LinePool <- C15_Pool
INVARIANTS TypeOK SpellingInvariance RenderMatchesRule ForestMatchesTrie WalkMatchesRule AcceptsWellFormed NoSilentLoss
CHECK_DEADLOCK FALSE
