SPECIFICATION Spec
CONSTANTS
  Calls <- AllCalls
  MaxLen = 2
  Dev = {"LockLeftHeld"}
INVARIANTS CallsAreIndependent
CHECK_DEADLOCK FALSE
