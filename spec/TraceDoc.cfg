SPECIFICATION Spec
CONSTANTS
  Dev = {}
  LastBy = "index"
CHECK_DEADLOCK FALSE
