SPECIFICATION Spec
CONSTANTS
  Dev = {}
  LastBy = "identity"
CHECK_DEADLOCK FALSE
