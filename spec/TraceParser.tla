----------------------------- MODULE TraceParser -----------------------------
(***************************************************************************)
(* Impl -> Spec at the finest grain: markdown.Parser as the state machine  *)
(* MdLine.tla says it is.  A recorded trace is a sequence of events        *)
(*   [op |-> "new"]                              parser := NewParser()     *)
(*   [op |-> "parse", line, res, hier, text,     one Parse call: what it   *)
(*    sep, spaces, sharp]                        returned and the parser's *)
(*                                               learnt state afterwards   *)
(*                                               (markdown.VerifState)     *)
(* Every Parse event must be the step MdLine.Parse takes from the state    *)
(* the model is in: same result class, hierarchy, text, and the same learnt *)
(* state (sep, spaces, sharp).  After a mismatch the model continues from  *)
(* the LOGGED state, so one divergence is reported once.  A mismatch is    *)
(* Layer M (the code took a step the model does not have): SPEC-DRIFT.     *)
(***************************************************************************)
EXTENDS MdLine, TLC, Json

Trace == ndJsonDeserialize("ptrace.ndjson")

VARIABLES l, ps, bad
pvars == <<l, ps, bad>>

Logged(e) == [sep |-> e.sep, spaces |-> e.spaces, sharp |-> e.sharp]

Agrees(e, r) ==
  /\ r.res = e.res
  /\ (r.res = "ok" => r.hier = e.hier /\ r.text = e.text)
  /\ r.ps = Logged(e)

Init == l = 1 /\ ps = PS0 /\ bad = {}

Step ==
  /\ l <= Len(Trace)
  /\ LET e == Trace[l] IN
     IF e.op = "new" THEN ps' = PS0 /\ UNCHANGED bad
     ELSE LET r == Parse(e.line, ps) IN
          /\ ps' = Logged(e)
          /\ bad' = bad \cup (IF Agrees(e, r) THEN {} ELSE {<<l, "M">>})
  /\ l' = l + 1

Finish ==
  /\ l = Len(Trace) + 1
  /\ PrintT(<<"TRACE-VERDICT", Len(Trace), bad>>)
  /\ l' = l + 1
  /\ UNCHANGED <<ps, bad>>

Next == Step \/ Finish
Spec == Init /\ [][Next]_pvars
=============================================================================
