SPECIFICATION Spec
CONSTANTS
  N = 3
  W = 2
  Fates <- OkOnly
  ReaderFails <- NoReaderFail
  Entry = "md"
  Sink = "text"
  CanCancel = TRUE
  PreCancelled = TRUE
  Dev = {}
INVARIANTS TypeOK NoStuck NilMeansComplete FaultMeansErr NoSpuriousErr CancelMeansCtxErr BlockIntegrity NoDupNoGhost
CHECK_DEADLOCK FALSE
