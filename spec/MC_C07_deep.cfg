SPECIFICATION Spec
CONSTANTS
  FsNames <- DeepNames
  ExtSets <- Exts2
  InitSet <- InitPlain
  Target <- T
  Routes = {"md", "root"}
  Ops = {"mkdir"}
  MaxItems = 4
  MaxDepthFs = 4
  MaxEnv = 0
  MaxOps = 1
  EnvSuffixes <- NoSuffix
  EnvFirst = TRUE
  LongToks <- Long
  Dev = {}
INVARIANTS C06_ExactlyTheTree C07_Confined C07_NothingRemoved C07_InvalidRejected
CHECK_DEADLOCK FALSE
