SPECIFICATION Spec
CONSTANTS
  FsNames <- PlainNames
  ExtSets <- ExtsX
  InitSet <- InitPlain
  Target <- T
  Routes = {"md"}
  Ops = {"env", "mkdir", "verify"}
  MaxItems = 2
  MaxDepthFs = 3
  MaxEnv = 2
  MaxOps = 2
  EnvSuffixes <- Suffix1
  EnvFirst = FALSE
  LongToks <- Long
  Dev = {}
INVARIANTS C06_ExactlyTheTree C06_ExistsUnchanged C06_RefusalIsError C06_Succeeds C07_Confined C07_NothingRemoved C07_InvalidRejected C08_VerdictIff C08_Lists C08_ReadOnly C08_FreshMkdirVerifies C09_DryTouchesNothing C09_DryRejectsIffReal C09_DryIsReportOrInvalid C09_CountsPredictReal
CHECK_DEADLOCK FALSE
