------------------------------- MODULE MdDoc --------------------------------
(***************************************************************************)
(* root_generator.go / wasm_root_generator.go / stack.go / node_generator  *)
(* transcribed (code-shaped): lines -> nodes, open-node stack, roots.      *)
(*                                                                         *)
(* gs (generator state) =                                                  *)
(*   [ps, stack, hasStack, nodes, roots, cnt, status, errk, errline,       *)
(*    dropped, n, last]                                                    *)
(*   nodes : sequence of [name, hier, idx, parent, kids]  (id = position)  *)
(*   stack : sequence of node ids (top = last); hasStack = "stack != nil"  *)
(*   status \in {"run","err"}; errk \in {"","fmt","empty","nilstack"}      *)
(*   dropped : set of line numbers lost without an error                   *)
(*   last : label of the code branch taken by the last line (coverage,     *)
(*          replay)                                                        *)
(*                                                                         *)
(* Gen \in {"slice","iter","pipeblock"} selects the copy of the loop:      *)
(*   slice     rootGeneratorSimple.generate and the tinywasm generator     *)
(*   iter      rootGeneratorSimple.generateIter                            *)
(*   pipeblock rootGeneratorPipeline.worker (one block)                    *)
(* Dev : set of named deviations that are switched on (as-built model).    *)
(*   "DfsDrop"      a level jump empties the stack and drops the line      *)
(*   "YieldNilRoot" iter form yields (nil, nil) at EOF without a root      *)
(***************************************************************************)
EXTENDS MdLine

GS0(gen) == [ps |-> PS0, stack |-> <<>>, hasStack |-> (gen = "pipeblock"), nodes |-> <<>>,
             roots |-> <<>>, cnt |-> 0, status |-> "run", errk |-> "", errline |-> 0,
             dropped |-> {}, n |-> 0, last |-> "Init"]

\* parser state is shared by all blocks in the pipeline: a block starts from a given ps
GSWith(gen, ps) == [GS0(gen) EXCEPT !.ps = ps]

ChildByName(nodes, p, name) ==
  LET ks == nodes[p].kids IN
  IF \E i \in 1..Len(ks) : nodes[ks[i]].name = name
  THEN ks[CHOOSE i \in 1..Len(ks) : nodes[ks[i]].name = name
                                     /\ \A j \in 1..(i-1) : nodes[ks[j]].name # name]
  ELSE 0

\* stack.dfs : [stack, nodes, out \in {"attach","merge","drop"}]
RECURSIVE Dfs(_, _, _)
Dfs(stk, nodes, cur) ==
  IF stk = <<>> THEN [stack |-> <<>>, nodes |-> nodes, out |-> "drop"]
  ELSE LET p    == stk[Len(stk)]
           rest == SubSeq(stk, 1, Len(stk) - 1)
       IN IF cur.hier # nodes[p].hier + 1 THEN Dfs(rest, nodes, cur)     \* !isDirectlyUnder: continue
          ELSE LET c == ChildByName(nodes, p, cur.name) IN
               IF c # 0 THEN [stack |-> rest \o <<p, c>>, nodes |-> nodes, out |-> "merge"]
               ELSE LET id == Len(nodes) + 1
                        n1 == Append([nodes EXCEPT ![p].kids = Append(@, id)],
                                     [cur EXCEPT !.parent = p])
                    IN [stack |-> rest \o <<p, id>>, nodes |-> n1, out |-> "attach"]

GenStep(gs, raw, gen, Dev) ==
  LET l    == StripCR(raw)
      ln   == gs.n + 1
      cnt1 == gs.cnt + 1                                                  \* counter.next() per scanned line
      r    == Parse(l, gs.ps)
      g1   == [gs EXCEPT !.ps = r.ps, !.n = ln, !.cnt = cnt1]
      fail(k, lab) == [g1 EXCEPT !.status = "err", !.errk = k, !.errline = ln, !.last = lab]
  IN
  IF r.res = "blank" THEN [g1 EXCEPT !.last = "SkipBlank"]
  ELSE IF r.res = "fmt" THEN fail("fmt", "RejectFormat")
  ELSE IF r.res = "empty" THEN fail("empty", "RejectEmpty")
  ELSE LET cur == [name |-> r.text, hier |-> r.hier, idx |-> cnt1, parent |-> 0, kids |-> <<>>] IN
    IF r.hier = 1 THEN
      LET id == Len(gs.nodes) + 1 IN
      [g1 EXCEPT !.nodes = Append(@, cur),
                 !.roots = IF gen = "pipeblock" THEN <<id>> ELSE Append(@, id),  \* worker keeps one `root`
                 !.stack = IF gen = "pipeblock" THEN Append(@, id) ELSE <<id>>,  \* worker never renews its stack
                 !.hasStack = TRUE,
                 !.cnt = IF gen = "pipeblock" THEN cnt1 ELSE 0,                  \* counter.reset()
                 !.last = "NewRootLine"]
    ELSE IF ~gs.hasStack THEN fail("nilstack", "RejectNoRoot")
    ELSE LET d == Dfs(gs.stack, gs.nodes, cur) IN
      IF d.out = "drop" THEN
        IF "DfsDrop" \in Dev
        THEN [g1 EXCEPT !.stack = <<>>, !.dropped = @ \cup {ln}, !.last = "DfsDrop"]
        ELSE fail("fmt", "RejectJump")
      ELSE [g1 EXCEPT !.stack = d.stack, !.nodes = d.nodes,
                      !.last = IF d.out = "merge" THEN "DfsMerge" ELSE "DfsAttach"]

RECURSIVE GenFold(_, _, _, _)
GenFold(gs, doc, gen, Dev) ==
  IF doc = <<>> \/ gs.status # "run" THEN gs
  ELSE GenFold(GenStep(gs, Head(doc), gen, Dev), Tail(doc), gen, Dev)

GenRun(doc, gen, Dev) == GenFold(GS0(gen), doc, gen, Dev)

\* what the iterator form hands to its consumer at EOF
YieldsNilRoot(gs, gen, Dev) == gen = "iter" /\ gs.status = "run" /\ gs.roots = <<>> /\ "YieldNilRoot" \in Dev
=============================================================================
