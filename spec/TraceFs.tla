------------------------------ MODULE TraceFs -------------------------------
(***************************************************************************)
(* Impl -> Spec for the filesystem layer: random histories far beyond the  *)
(* exhaustive bounds (bigger forests, more names, deeper pre-existing      *)
(* states, several operations in a row) are executed on the real library   *)
(* in a jail; after every step the harness logs what the call returned and *)
(* a snapshot of the whole jail.  TLC replays the log against MC_Fs:       *)
(*                                                                         *)
(*   Layer P  fs, pre, res are bound to the LOGGED values (Step) and the   *)
(*            property statements of C06 - C09 - MC_Fs's X_(f), the same   *)
(*            formulas the exhaustive runs check on the model - are        *)
(*            evaluated on them (Check, with the forest computed once):    *)
(*            a failure is a fact about a real call.                       *)
(*   Layer M  the code-shaped MkdirOp / VerifyOp applied to the logged     *)
(*            pre-state must give the logged result and post-state.        *)
(*                                                                         *)
(* record: [op, items, fs, route, exts, dry, strict, path, entry,          *)
(*          k, extra, missing, counts]   (sets are JSON arrays)            *)
(***************************************************************************)
EXTENDS MC_FsC, Json

Trace == ndJsonDeserialize("ftrace.ndjson")

VARIABLES l, bad, pend
tvars == <<fvars, l, bad, pend>>

SetOf(q) == {q[i] : i \in 1..Len(q)}
FsOf(r) == [dirs |-> SetOf(r.dirs), files |-> SetOf(r.files)]

TInit == /\ items = <<>> /\ phase = "ops" /\ fs = FS0 /\ pre = FS0 /\ hist = <<>> /\ res = NoRes
         /\ l = 1 /\ bad = {} /\ pend = FALSE

\* one logged step: the variables take the logged values
Step ==
  /\ ~pend /\ l <= Len(Trace)
  /\ LET e == Trace[l] IN
     /\ CASE e.op = "reset" ->      \* a new history: the forest and the initial directory state
               /\ items' = e.items /\ fs' = FsOf(e.fs) /\ pre' = FsOf(e.fs) /\ hist' = <<>> /\ res' = NoRes
          [] e.op = "env" ->        \* the environment created an entry
               /\ fs' = FsOf(e.fs) /\ pre' = fs /\ res' = Res("env")
               /\ hist' = Append(hist, H("env", "", {}, FALSE, FALSE, e.path, e.entry))
               /\ UNCHANGED items
          [] e.op = "mkdir" ->
               /\ fs' = FsOf(e.fs) /\ pre' = fs
               /\ res' = [NoRes EXCEPT !.k = e.k, !.counts = e.counts]
               /\ hist' = Append(hist, H("mkdir", e.route, SetOf(e.exts), e.dry, FALSE, <<>>, ""))
               /\ UNCHANGED items
          [] e.op = "verify" ->
               /\ fs' = FsOf(e.fs) /\ pre' = fs
               /\ res' = [NoRes EXCEPT !.k = e.k, !.extra = SetOf(e.extra), !.missing = SetOf(e.missing)]
               /\ hist' = Append(hist, H("verify", "", {}, FALSE, e.strict, <<>>, ""))
               /\ UNCHANGED items
  /\ pend' = TRUE /\ UNCHANGED <<phase, l, bad>>

\* ... then the statements are evaluated on them
Check ==
  /\ pend
  /\ LET e == Trace[l]
         f == Trie(items)
         propsMkdir == {<<"C06_ExactlyTheTree", C06_ExactlyTheTree_(f)>>, <<"C06_ExistsUnchanged", C06_ExistsUnchanged_(f)>>,
                        <<"C06_RefusalIsError", C06_RefusalIsError_(f)>>, <<"C06_Succeeds", C06_Succeeds_(f)>>,
                        <<"C07_Confined", C07_Confined>>, <<"C07_NothingRemoved", C07_NothingRemoved>>,
                        <<"C07_InvalidRejected", C07_InvalidRejected_(f)>>,
                        <<"C09_DryTouchesNothing", C09_DryTouchesNothing>>, <<"C09_DryIsReportOrInvalid", C09_DryIsReportOrInvalid>>,
                        <<"C09_CountsDeclared", C09_CountsDeclared_(f)>>, <<"C09_RealRejectsIffDry", C09_RealRejectsIffDry_(f)>>}
         propsVerify == {<<"C08_VerdictIff", C08_VerdictIff_(f)>>, <<"C08_Lists", C08_Lists_(f)>>, <<"C08_ReadOnly", C08_ReadOnly>>}
     IN
     bad' = bad \cup
       CASE e.op = "mkdir" ->
              LET m == MkdirOp(pre, f, Last.exts, Target, Last.route, Last.dry) IN
              {<<l, "P", pr[1]>> : pr \in {q \in propsMkdir : ~q[2]}}
              \cup (IF m.res = res.k /\ m.fs = fs THEN {} ELSE {<<l, "M", m.res>>})
         [] e.op = "verify" ->
              LET v == VerifyOp(pre, f, Target, Last.strict) IN
              {<<l, "P", pr[1]>> : pr \in {q \in propsVerify : ~q[2]}}
              \cup (IF v.k = res.k /\ v.extra = res.extra /\ v.missing = res.missing THEN {} ELSE {<<l, "M", v.k>>})
         [] OTHER -> {}
  /\ pend' = FALSE /\ l' = l + 1 /\ UNCHANGED fvars

Finish ==
  /\ ~pend /\ l = Len(Trace) + 1
  /\ PrintT(<<"TRACE-VERDICT", Len(Trace), bad>>)
  /\ l' = l + 1 /\ UNCHANGED <<fvars, bad, pend>>

TNext == Step \/ Check \/ Finish
TSpec == TInit /\ [][TNext]_tvars
=============================================================================
