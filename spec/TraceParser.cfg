SPECIFICATION Spec
CHECK_DEADLOCK FALSE
