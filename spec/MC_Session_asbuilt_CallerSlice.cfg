SPECIFICATION Spec
CONSTANTS
  Calls <- AllCalls
  MaxLen = 2
  Dev = {"CallerSlice"}
INVARIANTS CallsAreIndependent
CHECK_DEADLOCK FALSE
