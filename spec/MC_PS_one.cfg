SPECIFICATION Spec
CONSTANTS
  Docs <- OneNotation
  K = 2
  MaxPS = 1
  Dev = {}
INVARIANTS SplitAgreement ParseAgreement
CHECK_DEADLOCK FALSE
