SPECIFICATION Spec
CONSTANTS
  Docs <- OneNotation
  K = 2
  Dev = {}
INVARIANTS SplitAgreement ParseAgreement
CHECK_DEADLOCK FALSE
