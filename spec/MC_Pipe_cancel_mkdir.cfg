SPECIFICATION Spec
CONSTANTS
  N = 2
  W = 2
  Fates <- GenFates
  ReaderFails <- NoReaderFail
  Entry = "md"
  Sink = "mkdir"
  CanCancel = TRUE
  PreCancelled = TRUE
  Dev = {}
INVARIANTS TypeOK NoStuck NilMeansComplete FaultMeansErr NoSpuriousErr CancelMeansCtxErr BlockIntegrity NoDupNoGhost
CHECK_DEADLOCK FALSE
