------------------------------ MODULE MC_Pipe -------------------------------
EXTENDS Pipeline
FateVals == {"ok", "genErr", "growErr", "sinkErr"}
AllFates == [1..N -> FateVals]
OkOnly == {[b \in 1..N |-> "ok"]}
GenFates == [1..N -> {"ok", "genErr"}]
GenGrowFates == [1..N -> {"ok", "genErr", "growErr"}]
NoReaderFail == {N + 1}
AnyReaderFail == 0..(N + 1)
=============================================================================
