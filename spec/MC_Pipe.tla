------------------------------ MODULE MC_Pipe -------------------------------
EXTENDS Pipeline
FateVals == {"ok", "genErr", "growErr", "sinkErr"}
AllFates == [1..N -> FateVals]
OkOnly == {[b \in 1..N |-> "ok"]}
GenFates == [1..N -> {"ok", "genErr"}]
GenGrowFates == [1..N -> {"ok", "genErr", "growErr"}]
NoReaderFail == {N + 1}
\* the reader fails after r complete blocks (the splitter sends a block when it meets the next root line or EOF,
\* so a failure instead of EOF leaves the last block unsent: r = N cannot be produced) or never (N + 1)
AnyReaderFail == (0..(N - 1)) \cup {N + 1}
=============================================================================
