SPECIFICATION Spec
CONSTANTS
  Mode = "pool"
  Gen = "iter"
  Dev = {}
  LastBy = "identity"
  MaxLines = 1
  MaxDepth = 9
  MaxBlank = 0
  MaxTok = 3
  Names <- C12_Names
  SigmaSet <- C12_Sigma
  BlankPool <- C12_Blank
  LinePool <- C12_Pool
INVARIANTS TypeOK Total BlankOnlyIsEmpty NoNilRoot RejectsMalformed AcceptsWellFormed NoSilentLoss RenderMatchesRule
CHECK_DEADLOCK FALSE
