SPECIFICATION Spec
CONSTANTS
  Invs <- AllInvs
  FollowUps <- Follow
  MaxSteps = 1
  Dev = {}
INVARIANTS TruthfulExit
CHECK_DEADLOCK FALSE
