------------------------------- MODULE MC_Api -------------------------------
EXTENDS Api
Api_Names == { <<"a">>, <<"b">> }
\* a name with '/' : fine for output and walk, invalid for the validating operations
Api_NamesSlash == { <<"a">>, <<"a", "SL", "b">>, <<"b", "SL">> }
Api_Names1 == { <<"a">> }
Api_Names3 == { <<"a">>, <<"b">>, <<"a", "SP", "b">> }
=============================================================================
