------------------------------- MODULE MC_Fs --------------------------------
(***************************************************************************)
(* Filesystem histories: a forest is built from items (every forest up to  *)
(* the bound over the name set), then a bounded history of operations runs *)
(* against an abstract filesystem: Env (the environment creates an entry), *)
(* Mkdir (route, extension list, dry-run), Verify (strict or not).         *)
(* The state carries the history, so every state is one replayable case:   *)
(* the harness materialises the initial directory, performs the same calls *)
(* on the real library in a jail, and compares the snapshot and result     *)
(* with `fs` and `res`.                                                    *)
(***************************************************************************)
EXTENDS Fs, TLC

CONSTANTS
  FsNames,      \* names (token sequences)
  ExtSets,      \* set of extension lists (each a set of token sequences)
  InitSet,      \* initial filesystems
  Target,       \* target directory (token path relative to the jail root)
  Routes,       \* subset of {"md","root"}
  Ops,          \* subset of {"env","mkdir","dry","verify"}
  MaxItems, MaxDepthFs,
  MaxEnv,       \* environment steps per history
  MaxOps,       \* library calls per history
  EnvSuffixes,  \* extra entries the environment may create beneath existing directories
  EnvFirst      \* TRUE: environment steps only before the first library call

VARIABLES items, phase, fs, pre, hist, res
fvars == <<items, phase, fs, pre, hist, res>>

F == Trie(items)

NoRes == [k |-> "none", extra |-> {}, missing |-> {}, counts |-> <<>>]
Res(k) == [NoRes EXCEPT !.k = k]

Init ==
  /\ items = <<>> /\ phase = "build"
  /\ fs \in InitSet /\ pre = fs
  /\ hist = <<>> /\ res = NoRes

Build ==
  /\ phase = "build" /\ Len(items) < MaxItems
  /\ \E d \in 1..MaxDepthFs, n \in FsNames :
       /\ d <= (IF items = <<>> THEN 1 ELSE items[Len(items)].d + 1)
       /\ items' = Append(items, [d |-> d, n |-> n])
  /\ UNCHANGED <<phase, fs, pre, hist, res>>

StartOps == phase = "build" /\ items # <<>> /\ phase' = "ops" /\ UNCHANGED <<items, fs, pre, hist, res>>

NCalls(kind) == Cardinality({i \in 1..Len(hist) : (hist[i].op = "env") = (kind = "env")})

H(op, route, exts, dry, strict, path, entry) ==
  [op |-> op, route |-> route, exts |-> exts, dry |-> dry, strict |-> strict, path |-> path, entry |-> entry]

\* the environment creates a directory or an empty file whose parent exists (inside the jail)
EnvCandidates ==
  LET nodePaths == {Join2(Target, NodePath(ForestNodes(F)[i].names)) : i \in 1..Len(ForestNodes(F))}
      bases     == {Target} \cup {p \in nodePaths \cup fs.dirs : UnderTarget(p, Target)}
  IN {p \in nodePaths : ~Outside(p)} \cup {b \o <<"SL">> \o s : b \in bases, s \in EnvSuffixes}

Env ==
  /\ phase = "ops" /\ "env" \in Ops /\ NCalls("env") < MaxEnv
  /\ (EnvFirst => \A i \in 1..Len(hist) : hist[i].op = "env")   \* the environment acts before the library calls
  /\ \E p \in EnvCandidates, kind \in {"dir", "file"} :
       /\ ~Exists(fs, p) /\ IsDir(fs, ParentOf(p)) /\ ~HasLong(p)
       /\ fs' = IF kind = "dir" THEN [fs EXCEPT !.dirs = @ \cup {p}] ELSE [fs EXCEPT !.files = @ \cup {p}]
       /\ hist' = Append(hist, H("env", "", {}, FALSE, FALSE, p, kind))
  /\ pre' = fs /\ res' = Res("env") /\ UNCHANGED <<items, phase>>

Mkdir ==
  /\ phase = "ops" /\ NCalls("lib") < MaxOps
  /\ \E route \in Routes, exts \in ExtSets, dry \in {d \in BOOLEAN : (d /\ "dry" \in Ops) \/ (~d /\ "mkdir" \in Ops)} :
       /\ (route = "root" => Len(F) = 1)                \* From-Root takes one tree
       /\ LET m == MkdirOp(fs, F, exts, Target, route, dry) IN
          /\ fs' = m.fs
          /\ res' = IF m.res = "report" THEN [Res("report") EXCEPT !.counts = DryCounts(F, exts)] ELSE Res(m.res)
       /\ hist' = Append(hist, H("mkdir", route, exts, dry, FALSE, <<>>, ""))
  /\ pre' = fs /\ UNCHANGED <<items, phase>>

Verify ==
  /\ phase = "ops" /\ "verify" \in Ops /\ NCalls("lib") < MaxOps
  /\ \E strict \in BOOLEAN :
       /\ LET v == VerifyOp(fs, F, Target, strict) IN res' = [NoRes EXCEPT !.k = v.k, !.extra = v.extra, !.missing = v.missing]
       /\ hist' = Append(hist, H("verify", "", {}, FALSE, strict, <<>>, ""))
  /\ fs' = fs /\ pre' = fs /\ UNCHANGED <<items, phase>>

Next == Build \/ StartOps \/ Env \/ Mkdir \/ Verify
Spec == Init /\ [][Next]_fvars

---------------------------------------------------------------------------
Last == hist[Len(hist)]
IsOp(op) == hist # <<>> /\ Last.op = op
New == All(fs) \ All(pre)
NewUnder == {p \in New : p # Target /\ UnderTarget(p, Target)}
TargetPrefixes == {Prefixes(Target)[i] : i \in 1..Len(Prefixes(Target))}
DistinctRoots == \A i, j \in 1..Len(F) : i # j => F[i].name # F[j].name
Kept == pre.dirs \subseteq fs.dirs /\ pre.files \subseteq fs.files /\ fs.dirs \cap fs.files = {}
NoLong == \A i \in 1..Len(items) : ~HasLong(items[i].n)

\* C06 -------------------------------------------------------------------
RootStat(i) == Stat(pre, Join2(Target, F[i].name))
C06_ExactlyTheTree ==
  (IsOp("mkdir") /\ ~Last.dry /\ AllPlain(F) /\ DistinctRoots /\ res.k = "ok") =>
     /\ \A i \in 1..Len(F) : RootStat(i) = "notexist"
     /\ NewUnder = ExpectedPaths(F, Target)
     /\ fs.files \cap NewUnder = ExpectedFiles(F, Last.exts, Target)
     /\ New \ NewUnder \subseteq TargetPrefixes
     /\ Kept
C06_ExistsUnchanged ==
  (IsOp("mkdir") /\ ~Last.dry /\ AllPlain(F) /\ \E i \in 1..Len(F) : RootStat(i) = "ok") =>
     res.k = "exists" /\ fs = pre
C06_RefusalIsError ==
  (IsOp("mkdir") /\ ~Last.dry /\ AllPlain(F) /\ DistinctRoots /\ res.k = "ok") =>
     (NoLong /\ ExpectedPaths(F, Target) \subseteq All(fs))
\* a well-formed request on a usable target succeeds
C06_Succeeds ==
  (/\ IsOp("mkdir") /\ ~Last.dry /\ AllPlain(F) /\ DistinctRoots /\ NoLong
   /\ (\A i \in 1..Len(F) : RootStat(i) = "notexist")
   /\ Stat(pre, Target) \in {"ok", "notexist"}
   /\ (\A j \in 1..Len(Prefixes(Target)) : ~IsFile(pre, Prefixes(Target)[j]))) => res.k = "ok"

\* C07 -------------------------------------------------------------------
Hostile(f) == \E i \in 1..Len(ForestNodes(f)) :
                 LET ns == ForestNodes(f)[i].names   nm == ns[Len(ns)] IN
                 IndexOf(nm, "SL") # 0 \/ nm = DD \/ (Len(ns) > 1 /\ nm = <<"DOT">>)
C07_Confined ==
  IsOp("mkdir") => \A p \in New : UnderTarget(p, Target) \/ p \in TargetPrefixes
C07_NothingRemoved == IsOp("mkdir") => Kept
C07_InvalidRejected == (IsOp("mkdir") /\ Hostile(F)) => (res.k = "invalid" /\ fs = pre)

\* C08 -------------------------------------------------------------------
Want == ExpectedPaths(F, Target)
RootDir(i) == Target \o <<"SL">> \o F[i].name
MissingOf(i) == {p \in ExpectedPaths(<<F[i]>>, Target) : ~Exists(pre, p)}
ExtraOf(i) == {p \in All(pre) : IsPrefixSeq(RootDir(i) \o <<"SL">>, p)} \ Want
Differs(i, strict) == MissingOf(i) # {} \/ (strict /\ ExtraOf(i) # {})
OsTrouble == \E i \in 1..Len(F) : Stat(pre, RootDir(i)) = "err"
C08_VerdictIff ==
  (IsOp("verify") /\ AllPlain(F) /\ DistinctRoots /\ ~OsTrouble) =>
     ((res.k = "ok") <=> (\A i \in 1..Len(F) : ~Differs(i, Last.strict)))
C08_Lists ==
  (IsOp("verify") /\ AllPlain(F) /\ DistinctRoots /\ ~OsTrouble /\ \E i \in 1..Len(F) : Differs(i, Last.strict)) =>
     LET first == CHOOSE i \in 1..Len(F) : Differs(i, Last.strict) /\ \A j \in 1..(i-1) : ~Differs(j, Last.strict) IN
     /\ res.k = "diff"
     /\ res.missing = MissingOf(first)
     /\ res.extra = (IF Last.strict THEN ExtraOf(first) ELSE {})
C08_ReadOnly == IsOp("verify") => fs = pre
C08_FreshMkdirVerifies ==
  (IsOp("verify") /\ Len(hist) = 2 /\ hist[1].op = "mkdir" /\ ~hist[1].dry /\ AllPlain(F) /\ DistinctRoots /\ NoLong
     /\ {p \in All(pre) : UnderTarget(p, Target) /\ p # Target} = Want) => res.k = "ok"

\* C09 -------------------------------------------------------------------
C09_DryTouchesNothing == (IsOp("mkdir") /\ Last.dry) => fs = pre
C09_DryRejectsIffReal ==
  (IsOp("mkdir") /\ Last.dry) =>
     LET real == MkdirOp(pre, F, Last.exts, Target, Last.route, FALSE) IN
     (res.k = "invalid") <=> (real.res = "invalid")
C09_DryIsReportOrInvalid == (IsOp("mkdir") /\ Last.dry) => res.k \in {"report", "invalid"}
\* the counts of the report are the kinds a real Mkdir creates on a fresh target
Fresh == [dirs |-> TargetPrefixes, files |-> {}]
C09_CountsPredictReal ==
  (IsOp("mkdir") /\ Last.dry /\ res.k = "report" /\ AllPlain(F) /\ DistinctRoots /\ NoLong) =>
     LET m == MkdirOp(Fresh, F, Last.exts, Target, Last.route, FALSE) IN
     /\ m.res = "ok"
     /\ \A i \in 1..Len(F) :
          LET under(S) == Cardinality({p \in S : p = RootDir(i) \/ IsPrefixSeq(RootDir(i) \o <<"SL">>, p)}) IN
          res.counts[i] = <<under(m.fs.dirs), under(m.fs.files)>>
=============================================================================
