------------------------------- MODULE MC_Fs --------------------------------
(***************************************************************************)
(* Filesystem histories: a forest is built from items (every forest up to  *)
(* the bound over the name set), then a bounded history of operations runs *)
(* against an abstract filesystem: Env (the environment creates an entry), *)
(* Mkdir (route, extension list, dry-run), Verify (strict or not).         *)
(* The state carries the history, so every state is one replayable case:   *)
(* the harness materialises the initial directory, performs the same calls *)
(* on the real library in a jail, and compares the snapshot and result     *)
(* with `fs` and `res`.                                                    *)
(***************************************************************************)
EXTENDS Fs, TLC

CONSTANTS
  FsNames,      \* names (token sequences)
  ExtSets,      \* set of extension lists (each a set of token sequences)
  InitSet,      \* initial filesystems
  Target,       \* target directory (token path relative to the jail root)
  Routes,       \* subset of {"md","root"}
  Ops,          \* subset of {"env","mkdir","dry","verify"}
  MaxItems, MaxDepthFs,
  MaxEnv,       \* environment steps per history
  MaxOps,       \* library calls per history
  EnvSuffixes,  \* extra entries the environment may create beneath existing directories
  EnvFirst      \* TRUE: environment steps only before the first library call

VARIABLES items, phase, fs, pre, hist, res
fvars == <<items, phase, fs, pre, hist, res>>

F == Trie(items)

NoRes == [k |-> "none", extra |-> {}, missing |-> {}, counts |-> <<>>]
Res(k) == [NoRes EXCEPT !.k = k]

Init ==
  /\ items = <<>> /\ phase = "build"
  /\ fs \in InitSet /\ pre = fs
  /\ hist = <<>> /\ res = NoRes

Build ==
  /\ phase = "build" /\ Len(items) < MaxItems
  /\ \E d \in 1..MaxDepthFs, n \in FsNames :
       /\ d <= (IF items = <<>> THEN 1 ELSE items[Len(items)].d + 1)
       /\ items' = Append(items, [d |-> d, n |-> n])
  /\ UNCHANGED <<phase, fs, pre, hist, res>>

StartOps == phase = "build" /\ items # <<>> /\ phase' = "ops" /\ UNCHANGED <<items, fs, pre, hist, res>>

NCalls(kind) == Cardinality({i \in 1..Len(hist) : (hist[i].op = "env") = (kind = "env")})

H(op, route, exts, dry, strict, path, entry) ==
  [op |-> op, route |-> route, exts |-> exts, dry |-> dry, strict |-> strict, path |-> path, entry |-> entry]

\* the environment creates a directory or an empty file whose parent exists (inside the jail)
EnvCandidates ==
  LET nodePaths == {Join2(Target, NodePath(ForestNodes(F)[i].names)) : i \in 1..Len(ForestNodes(F))}
      bases     == {Target} \cup {p \in nodePaths \cup fs.dirs : UnderTarget(p, Target)}
  IN {p \in nodePaths : ~Outside(p)} \cup {b \o <<"SL">> \o s : b \in bases, s \in EnvSuffixes}

Env ==
  /\ phase = "ops" /\ "env" \in Ops /\ NCalls("env") < MaxEnv
  /\ (EnvFirst => \A i \in 1..Len(hist) : hist[i].op = "env")   \* the environment acts before the library calls
  /\ \E p \in EnvCandidates, kind \in {"dir", "file"} :
       /\ ~Exists(fs, p) /\ IsDir(fs, ParentOf(p)) /\ ~HasLong(p)
       /\ fs' = IF kind = "dir" THEN [fs EXCEPT !.dirs = @ \cup {p}] ELSE [fs EXCEPT !.files = @ \cup {p}]
       /\ hist' = Append(hist, H("env", "", {}, FALSE, FALSE, p, kind))
  /\ pre' = fs /\ res' = Res("env") /\ UNCHANGED <<items, phase>>

Mkdir ==
  /\ phase = "ops" /\ NCalls("lib") < MaxOps
  /\ \E route \in Routes, exts \in ExtSets, dry \in {d \in BOOLEAN : (d /\ "dry" \in Ops) \/ (~d /\ "mkdir" \in Ops)} :
       /\ (route = "root" => Len(F) = 1)                \* From-Root takes one tree
       /\ LET m == MkdirOp(fs, F, exts, Target, route, dry) IN
          /\ fs' = m.fs
          /\ res' = IF m.res = "report" THEN [Res("report") EXCEPT !.counts = DryCounts(F, exts)] ELSE Res(m.res)
       /\ hist' = Append(hist, H("mkdir", route, exts, dry, FALSE, <<>>, ""))
  /\ pre' = fs /\ UNCHANGED <<items, phase>>

Verify ==
  /\ phase = "ops" /\ "verify" \in Ops /\ NCalls("lib") < MaxOps
  /\ \E strict \in BOOLEAN :
       /\ LET v == VerifyOp(fs, F, Target, strict) IN res' = [NoRes EXCEPT !.k = v.k, !.extra = v.extra, !.missing = v.missing]
       /\ hist' = Append(hist, H("verify", "", {}, FALSE, strict, <<>>, ""))
  /\ fs' = fs /\ pre' = fs /\ UNCHANGED <<items, phase>>

Next == Build \/ StartOps \/ Env \/ Mkdir \/ Verify
Spec == Init /\ [][Next]_fvars

---------------------------------------------------------------------------
(* The statements of C06 - C09.  Each is written over a forest value f (X_(f)) so that a trace         *)
(* specification can evaluate it with the forest computed once; the invariant X is X_(F).              *)
Last == hist[Len(hist)]
IsOp(op) == hist # <<>> /\ Last.op = op
New == All(fs) \ All(pre)
NewUnder == {p \in New : p # Target /\ UnderTarget(p, Target)}
TargetPrefixes == {Prefixes(Target)[i] : i \in 1..Len(Prefixes(Target))}
DistinctRoots_(f) == \A i, j \in 1..Len(f) : i # j => f[i].name # f[j].name
Kept == pre.dirs \subseteq fs.dirs /\ pre.files \subseteq fs.files /\ fs.dirs \cap fs.files = {}
NoLong_(f) == \A i \in 1..Len(ForestNodes(f)) : LET ns == ForestNodes(f)[i].names IN ~HasLong(ns[Len(ns)])

\* C06 -------------------------------------------------------------------
RootStat_(f, i) == Stat(pre, Join2(Target, f[i].name))
C06_ExactlyTheTree_(f) ==
  (IsOp("mkdir") /\ ~Last.dry /\ AllPlain(f) /\ DistinctRoots_(f) /\ res.k = "ok") =>
     /\ \A i \in 1..Len(f) : RootStat_(f, i) = "notexist"
     /\ NewUnder = ExpectedPaths(f, Target)
     /\ fs.files \cap NewUnder = ExpectedFiles(f, Last.exts, Target)
     /\ New \ NewUnder \subseteq TargetPrefixes
     /\ Kept
C06_ExistsUnchanged_(f) ==
  (IsOp("mkdir") /\ ~Last.dry /\ AllPlain(f) /\ \E i \in 1..Len(f) : RootStat_(f, i) = "ok") =>
     res.k = "exists" /\ fs = pre
C06_RefusalIsError_(f) ==
  (IsOp("mkdir") /\ ~Last.dry /\ AllPlain(f) /\ DistinctRoots_(f) /\ res.k = "ok") =>
     (NoLong_(f) /\ ExpectedPaths(f, Target) \subseteq All(fs))
\* a well-formed request on a usable target succeeds
C06_Succeeds_(f) ==
  (/\ IsOp("mkdir") /\ ~Last.dry /\ AllPlain(f) /\ DistinctRoots_(f) /\ NoLong_(f)
   /\ (\A i \in 1..Len(f) : RootStat_(f, i) = "notexist")
   /\ Stat(pre, Target) \in {"ok", "notexist"}
   /\ (\A j \in 1..Len(Prefixes(Target)) : ~IsFile(pre, Prefixes(Target)[j]))) => res.k = "ok"

\* C07 -------------------------------------------------------------------
Hostile(f) == \E i \in 1..Len(ForestNodes(f)) :
                 LET ns == ForestNodes(f)[i].names   nm == ns[Len(ns)] IN
                 IndexOf(nm, "SL") # 0 \/ nm = DD \/ (Len(ns) > 1 /\ nm = <<"DOT">>)
C07_Confined ==
  IsOp("mkdir") => \A p \in New : UnderTarget(p, Target) \/ p \in TargetPrefixes
C07_NothingRemoved == IsOp("mkdir") => Kept
C07_InvalidRejected_(f) == (IsOp("mkdir") /\ Hostile(f)) => (res.k = "invalid" /\ fs = pre)

\* C08 -------------------------------------------------------------------
RootDir_(f, i) == Target \o <<"SL">> \o f[i].name
MissingOf_(f, i) == {p \in ExpectedPaths(<<f[i]>>, Target) : ~Exists(pre, p)}
ExtraOf_(f, i) == {p \in All(pre) : IsPrefixSeq(RootDir_(f, i) \o <<"SL">>, p)} \ ExpectedPaths(f, Target)
Differs_(f, i, strict) == MissingOf_(f, i) # {} \/ (strict /\ ExtraOf_(f, i) # {})
OsTrouble_(f) == \E i \in 1..Len(f) : Stat(pre, RootDir_(f, i)) = "err"
C08_VerdictIff_(f) ==
  (IsOp("verify") /\ AllPlain(f) /\ DistinctRoots_(f) /\ ~OsTrouble_(f)) =>
     ((res.k = "ok") <=> (\A i \in 1..Len(f) : ~Differs_(f, i, Last.strict)))
C08_Lists_(f) ==
  (IsOp("verify") /\ AllPlain(f) /\ DistinctRoots_(f) /\ ~OsTrouble_(f) /\ \E i \in 1..Len(f) : Differs_(f, i, Last.strict)) =>
     LET first == CHOOSE i \in 1..Len(f) : Differs_(f, i, Last.strict) /\ \A j \in 1..(i-1) : ~Differs_(f, j, Last.strict) IN
     /\ res.k = "diff"
     /\ res.missing = MissingOf_(f, first)
     /\ res.extra = (IF Last.strict THEN ExtraOf_(f, first) ELSE {})
C08_ReadOnly == IsOp("verify") => fs = pre
C08_FreshMkdirVerifies_(f) ==
  (IsOp("verify") /\ Len(hist) = 2 /\ hist[1].op = "mkdir" /\ ~hist[1].dry /\ AllPlain(f) /\ DistinctRoots_(f) /\ NoLong_(f)
     /\ {p \in All(pre) : UnderTarget(p, Target) /\ p # Target} = ExpectedPaths(f, Target)) => res.k = "ok"

\* C09 -------------------------------------------------------------------
C09_DryTouchesNothing == (IsOp("mkdir") /\ Last.dry) => fs = pre
C09_DryRejectsIffReal_(f) ==
  (IsOp("mkdir") /\ Last.dry) =>
     LET real == MkdirOp(pre, f, Last.exts, Target, Last.route, FALSE) IN
     (res.k = "invalid") <=> (real.res = "invalid")
\* ... read from the other side (trace validation: res is what the REAL run returned): a real run rejects a tree
\* because of its names only if the dry run of the same call does
C09_RealRejectsIffDry_(f) ==
  (IsOp("mkdir") /\ ~Last.dry) =>
     LET dry == MkdirOp(pre, f, Last.exts, Target, Last.route, TRUE) IN
     (res.k = "invalid") <=> (dry.res = "invalid")
C09_DryIsReportOrInvalid == (IsOp("mkdir") /\ Last.dry) => res.k \in {"report", "invalid"}
\* the counts of the report are the kinds a real Mkdir creates on a fresh target
Fresh == [dirs |-> TargetPrefixes, files |-> {}]
C09_CountsPredictReal_(f) ==
  (IsOp("mkdir") /\ Last.dry /\ res.k = "report" /\ AllPlain(f) /\ DistinctRoots_(f) /\ NoLong_(f)) =>
     LET m == MkdirOp(Fresh, f, Last.exts, Target, Last.route, FALSE)
         created == m.fs IN
     /\ m.res = "ok"
     /\ \A i \in 1..Len(f) :
          LET under(S) == Cardinality({p \in S : p = RootDir_(f, i) \/ IsPrefixSeq(RootDir_(f, i) \o <<"SL">>, p)}) IN
          res.counts[i] = <<under(created.dirs), under(created.files)>>
\* ... said without the model of Mkdir: the node paths, by kind
C09_CountsDeclared_(f) ==
  (IsOp("mkdir") /\ Last.dry /\ res.k = "report" /\ AllPlain(f) /\ DistinctRoots_(f)) =>
     LET ds == ExpectedDirs(f, Last.exts, Target)
         fl == ExpectedFiles(f, Last.exts, Target) IN
     /\ Len(res.counts) = Len(f)
     /\ \A i \in 1..Len(f) :
          LET under(S) == Cardinality({p \in S : p = RootDir_(f, i) \/ IsPrefixSeq(RootDir_(f, i) \o <<"SL">>, p)}) IN
          res.counts[i] = <<under(ds), under(fl)>>

\* the invariants of the exhaustive runs
DistinctRoots == DistinctRoots_(F)
NoLong == NoLong_(F)
C06_ExactlyTheTree == C06_ExactlyTheTree_(F)
C06_ExistsUnchanged == C06_ExistsUnchanged_(F)
C06_RefusalIsError == C06_RefusalIsError_(F)
C06_Succeeds == C06_Succeeds_(F)
C07_InvalidRejected == C07_InvalidRejected_(F)
C08_VerdictIff == C08_VerdictIff_(F)
C08_Lists == C08_Lists_(F)
C08_FreshMkdirVerifies == C08_FreshMkdirVerifies_(F)
C09_DryRejectsIffReal == C09_DryRejectsIffReal_(F)
C09_CountsPredictReal == C09_CountsPredictReal_(F) /\ C09_CountsDeclared_(F)
=============================================================================
