SPECIFICATION Spec
CONSTANTS
  Invs <- AllInvs
  FollowUps <- Follow
  MaxSteps = 1
  Dev = {}
INVARIANTS TruthfulExit DecodeRoundTrip SpellingIrrelevant
CHECK_DEADLOCK FALSE
