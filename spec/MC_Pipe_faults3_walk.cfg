SPECIFICATION Spec
CONSTANTS
  N = 3
  W = 2
  Fates <- AllFates
  ReaderFails <- NoReaderFail
  Entry = "md"
  Sink = "walk"
  CanCancel = FALSE
  PreCancelled = FALSE
  Dev = {}
INVARIANTS TypeOK NoStuck NilMeansComplete FaultMeansErr NoSpuriousErr CancelMeansCtxErr BlockIntegrity NoDupNoGhost
CHECK_DEADLOCK FALSE
