--------------------------- MODULE TracePipeline ----------------------------
(***************************************************************************)
(* Impl -> Spec for massive mode: the hook events recorded from one real   *)
(* call (global sequence number taken inside the hook) are replayed        *)
(* against the actions of Pipeline.tla.                                    *)
(*                                                                         *)
(* The harness pre-processes the log without guessing: worker goroutine    *)
(* ids become indexes 1..W in order of first appearance; blocks become     *)
(* numbers in document order; the two halves of an unbuffered hand-over    *)
(* (send.post of the sender, recv.post of the receiver - exactly one pair  *)
(* per block and channel) are merged into one "xfer" event placed at the   *)
(* earlier half.  Steps nobody logs are silent actions bounded by an       *)
(* interval: a handler's receive (between its select.pre and select.post)  *)
(* and the deferred cancel() (between eg.Wait's return and main.return).   *)
(*                                                                         *)
(* Layer M: the whole trace must be explained (TRACE-ACCEPTED).            *)
(* Layer P: invariants over logged facts: LeakFree at "settled", the       *)
(* returned error class, the Pipeline invariants at every step.            *)
(***************************************************************************)
EXTENDS Pipeline, Json, Integers

Trace == ndJsonDeserialize("ptrace.ndjson")
Header == Trace[1]
TraceFates == {Header.fate}
TraceReaderFails == {Header.readerfail}

VARIABLES l, alive, logged, sentEarly
tvars == <<vars, l, alive, logged, sentEarly>>

More == l <= Len(Trace)
Ev == Trace[l]
Adv == l' = l + 1 /\ TLCSet(1, IF l + 1 > TLCGet(1) THEN l + 1 ELSE TLCGet(1))
Keep == UNCHANGED <<alive, logged, sentEarly>>

WkE == Wk(Ev.s, Ev.i)
Sender == IF Ev.s = "gen" THEN Split ELSE IF Ev.s = "grow" /\ Entry = "root" THEN Feeder
          ELSE Wk(IF Ev.s = "grow" THEN "gen" ELSE "grow", Ev.i)

TInit ==
  /\ Init
  /\ userCancel = Header.precancelled
  /\ l = 2 /\ alive = -1 /\ logged = "none" /\ sentEarly = {}
  /\ TLCSet(1, 2)

Is(e) == More /\ Ev.ev = e

\* split.send.pre(b) / split.errsend.pre / split.scan.ctx : the three outcomes of the scan loop
EScan == /\ Is("scan") /\ SplitScanCore(FALSE) /\ pc'[Split] = "send" /\ item'[Split] = Ev.b /\ Adv /\ Keep
EScanErr == /\ Is("scanerr") /\ SplitScan /\ pc'[Split] = "errsend" /\ Adv /\ Keep
EScanCtx == /\ Is("scanctx") /\ SplitScan /\ pc'[Split] = "exit" /\ ctxDone /\ Adv /\ Keep
EScanEnd == /\ Is("srcexit") /\ Entry = "md" /\ pc[Split] = "scan" /\ SplitScan /\ pc'[Split] = "exit" /\ UNCHANGED <<l, alive, logged, sentEarly>>

\* merged hand-over: sender Ev.i (0: splitter/feeder) -> worker Ev.j of stage Ev.s, block Ev.b
EXfer ==
  /\ Is("xfer")
  /\ pc[Sender] = "send" /\ item[Sender] = Ev.b
  /\ Xfer(Sender, Ev.s)
  /\ pc'[Wk(Ev.s, Ev.j)] = "work" /\ item'[Wk(Ev.s, Ev.j)] = Ev.b
  /\ Adv /\ Keep

ESendCtx == /\ Is("sendctx")
            /\ LET p == IF Ev.s = "split" THEN Split ELSE IF Ev.s = "feeder" THEN Feeder ELSE WkE IN SendCancel(p)
            /\ Adv /\ Keep
ERecvCtx    == Is("recvctx")    /\ RecvCancel(WkE) /\ Adv /\ Keep
ERecvClosed == Is("recvclosed") /\ RecvClosed(WkE) /\ Adv /\ Keep

\* X.errsend.pre / X.send.pre / sink.lock / sink.done : the outcome of the local computation
EWorkErr  == /\ Is("workerr")
             /\ \/ pc[WkE] = "errsend" /\ UNCHANGED vars                 \* (text sink: already there after the failed write)
                \/ item[WkE] = Ev.b /\ Work(WkE) /\ pc'[WkE] = "errsend"
             /\ Adv /\ Keep
EWorkSend == Is("worksend") /\ item[WkE] = Ev.b /\ Work(WkE) /\ pc'[WkE] = "send" /\ Adv /\ Keep
ELock     == Is("lock")     /\ item[WkE] = Ev.b /\ Work(WkE) /\ pc'[WkE] \in {"w1", "wfail"} /\ Adv /\ Keep
EUnlock   == Is("unlock")   /\ (WriteBoth(WkE) \/ WriteFail(WkE)) /\ Adv /\ Keep
ESinkDone == Is("sinkdone") /\ pc[WkE] = "work" /\ Work(WkE) /\ pc'[WkE] = "recv" /\ Adv /\ Keep

\* X.errsend.post : the send statement is over.  Which arm of `select { errc <- err | <-ctx.Done() }` was
\* taken is not logged: TLC infers it (buffered if there was room, given up if the context is done).
EErrSent ==
  /\ Is("errsent")
  /\ IF (Ev.s # "split" /\ WkE \in sentEarly) \/ (Ev.s = "split" /\ Split \in sentEarly)
     THEN UNCHANGED vars /\ sentEarly' = sentEarly \ {IF Ev.s = "split" THEN Split ELSE WkE}   \* already accounted for at the handler's event
     ELSE (IF Ev.s = "split" THEN SplitErrSend ELSE ErrSend(WkE)) /\ UNCHANGED sentEarly
  /\ Adv /\ UNCHANGED <<alive, logged>>

EClose   == Is("close")   /\ CloserRun(Ev.s) /\ Adv /\ Keep
ESrcExit == Is("srcexit") /\ SourceExit(IF Entry = "md" THEN Split ELSE Feeder) /\ Adv /\ Keep

EHClosed == Is("hclosed") /\ HandlerClosed(Ev.s) /\ Adv /\ Keep
EHCtx    == Is("hctx")    /\ HandlerCtx(Ev.s) /\ Adv /\ Keep
\* the handler's receive itself is not logged: it happened somewhere before this event
EHErr    == /\ Is("herr")
            /\ \/ pc[H(Ev.s)] = "done" /\ UNCHANGED vars /\ UNCHANGED sentEarly
               \/ HandlerRecv(Ev.s) /\ UNCHANGED sentEarly
               \/ Ev.s # "split" /\ \E p \in WorkersOf(Ev.s) : SendAndRecv(p) /\ sentEarly' = sentEarly \cup {p}   \* its errsend.post comes later
               \/ Ev.s = "split" /\ pc[Split] = "errsend" /\ SplitErrSend /\ pc'[H("split")] = "done" /\ sentEarly' = sentEarly \cup {Split}
            /\ Adv /\ UNCHANGED <<alive, logged>>
SilentHandlerRecv == /\ More /\ \E c \in ErrChans : HandlerRecv(c) /\ UNCHANGED <<l, alive, logged, sentEarly>>

EWaitPost == Is("waitpost") /\ MainWait /\ logged' = Ev.res /\ Adv /\ UNCHANGED <<alive, sentEarly>>
SilentCancel == More /\ MainCancel /\ UNCHANGED <<l, alive, logged, sentEarly>>
EReturn == /\ Is("return")
           /\ \/ pc[Main] = "done" /\ UNCHANGED vars
              \/ MainCancel
           /\ Adv /\ Keep
ECancel == Is("cancel") /\ EnvCancel /\ Adv /\ Keep
ESettled == Is("settled") /\ alive' = Ev.n /\ UNCHANGED <<vars, logged, sentEarly>> /\ Adv

Finish ==
  /\ l = Len(Trace) + 1
  /\ PrintT(<<"TRACE-ACCEPTED", Len(Trace)>>)
  /\ l' = l + 1 /\ UNCHANGED <<vars, alive, logged, sentEarly>>

TNext ==
  \/ EScan \/ EScanErr \/ EScanCtx \/ EScanEnd \/ EXfer \/ ESendCtx \/ ERecvCtx \/ ERecvClosed
  \/ EWorkErr \/ EWorkSend \/ ELock \/ EUnlock \/ ESinkDone \/ EErrSent
  \/ EClose \/ ESrcExit \/ EHClosed \/ EHCtx \/ EHErr \/ SilentHandlerRecv
  \/ EWaitPost \/ SilentCancel \/ EReturn \/ ECancel \/ ESettled \/ Finish

TSpec == TInit /\ [][TNext]_tvars

\* Layer P ---------------------------------------------------------------
\* after the settling period no goroutine of the call is left
LeakFree == alive \in {-1, 0}
\* ... and then the model agrees that everything has finished
SettledMeansDone == (alive = 0) => AllDone
\* what the real call returned is what the model's eg.Wait() returned
\* (which non-nil error wins when a fault and a cancellation coincide is not settled)
ResultAgrees == (logged # "none") => /\ (logged = "nil") = (result = "nil")
                                     /\ (~Faulty => logged = result)

HWM == PrintT(<<"TRACE-HWM", TLCGet(1), Len(Trace)>>)
=============================================================================
