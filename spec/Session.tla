------------------------------ MODULE Session -------------------------------
(***************************************************************************)
(* A process that uses gtree is a SESSION: a sequence of calls, each with  *)
(* its own reader, writer, option sequence and (From-Root) tree.  The      *)
(* design keeps nothing between calls: every property C01..C17 quantifies  *)
(* over every call, whatever the process did before, so the result of a    *)
(* call in a session is the result the same call gives as the first call   *)
(* of a fresh process (Alone).  (The one piece of package state the design *)
(* does have, the index counter of NewRoot/Add, is Api.tla's business.)    *)
(*                                                                         *)
(* A call c = [op, fam, opts, doc, fault]                                  *)
(*   op    \in {"output","walk","mkdir","verify"}                          *)
(*   fam   \in {"md","root"}      From-Markdown / From-Root                *)
(*   opts  a sequence of option tokens (Options.tla's alphabet, plus       *)
(*         "extsDup": an extension list with a repeated entry, handed over *)
(*         as the SAME slice by every call that uses it)                   *)
(*   doc   a document class (what is written, how it is indented)         *)
(*   fault \in {"none","w1","w2","rhalf","pre"}  the writer refuses its    *)
(*         first / second Write, the reader fails half-way, the target     *)
(*         holds the tree already                                          *)
(*                                                                         *)
(* What an implementation might keep between calls is modelled as a set of *)
(* residues; the specified design (Dev = {}) leaves none.  Each named      *)
(* deviation is a way of leaving one (all four were written by seeding     *)
(* sub-agents as "optimisations"):                                         *)
(*   "PooledBuffer"  a reusable output buffer goes back to its pool with   *)
(*                   the unwritten bytes of a failed write                 *)
(*   "SharedGrower"  one grower per branch-string tuple; mkdir/verify      *)
(*                   switch its name validation on for good                *)
(*   "PooledParser"  a generator is reused with its parser's learnt        *)
(*                   indentation unit / heading flag                       *)
(*   "CallerSlice"   the caller's extension list is sorted and compacted   *)
(*                   in place                                              *)
(*   "OptionOwnsCtx" the WithMassive option VALUE derives the pipeline's   *)
(*                   cancelable context once; a call that fails cancels it *)
(*                   for every later call given the same value             *)
(*   "LockLeftHeld"  a package-level lock taken by Mkdir is not released   *)
(*                   on the path where the file system refuses a name      *)
(*   "SharedError"   every format error is one mutable object: the error   *)
(*                   an earlier call returned changes when a later call    *)
(*                   fails (res is what the caller holds, not a copy)      *)
(* (option values and lists belong to the caller, who may hand the same    *)
(* value to call after call: the harness does - one extension slice and    *)
(* one WithMassive value per process)                                      *)
(***************************************************************************)
EXTENDS Naturals, Sequences, FiniteSets

CONSTANTS Calls, MaxLen, Dev

\* overlap: the positions p such that the calls hist[p] and hist[p+1] ran at the same time (in two goroutines)
VARIABLES hist, res, residue, overlap
svars == <<hist, res, residue, overlap>>

Has(c, tok) == \E i \in 1..Len(c.opts) : c.opts[i] = tok
IsText(c)   == c.op = "output" /\ ~Has(c, "json") /\ ~Has(c, "yaml") /\ ~Has(c, "toml") /\ ~Has(c, "dry")
IsEnc(c)    == c.op = "output" /\ (Has(c, "json") \/ Has(c, "yaml") \/ Has(c, "toml")) /\ ~Has(c, "dry")
BranchKey(c) == <<Has(c, "brL1"), Has(c, "brI1")>>
IndentOf(d) == CASE d \in {"tab", "slash"} -> "tab" [] d = "sp2" -> "sp2" [] d = "sp4" -> "sp4" [] d = "head" -> "head" [] OTHER -> "sp2"

\* the result a call gives in a fresh process: an uninterpreted term (the harness obtains it by running the call alone)
Alone(c) == <<"alone", c>>

\* what a call leaves behind, under the deviations that are switched on
Leaves(c) ==
  (IF "PooledBuffer" \in Dev /\ c.op = "output" /\ c.fault \in {"w1", "w2"} THEN {<<"buffer", IsEnc(c)>>} ELSE {})
  \cup (IF "SharedGrower" \in Dev /\ c.op \in {"mkdir", "verify"} /\ ~Has(c, "dry") THEN {<<"validating", BranchKey(c)>>} ELSE {})
  \cup (IF "PooledParser" \in Dev /\ c.fam = "md" THEN {<<"parser", IndentOf(c.doc)>>} ELSE {})
  \cup (IF "CallerSlice" \in Dev /\ Has(c, "extsDup") THEN {<<"slice">>} ELSE {})
  \cup (IF "OptionOwnsCtx" \in Dev /\ Has(c, "massive") /\ c.fault \in {"w1", "w2", "rhalf"} THEN {<<"optctx">>} ELSE {})
  \cup (IF "LockLeftHeld" \in Dev /\ c.op = "mkdir" /\ Has(c, "massive") /\ c.doc = "long" THEN {<<"lock">>} ELSE {})
  \cup (IF "SharedError" \in Dev /\ c.doc \in {"fmt1", "fmt2"} THEN {<<"errobj", c.doc>>} ELSE {})

\* does something left behind change what this call does?
Disturbs(rs, c) ==
  \/ \E r \in rs : r[1] = "buffer" /\ c.op = "output" /\ r[2] = IsEnc(c) /\ (IsEnc(c) \/ (IsText(c) /\ c.fam = "root"))
  \/ \E r \in rs : r[1] = "validating" /\ r[2] = BranchKey(c) /\ c.doc = "slash" /\ c.op \in {"output", "walk"} /\ ~Has(c, "dry")
  \/ \E r \in rs : r[1] = "parser" /\ c.fam = "md" /\ r[2] # IndentOf(c.doc)
  \/ \E r \in rs : r[1] = "slice" /\ Has(c, "extsDup")
  \/ \E r \in rs : r[1] = "optctx" /\ Has(c, "massive")
  \/ \E r \in rs : r[1] = "lock" /\ c.op = "mkdir" /\ ~Has(c, "dry")
  \/ \E r \in rs : r[1] = "errobj" /\ c.doc \in {"fmt1", "fmt2"} /\ r[2] # c.doc

Result(c, rs) == IF Disturbs(rs, c) THEN <<"disturbed", c, rs>> ELSE Alone(c)

Init == hist = <<>> /\ res = <<>> /\ residue = {} /\ overlap = {}

Call(c) ==
  /\ Len(hist) < MaxLen
  /\ hist' = Append(hist, c)
  /\ res' = Append(res, Result(c, residue))
  /\ residue' = residue \cup Leaves(c)
  /\ UNCHANGED overlap

\* two calls at the same time, in two goroutines of the process ("or concurrently in other goroutines"; "independent
\* From-Markdown calls running concurrently"): each may meet what the other leaves behind while it is still running.
\* (The bounded model lets a session START with such a pair.)
CallPair(c1, c2) ==
  /\ hist = <<>> /\ MaxLen >= 2
  /\ hist' = <<c1, c2>>
  /\ res' = <<Result(c1, residue \cup Leaves(c2)), Result(c2, residue \cup Leaves(c1))>>
  /\ residue' = residue \cup Leaves(c1) \cup Leaves(c2)
  /\ overlap' = {1}

Next == \/ \E c \in Calls : Call(c)
        \/ \E c1, c2 \in Calls : CallPair(c1, c2)
Spec == Init /\ [][Next]_svars

\* every call of every session gives the result it gives alone
CallsAreIndependent == \A i \in 1..Len(hist) : res[i] = Alone(hist[i])
\* ... because nothing is left behind
NoResidue == residue = {}
=============================================================================
