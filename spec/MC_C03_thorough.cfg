SPECIFICATION Spec
CONSTANTS
  ApiNames <- Api_Names
  MaxCalls = 7
  MaxNodes = 6
  Kinds = {"text", "walk", "tree"}
  LastBy = "identity"
  ResetIdx = TRUE
  OpsAtEnd = 2
  Interleave = FALSE
  BadArgs = TRUE
  Iters = FALSE
INVARIANTS HistoryIndependent MarkdownEquivalent NoDuplicateSiblings
CHECK_DEADLOCK FALSE
