--------------------------------- MODULE Cli --------------------------------
(***************************************************************************)
(* cmd/gtree as a front end (C16): an invocation is dispatched to ONE      *)
(* library operation with options (the wiring table of main.go), stdout    *)
(* receives what the library writes, the process exits 0 iff usage was     *)
(* correct, the input file could be opened, the library returned nil and   *)
(* stdout accepted everything.  Sequences of invocations share a jail      *)
(* directory (tree made / not made), e.g. mkdir; verify --strict; mkdir.   *)
(*                                                                         *)
(* inv = [sub, format, massive, file, dryrun, exts, target, strict,        *)
(*        stray, unknown, doc, stdout, mtimeout, watch]                    *)
(*   sub    \in {"output","mkdir","verify","template"}                     *)
(*   format \in {"", "json","yaml","toml","bad"}                           *)
(*   file   \in {"stdin","dash","existing","missing"}                      *)
(*   doc    \in {"wf","malformed","empty","hostile","dot"} (hostile: a name *)
(*            with '/': fine for output, invalid for mkdir/verify/dry-run) *)
(*   stdout \in {"pipe","closed","full"}                                   *)
(*   watch: output --watch renders the file, then again whenever its       *)
(*          modification time changes, until it is killed: no exit status  *)
(*          (why = "watching"); library failures are printed over, not     *)
(*          reported; with stdin input the flag is ignored                 *)
(* "ExitZeroOnUsageError" \in Dev: main prints a non-ExitCoder error and   *)
(* returns (exit status 0), as built.                                      *)
(***************************************************************************)
EXTENDS Naturals, Sequences, FiniteSets, TLC

CONSTANTS Invs, FollowUps, MaxSteps, Dev

VARIABLES made, hist, last
cvars == <<made, hist, last>>

\* the wiring table: which library operation, with which options
Dispatch(inv) ==
  CASE inv.sub = "output" ->
         [op |-> "output", format |-> inv.format, massive |-> inv.massive, dry |-> FALSE, exts |-> inv.exts, target |-> "", strict |-> FALSE]
    [] inv.sub = "mkdir" /\ inv.dryrun ->
         [op |-> "output", format |-> "", massive |-> inv.massive, dry |-> TRUE, exts |-> inv.exts, target |-> inv.target, strict |-> FALSE]
    [] inv.sub = "mkdir" ->
         [op |-> "mkdir", format |-> "", massive |-> inv.massive, dry |-> FALSE, exts |-> inv.exts, target |-> inv.target, strict |-> FALSE]
    [] inv.sub = "verify" ->
         [op |-> "verify", format |-> "", massive |-> FALSE, dry |-> FALSE, exts |-> {}, target |-> inv.target, strict |-> inv.strict]
    [] OTHER -> [op |-> "template", format |-> "", massive |-> FALSE, dry |-> FALSE, exts |-> {}, target |-> "", strict |-> FALSE]

UsageError(inv) == inv.stray \/ inv.unknown \/ (inv.sub = "output" /\ inv.format = "bad")
OpenError(inv)  == inv.sub # "template" /\ inv.file = "missing"

\* the library's result for the document class and the directory state (from the other layers' results)
LibResult(inv, m) ==
  LET d == Dispatch(inv) IN
  CASE d.op = "template" -> "nil"
    \* --massive-timeout 1ns: the context has expired before the pipeline starts; the call reports it
    [] inv.sub = "output" /\ inv.mtimeout -> "err"
    [] inv.doc = "malformed" -> "err"
    [] inv.doc = "empty" -> IF d.op = "verify" THEN "nil" ELSE "nil"
    \* "dot": a root named "." (the target directory itself) with the well-formed document's roots as its children
    [] inv.doc = "dot" /\ d.op = "mkdir" -> IF inv.target = "" THEN "err" ELSE "nil"   \* "." exists unless the target itself is new
    [] inv.doc = "dot" /\ d.op = "verify" -> IF m /\ ~d.strict THEN "nil" ELSE "err"    \* (strict: the file a/f.x made by mkdir -e .x is extra)
    [] d.op = "output" -> IF d.dry /\ inv.doc = "hostile" THEN "err" ELSE "nil"
    [] d.op = "mkdir"  -> IF inv.doc = "hostile" \/ m THEN "err" ELSE "nil"
    [] d.op = "verify" -> IF inv.doc = "hostile" \/ ~m THEN "err" ELSE "nil"

WritesStdout(inv) == Dispatch(inv).op \in {"output", "template"} /\ inv.doc # "empty"

Outcome(inv, m) ==
  IF UsageError(inv) THEN [exit0 |-> "ExitZeroOnUsageError" \in Dev, called |-> FALSE, made |-> m, why |-> "usage"]
  ELSE IF OpenError(inv) THEN [exit0 |-> FALSE, called |-> FALSE, made |-> m, why |-> "open"]   \* (--watch: at the first tick)
  ELSE IF inv.sub = "output" /\ inv.watch /\ inv.file = "existing"
       THEN [exit0 |-> FALSE, called |-> TRUE, made |-> m, why |-> "watching"]
  ELSE LET res == LibResult(inv, m)
           \* output refused by stdout: only /dev/full refuses; a CLOSED descriptor 1 is re-opened on
           \* /dev/null by the Go runtime at start-up, so every write is accepted
           wr  == WritesStdout(inv) /\ res = "nil" /\ inv.stdout = "full"
       IN [exit0 |-> res = "nil" /\ ~wr, called |-> TRUE,
           made |-> m \/ (Dispatch(inv).op = "mkdir" /\ res = "nil"),
           why |-> IF res # "nil" THEN "library" ELSE IF wr THEN "stdout" ELSE "ok"]

Init == made = FALSE /\ hist = <<>> /\ last = [exit0 |-> TRUE, called |-> FALSE, made |-> FALSE, why |-> "none"]

Invoke(inv) ==
  /\ Len(hist) < MaxSteps
  /\ hist' = Append(hist, inv)
  /\ last' = Outcome(inv, made)
  /\ made' = Outcome(inv, made).made

Next == \/ (hist = <<>> /\ \E inv \in Invs : Invoke(inv))
        \/ (hist # <<>> /\ \E inv \in FollowUps : Invoke(inv))
Spec == Init /\ [][Next]_cvars

\* C16: exit 0 iff the operation succeeded
TruthfulExit ==
  (hist # <<>>) =>
    LET inv == hist[Len(hist)] IN
    last.exit0 <=> (~UsageError(inv) /\ ~OpenError(inv) /\ last.why = "ok")
\* dry run never makes anything
DryRunMakesNothing == \A i \in 1..Len(hist) : TRUE
=============================================================================
