--------------------------------- MODULE Cli --------------------------------
(***************************************************************************)
(* cmd/gtree as a front end (C16): an invocation is dispatched to ONE      *)
(* library operation with options (the wiring table of main.go), stdout    *)
(* receives what the library writes, the process exits 0 iff usage was     *)
(* correct, the input file could be opened, the library returned nil and   *)
(* stdout accepted everything.  Sequences of invocations share a jail      *)
(* directory (tree made / not made), e.g. mkdir; verify --strict; mkdir.   *)
(*                                                                         *)
(* inv = [sub, format, massive, file, dryrun, exts, target, strict,        *)
(*        stray, unknown, doc, stdout, mtimeout, watch]                    *)
(*   sub    \in {"output","mkdir","verify","template"}                     *)
(*   format \in {"", "json","yaml","toml","bad"}                           *)
(*   file   \in {"stdin","dash","existing","missing"}                      *)
(*   doc    \in {"wf","malformed","empty","hostile","dot","big"} (big: well-  *)
(*            formed, more than 1 MiB, many roots; hostile: a name          *)
(*            with '/': fine for output, invalid for mkdir/verify/dry-run) *)
(*   stdout \in {"pipe","closed","full","broken"} (broken: a pipe whose     *)
(*            reader has gone: the first write fails with EPIPE / SIGPIPE)  *)
(*   watch: output --watch renders the file, then again whenever its       *)
(*          modification time changes, until it is killed: no exit status  *)
(*          (why = "watching"); library failures are printed over, not     *)
(*          reported; with stdin input the flag is ignored                 *)
(*   sp     \in {"long","short","eq"}: how the invocation is SPELLED (the    *)
(*            grammar below: command aliases, flag aliases, -x v / --x=v,   *)
(*            flag order); the meaning of an invocation does not depend on  *)
(*            it (DecodeRoundTrip), the real binary must agree              *)
(*   usage  \in {"","noarg","timeout0","timeoutbad","emptyarg"}: further    *)
(*            usage errors (emptyarg: an empty word right after the command, *)
(*            gtree mkdir "" --dry-run: a stray argument like any other)    *)
(*   file "null": stdin is /dev/null (cron, CI): the empty document          *)
(*   file "devstdin": --file /dev/stdin (opens, cannot seek): like stdin     *)
(*   file "dollar": an existing file named in$HOME.md; target "s$HOME": a     *)
(*     flag's value is a file name as it stands, no shell-like expansion     *)
(*   target "reg/sub": a path below a regular file (Stat fails, not with     *)
(*            "does not exist"): mkdir and verify fail, nothing crashes      *)
(*   desc:  template --description                                          *)
(*   sub may also be "version", "help", "none" (no argument at all: the     *)
(*          help text, exit 0) and "bogus" (an unknown subcommand)          *)
(* "ExitZeroOnUsageError" \in Dev: main prints a non-ExitCoder error and   *)
(* returns (exit status 0), as built.                                      *)
(***************************************************************************)
EXTENDS Naturals, Sequences, FiniteSets, TLC

CONSTANTS Invs, FollowUps, MaxSteps, Dev

VARIABLES made, hist, last
cvars == <<made, hist, last>>

---------------------------------------------------------------------------
(* The command-line grammar: main.go's tables of names.  An invocation is  *)
(* lexed into tokens [k, name, dashes, val, attached]; Words renders the   *)
(* tokens into the argv words handed to the real binary; Decode reads the  *)
(* tokens back through the tables (command names and aliases, flag names   *)
(* and aliases, which flags take a value) the way urfave/cli does: the     *)
(* first unknown flag or missing value ends parsing with a usage error,    *)
(* a word that is not a flag is a stray argument.                          *)

CmdNames ==                      \* canonical command |-> <<name, alias, another alias>>
  [output   |-> <<"output", "o", "out">>,
   mkdir    |-> <<"mkdir", "m", "m">>,
   verify   |-> <<"verify", "vf", "vf">>,
   template |-> <<"template", "t", "tmpl">>,
   version  |-> <<"version", "v", "v">>]
FlagAlias == ("file" :> "f") @@ ("massive" :> "m") @@ ("massive-timeout" :> "mt") @@ ("watch" :> "w")
          @@ ("dry-run" :> "d") @@ ("extension" :> "e") @@ ("description" :> "desc")
FlagsOf ==
  [output   |-> {"file", "massive", "massive-timeout", "format", "watch"},
   mkdir    |-> {"file", "dry-run", "extension", "target-dir"},
   verify   |-> {"file", "target-dir", "strict"},
   template |-> {"description"},
   version  |-> {}]
BoolFlags == {"massive", "watch", "dry-run", "strict", "description"}
Commands == DOMAIN CmdNames

SpIdx(sp) == CASE sp = "long" -> 1 [] sp = "short" -> 2 [] OTHER -> 3
AliasOf(f) == IF f \in DOMAIN FlagAlias THEN FlagAlias[f] ELSE f

CmdTok(w)  == [k |-> "cmd", name |-> w, dashes |-> 0, val |-> "", attached |-> FALSE]
ArgTok(w)  == [k |-> "arg", name |-> w, dashes |-> 0, val |-> "", attached |-> FALSE]
\* a flag as spelled: --name v | -alias v (or -name v when it has no alias) | --name=v
FlagTok(f, v, sp) ==
  CASE sp = "long"  -> [k |-> "flag", name |-> f, dashes |-> 2, val |-> v, attached |-> FALSE]
    [] sp = "short" -> [k |-> "flag", name |-> AliasOf(f), dashes |-> 1, val |-> v, attached |-> FALSE]
    [] OTHER        -> [k |-> "flag", name |-> f, dashes |-> 2, val |-> IF f \in BoolFlags THEN "true" ELSE v, attached |-> TRUE]

\* a switch: written when it is on; the "eq" spelling also writes the switches of the command that are OFF, as --name=false
Switch(f, on, inv) ==
  IF on THEN <<FlagTok(f, "", inv.sp)>>
  ELSE IF inv.sp = "eq" /\ inv.sub \in DOMAIN FlagsOf /\ f \in FlagsOf[inv.sub]
       THEN <<[k |-> "flag", name |-> f, dashes |-> 2, val |-> "false", attached |-> TRUE]>>
       ELSE <<>>

RECURSIVE RevSeq(_)
RevSeq(s) == IF s = <<>> THEN <<>> ELSE Append(RevSeq(Tail(s)), Head(s))
SeqOfSet(S) == IF S = {} THEN <<>> ELSE LET x == CHOOSE x \in S : TRUE IN <<x>>   \* (at most one extension in the models)

\* the flags of an invocation in main.go's order of declaration; the "eq" spelling writes them in reverse
FlagToks(inv) ==
  LET sp == inv.sp
      fs == (IF inv.sub = "output" /\ inv.format # "" THEN <<FlagTok("format", inv.format, sp)>> ELSE <<>>)
         \o Switch("massive", inv.massive, inv)
         \o (IF inv.mtimeout THEN <<FlagTok("massive-timeout", "1ns", sp)>> ELSE <<>>)
         \o (IF inv.usage = "timeout0" THEN <<FlagTok("massive-timeout", "0s", sp)>> ELSE <<>>)
         \o (IF inv.usage = "timeoutbad" THEN <<FlagTok("massive-timeout", "soon", sp)>> ELSE <<>>)
         \o Switch("watch", inv.watch, inv)
         \o (CASE inv.file = "dash" -> <<FlagTok("file", "-", sp)>>
               [] inv.file = "existing" -> <<FlagTok("file", "in.md", sp)>>
               [] inv.file = "missing" -> <<FlagTok("file", "nope.md", sp)>>
               [] inv.file = "devstdin" -> <<FlagTok("file", "/dev/stdin", sp)>>
               [] inv.file = "dollar" -> <<FlagTok("file", "in$HOME.md", sp)>>
               [] OTHER -> <<>>)
         \o Switch("dry-run", inv.dryrun, inv)
         \o [i \in 1..Len(SeqOfSet(inv.exts)) |-> FlagTok("extension", SeqOfSet(inv.exts)[i], sp)]
         \o (IF inv.target # "" THEN <<FlagTok("target-dir", inv.target, sp)>> ELSE <<>>)
         \o Switch("strict", inv.strict, inv)
         \o Switch("description", inv.desc, inv)
  IN IF sp = "eq" THEN RevSeq(fs) ELSE fs

Lexed(inv) ==
  CASE inv.sub = "none"  -> <<>>
    [] inv.sub = "help"  -> IF inv.sp = "eq" THEN <<CmdTok("help")>>
                            ELSE <<[k |-> "flag", name |-> IF inv.sp = "long" THEN "help" ELSE "h", dashes |-> IF inv.sp = "long" THEN 2 ELSE 1,
                                    val |-> "", attached |-> FALSE]>>
    [] inv.sub = "bogus" -> <<CmdTok("frobnicate")>>
    [] OTHER ->
         <<CmdTok(CmdNames[inv.sub][SpIdx(inv.sp)])>>
         \o (IF inv.usage = "emptyarg" THEN <<ArgTok("")>> ELSE <<>>)
         \o (IF inv.unknown /\ inv.sp # "eq" THEN <<[k |-> "flag", name |-> "nosuchflag", dashes |-> 2, val |-> "", attached |-> FALSE]>> ELSE <<>>)
         \o FlagToks(inv)
         \o (IF inv.unknown /\ inv.sp = "eq" THEN <<[k |-> "flag", name |-> "nosuchflag", dashes |-> 2, val |-> "", attached |-> FALSE]>> ELSE <<>>)
         \* a value flag as the last word: "flag needs an argument"
         \o (IF inv.usage = "noarg" THEN <<[k |-> "flag", name |-> IF inv.sp = "short" THEN "f" ELSE "file", dashes |-> IF inv.sp = "short" THEN 1 ELSE 2,
                                            val |-> "", attached |-> FALSE]>> ELSE <<>>)
         \o (IF inv.stray THEN <<ArgTok("extra")>> ELSE <<>>)

\* the argv words of a token
WordsOf(t) ==
  IF t.k # "flag" THEN <<t.name>>
  ELSE LET pre == (IF t.dashes = 1 THEN "-" ELSE "--") \o t.name IN
       IF t.attached THEN <<pre \o "=" \o t.val>>
       ELSE IF t.val = "" THEN <<pre>> ELSE <<pre, t.val>>
RECURSIVE Words(_)
Words(ts) == IF ts = <<>> THEN <<>> ELSE WordsOf(Head(ts)) \o Words(Tail(ts))
Argv(inv) == Words(Lexed(inv))

\* reading the tokens back through the tables
CanonCmd(w) == IF \E c \in Commands : \E i \in 1..3 : CmdNames[c][i] = w
               THEN CHOOSE c \in Commands : \E i \in 1..3 : CmdNames[c][i] = w ELSE "bogus"
CanonFlag(c, w) == IF \E f \in FlagsOf[c] : w \in {f, AliasOf(f)}
                   THEN CHOOSE f \in FlagsOf[c] : w \in {f, AliasOf(f)} ELSE "?"
RECURSIVE DecodeFlags(_, _, _)
DecodeFlags(c, ts, acc) ==
  IF ts = <<>> THEN acc
  ELSE LET t == Head(ts) IN
    IF t.k # "flag" THEN [acc EXCEPT !.stray = TRUE]      \* the first word that is not a flag ends flag parsing: the rest are arguments
    ELSE LET f == CanonFlag(c, t.name) IN
      IF f = "?" THEN [acc EXCEPT !.unknown = TRUE]
      ELSE IF f \notin BoolFlags /\ t.val = "" THEN [acc EXCEPT !.noarg = TRUE]
      ELSE IF f \in BoolFlags /\ t.attached /\ t.val = "false" THEN DecodeFlags(c, Tail(ts), acc)   \* --switch=false: the switch stays off
      ELSE DecodeFlags(c, Tail(ts), [acc EXCEPT !.set = @ \cup {<<f, IF f \in BoolFlags THEN "true" ELSE t.val>>}])
Acc0(c) == [sub |-> c, set |-> {}, stray |-> FALSE, unknown |-> FALSE, noarg |-> FALSE]
Decode(ts) ==
  IF ts = <<>> THEN Acc0("none")
  ELSE IF Head(ts).k = "flag" THEN (IF Head(ts).name \in {"help", "h"} THEN Acc0("help") ELSE [Acc0("none") EXCEPT !.unknown = TRUE])
  ELSE IF Head(ts).name = "help" THEN Acc0("help")
  ELSE LET c == CanonCmd(Head(ts).name) IN
       IF c = "bogus" THEN Acc0("bogus") ELSE DecodeFlags(c, Tail(ts), Acc0(c))

\* what an invocation MEANS, spelled out directly (independent of sp): parsing stops at the first usage error,
\* so the flags recorded are those written before it
Meaning(inv) ==
  LET all == {<<"format", inv.format>> : x \in {1} \cap (IF inv.sub = "output" /\ inv.format # "" THEN {1} ELSE {})}
             \cup {<<"massive", "true">> : x \in IF inv.massive THEN {1} ELSE {}}
             \cup {<<"massive-timeout", "1ns">> : x \in IF inv.mtimeout THEN {1} ELSE {}}
             \cup {<<"massive-timeout", "0s">> : x \in IF inv.usage = "timeout0" THEN {1} ELSE {}}
             \cup {<<"massive-timeout", "soon">> : x \in IF inv.usage = "timeoutbad" THEN {1} ELSE {}}
             \cup {<<"watch", "true">> : x \in IF inv.watch THEN {1} ELSE {}}
             \cup {<<"file", CASE inv.file = "dash" -> "-" [] inv.file = "existing" -> "in.md" [] inv.file = "devstdin" -> "/dev/stdin" [] inv.file = "dollar" -> "in$HOME.md" [] OTHER -> "nope.md">> : x \in IF inv.file \notin {"stdin", "null"} THEN {1} ELSE {}}
             \cup {<<"dry-run", "true">> : x \in IF inv.dryrun THEN {1} ELSE {}}
             \cup {<<"extension", e>> : e \in inv.exts}
             \cup {<<"target-dir", inv.target>> : x \in IF inv.target # "" THEN {1} ELSE {}}
             \cup {<<"strict", "true">> : x \in IF inv.strict THEN {1} ELSE {}}
             \cup {<<"description", "true">> : x \in IF inv.desc THEN {1} ELSE {}}
  IN IF inv.sub \in {"none", "help", "bogus"} THEN Acc0(inv.sub)
     ELSE [sub |-> inv.sub,
           \* an unknown flag written first ("long"/"short") hides every later flag; written last ("eq") it hides none
           set |-> IF (inv.unknown /\ inv.sp # "eq") \/ inv.usage = "emptyarg" THEN {} ELSE all,
           stray |-> inv.usage = "emptyarg" \/ (inv.stray /\ ~inv.unknown /\ inv.usage # "noarg"),
           unknown |-> inv.unknown /\ inv.usage # "emptyarg",
           noarg |-> inv.usage = "noarg" /\ ~inv.unknown]

---------------------------------------------------------------------------
\* the wiring table: which library operation, with which options
Dispatch(inv) ==
  CASE inv.sub = "output" ->
         [op |-> "output", format |-> inv.format, massive |-> inv.massive, dry |-> FALSE, exts |-> inv.exts, target |-> "", strict |-> FALSE]
    [] inv.sub = "mkdir" /\ inv.dryrun ->
         [op |-> "output", format |-> "", massive |-> inv.massive, dry |-> TRUE, exts |-> inv.exts, target |-> inv.target, strict |-> FALSE]
    [] inv.sub = "mkdir" ->
         [op |-> "mkdir", format |-> "", massive |-> inv.massive, dry |-> FALSE, exts |-> inv.exts, target |-> inv.target, strict |-> FALSE]
    [] inv.sub = "verify" ->
         [op |-> "verify", format |-> "", massive |-> FALSE, dry |-> FALSE, exts |-> {}, target |-> inv.target, strict |-> inv.strict]
    [] inv.sub = "template" ->
         [op |-> "template", format |-> "", massive |-> FALSE, dry |-> FALSE, exts |-> {}, target |-> "", strict |-> FALSE]
    \* version, --help, no argument at all: something is printed, the library is not involved
    [] OTHER -> [op |-> "info", format |-> "", massive |-> FALSE, dry |-> FALSE, exts |-> {}, target |-> "", strict |-> FALSE]

\* usage errors are decided on what the command line DECODES to (the grammar above)
UsageError(inv) ==
  LET d == Decode(Lexed(inv)) IN
  \/ d.stray \/ d.unknown \/ d.noarg \/ d.sub = "bogus"
  \/ (d.sub = "output" /\ <<"format", "bad">> \in d.set)
  \/ (d.sub = "output" /\ \E v \in {"0s", "soon"} : <<"massive-timeout", v>> \in d.set)
OpenError(inv)  == inv.sub \in {"output", "mkdir", "verify"} /\ inv.file = "missing"

\* the library's result for the document class and the directory state (from the other layers' results)
LibResult(inv, m) ==
  LET d == Dispatch(inv) IN
  CASE d.op \in {"template", "info"} -> "nil"
    \* --massive-timeout 1ns: the context has expired before the pipeline starts; the call reports it
    [] inv.sub = "output" /\ inv.mtimeout -> "err"
    [] inv.doc = "malformed" -> "err"
    \* a target below a regular file: Mkdir cannot make it, Verify cannot read it (dry run and output never look at it)
    [] inv.target = "reg/sub" /\ d.op \in {"mkdir", "verify"} /\ inv.doc # "empty" -> "err"
    \* "many": one root with 255 children, never made: the verification lists 256 paths
    [] inv.doc = "many" /\ d.op = "verify" -> "err"
    [] inv.doc = "empty" -> IF d.op = "verify" THEN "nil" ELSE "nil"
    \* "dot": a root named "." (the target directory itself) with the well-formed document's roots as its children
    [] inv.doc = "dot" /\ d.op = "mkdir" -> IF inv.target = "" THEN "err" ELSE "nil"   \* "." exists unless the target itself is new
    [] inv.doc = "dot" /\ d.op = "verify" -> IF m /\ ~d.strict THEN "nil" ELSE "err"    \* (strict: the file a/f.x made by mkdir -e .x is extra)
    [] d.op = "output" -> IF d.dry /\ inv.doc = "hostile" THEN "err" ELSE "nil"
    [] d.op = "mkdir"  -> IF inv.doc = "hostile" \/ m THEN "err" ELSE "nil"
    [] d.op = "verify" -> IF inv.doc = "hostile" \/ ~m THEN "err" ELSE "nil"

WritesStdout(inv) == Dispatch(inv).op \in {"output", "template"} /\ inv.doc # "empty"

Outcome(inv, m) ==
  IF UsageError(inv) THEN [exit0 |-> "ExitZeroOnUsageError" \in Dev, called |-> FALSE, made |-> m, why |-> "usage"]
  ELSE IF OpenError(inv) THEN [exit0 |-> FALSE, called |-> FALSE, made |-> m, why |-> "open"]   \* (--watch: at the first tick)
  ELSE IF inv.sub = "output" /\ inv.watch /\ inv.file = "existing"
       THEN [exit0 |-> FALSE, called |-> TRUE, made |-> m, why |-> "watching"]
  ELSE LET res == LibResult(inv, m)
           \* output refused by stdout: only /dev/full refuses; a CLOSED descriptor 1 is re-opened on
           \* /dev/null by the Go runtime at start-up, so every write is accepted
           wr  == WritesStdout(inv) /\ res = "nil" /\ inv.stdout \in {"full", "broken"}
       IN [exit0 |-> res = "nil" /\ ~wr, called |-> Dispatch(inv).op # "info",
           made |-> m \/ (Dispatch(inv).op = "mkdir" /\ res = "nil"),
           why |-> IF res # "nil" THEN "library" ELSE IF wr THEN "stdout" ELSE "ok"]

Init == made = FALSE /\ hist = <<>> /\ last = [exit0 |-> TRUE, called |-> FALSE, made |-> FALSE, why |-> "none"]

Invoke(inv) ==
  /\ Len(hist) < MaxSteps
  /\ hist' = Append(hist, inv)
  /\ last' = Outcome(inv, made)
  /\ made' = Outcome(inv, made).made

Next == \/ (hist = <<>> /\ \E inv \in Invs : Invoke(inv))
        \/ (hist # <<>> /\ \E inv \in FollowUps : Invoke(inv))
Spec == Init /\ [][Next]_cvars

\* C16: exit 0 iff the operation succeeded
TruthfulExit ==
  (hist # <<>>) =>
    LET inv == hist[Len(hist)] IN
    last.exit0 <=> (~UsageError(inv) /\ ~OpenError(inv) /\ last.why = "ok")
\* the grammar is consistent: every spelling of an invocation decodes to what the invocation means
DecodeRoundTrip == \A i \in 1..Len(hist) : Decode(Lexed(hist[i])) = Meaning(hist[i])
\* ... and the spelling is irrelevant: invocations that differ only in spelling have the same outcome
SpellingIrrelevant ==
  (hist # <<>>) =>
    LET inv == hist[Len(hist)] IN
    \A sp \in {"long", "short", "eq"} : Outcome([inv EXCEPT !.sp = sp, !.argv = <<>>], FALSE).exit0 = Outcome([inv EXCEPT !.argv = <<>>], FALSE).exit0
=============================================================================
