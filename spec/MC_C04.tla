------------------------------- MODULE MC_C04 -------------------------------
(* C04: the structure handed to the encoders (positional copy of the node store, one value per root)
   is the declarative forest, for every forest up to the bound; names include a trailing blank, a
   leading '#', and a name that looks like a list item.  Quoting fidelity is observed on the real
   encoders under hostile chunk concretisations (harness). *)
EXTENDS MC_Doc
C04_Names == { <<"a">>, <<"b", "SP">>, <<"SH", "a">>, <<"HY", "SP", "b">> }
C04_Sigma == { [unit |-> <<"SP">>, heading |-> FALSE, crlf |-> FALSE, bullets |-> {"PL"}, blanks |-> FALSE] }
C04_Blank == { <<>> }
C04_Pool  == { <<>> }
=============================================================================
