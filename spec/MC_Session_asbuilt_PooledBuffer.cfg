SPECIFICATION Spec
CONSTANTS
  Calls <- AllCalls
  MaxLen = 2
  Dev = {"PooledBuffer"}
INVARIANTS CallsAreIndependent
CHECK_DEADLOCK FALSE
