SPECIFICATION FairSpec
CONSTANTS
  N = 2
  W = 2
  Fates <- AllFates
  ReaderFails <- NoReaderFail
  Entry = "md"
  Sink = "text"
  CanCancel = FALSE
  PreCancelled = FALSE
  Dev = {}
PROPERTIES Termination NoLeak
CHECK_DEADLOCK FALSE
