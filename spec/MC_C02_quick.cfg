SPECIFICATION Spec
CONSTANTS
  Mode = "pool"
  Gen = "iter"
  Dev = {}
  LastBy = "identity"
  MaxLines = 4
  MaxDepth = 9
  MaxBlank = 0
  Names <- C02_Names
  SigmaSet <- C02_Sigma
  BlankPool <- C02_Blank
  LinePool <- C02_Pool
INVARIANTS TypeOK RejectsMalformed AcceptsWellFormed NoSilentLoss RenderMatchesRule ForestMatchesTrie NoNilRoot
CHECK_DEADLOCK FALSE
