SPECIFICATION Spec
CONSTANTS
  Docs <- OneNotation
  K = 2
  Dev = {"SplitAtAnySymbol"}
INVARIANTS SplitAgreement ParseAgreement
CHECK_DEADLOCK FALSE
