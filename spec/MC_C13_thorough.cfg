SPECIFICATION Spec
CONSTANTS
  ApiNames <- Api_Names
  MaxCalls = 7
  MaxNodes = 5
  Kinds = {"text", "walk"}
  LastBy = "identity"
  ResetIdx = TRUE
  OpsAtEnd = 2
  Interleave = TRUE
  BadArgs = FALSE
  Iters = FALSE
INVARIANTS HistoryIndependent MarkdownEquivalent NoDuplicateSiblings
CHECK_DEADLOCK FALSE
