------------------------------- MODULE MC_C15 -------------------------------
(* C15: the same items spelled in every notation of the family, one dimension varied at a time:
   indentation unit (tab, 1..4 spaces, two tabs), bullet symbol per line, roots as # headings, CRLF,
   blank / white-space-only lines at any position.  SpellingInvariance + ForestMatchesTrie say that
   every spelling reads back to the same items/forest, hence (all outputs being functions of the
   forest) to the same results; the harness replays every spelled document and compares bytes. *)
EXTENDS MC_Doc
C15_Names3 == { <<"a">>, <<"a", "SP", "HY", "SP", "b">>, <<"b", "SH">> }
C15_Names == { <<"a">>, <<"a", "SP", "PL", "b">>, <<"a", "SP", "HY", "SP", "b">>, <<"b", "SH">> }
Base == [unit |-> <<"SP", "SP">>, heading |-> FALSE, crlf |-> FALSE, bullets |-> {"HY"}, blanks |-> FALSE]
C15_Sigma == {
  Base,
  [Base EXCEPT !.unit = <<"TAB">>],
  [Base EXCEPT !.unit = <<"SP">>],
  [Base EXCEPT !.unit = <<"SP", "SP", "SP">>],
  [Base EXCEPT !.unit = <<"SP", "SP", "SP", "SP">>],
  [Base EXCEPT !.unit = <<"TAB", "TAB">>],
  [Base EXCEPT !.bullets = {"HY", "AS", "PL"}],
  [Base EXCEPT !.heading = TRUE],
  [Base EXCEPT !.heading = TRUE, !.unit = <<"TAB">>, !.bullets = {"AS"}],
  [Base EXCEPT !.crlf = TRUE],
  [Base EXCEPT !.crlf = TRUE, !.unit = <<"TAB">>, !.bullets = {"PL"}],
  [Base EXCEPT !.blanks = TRUE],
  [Base EXCEPT !.blanks = TRUE, !.heading = TRUE, !.crlf = TRUE]
}
C15_Blank == { <<>>, <<"SP", "TAB">>, <<"CR">>, <<"SP">>, <<"SP", "SP", "SP">> }
C15_Blank3 == { <<>>, <<"SP", "TAB">>, <<"SP", "SP", "SP">> }
C15_Pool  == { <<>> }
=============================================================================
