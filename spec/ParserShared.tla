---------------------------- MODULE ParserShared ----------------------------
(***************************************************************************)
(* The generator stage of massive mode, one level finer than Pipeline.tla: *)
(*   - Split(doc): input_spliter.go transcribed (a new block at every line *)
(*     whose first byte is # - * +; once a # line has been seen only at #  *)
(*     lines: the repaired splitter, "SplitAtAnySymbol" \in Dev = as built)*)
(*   - K workers take the blocks in any order and parse them line by line  *)
(*     with ONE parser state `ps` shared by all of them (Parse runs under  *)
(*     the parser's mutex, so a line is one atomic step).                  *)
(* Property ParseAgreement: whatever the interleaving, every block is      *)
(* accepted/rejected - and yields the same forest - as the same lines do   *)
(* in the sequential generator (MdDoc, Gen = "slice") on the whole         *)
(* document.  It holds for documents in ONE notation and fails for         *)
(* documents that mix notations (bullet roots before a # root; tab and     *)
(* space indentation inside one root block): the learnt parser state       *)
(* (sharp flag, separator) then depends on the parse order.                *)
(***************************************************************************)
EXTENDS MdDoc, Render, Forest, TLC

CONSTANTS Docs, K, Dev

IsSym(t) == t \in {"SH", "HY", "AS", "PL"}

\* split(): blocks as sequences of line numbers
RECURSIVE SplitFold(_, _, _, _, _)
SplitFold(doc, i, cur, blocks, sharp) ==
  IF i > Len(doc) THEN Append(blocks, cur)                              \* the last block is always sent
  ELSE LET l      == doc[i]
           sharp1 == sharp \/ (l # <<>> /\ l[1] = "SH")
           begins == l # <<>> /\ IsSym(l[1]) /\ ("SplitAtAnySymbol" \in Dev \/ ~sharp1 \/ l[1] = "SH")
       IN IF begins
          THEN SplitFold(doc, i + 1, <<i>>, IF cur # <<>> THEN Append(blocks, cur) ELSE blocks, sharp1)
          ELSE SplitFold(doc, i + 1, Append(cur, i), blocks, sharp1)
Split(doc) == SplitFold(doc, 1, <<>>, <<>>, FALSE)

VARIABLES doc, blocks, ps, taken, wblock, wpos, wgs, results
pvars == <<doc, blocks, ps, taken, wblock, wpos, wgs, results>>

Workers == 1..K

Init ==
  /\ doc \in Docs
  /\ blocks = Split(doc)
  /\ ps = PS0
  /\ taken = {}
  /\ wblock = [w \in Workers |-> 0]
  /\ wpos = [w \in Workers |-> 0]
  /\ wgs = [w \in Workers |-> GS0("pipeblock")]
  /\ results = [b \in 1..Len(Split(doc)) |-> [status |-> "none"]]

\* a worker receives a block
Take(w) ==
  /\ wblock[w] = 0
  /\ \E b \in 1..Len(blocks) \ taken :
       /\ taken' = taken \cup {b}
       /\ wblock' = [wblock EXCEPT ![w] = b]
       /\ wpos' = [wpos EXCEPT ![w] = 1]
       /\ wgs' = [wgs EXCEPT ![w] = GS0("pipeblock")]
  /\ UNCHANGED <<doc, blocks, ps, results>>

\* ... and parses its next line with the shared parser state (one atomic step: Parse holds the mutex)
ParseLine(w) ==
  /\ wblock[w] # 0
  /\ LET b  == wblock[w]
         ln == blocks[b][wpos[w]]
         g  == GenStep([wgs[w] EXCEPT !.ps = ps], doc[ln], "pipeblock", {})
         fin == g.status = "err" \/ wpos[w] = Len(blocks[b])
     IN /\ ps' = g.ps
        /\ IF fin
           THEN /\ results' = [results EXCEPT ![b] =
                      IF g.status = "err" THEN [status |-> "err", line |-> ln]
                      ELSE [status |-> "ok", forest |-> ForestOf(g.nodes, g.roots)]]
                /\ wblock' = [wblock EXCEPT ![w] = 0]
                /\ UNCHANGED <<wpos, wgs>>
           ELSE /\ wgs' = [wgs EXCEPT ![w] = g]
                /\ wpos' = [wpos EXCEPT ![w] = @ + 1]
                /\ UNCHANGED <<results, wblock>>
  /\ UNCHANGED <<doc, blocks, taken>>

Next == \E w \in Workers : Take(w) \/ ParseLine(w)
Spec == Init /\ [][Next]_pvars

---------------------------------------------------------------------------
Finished == taken = 1..Len(blocks) /\ \A w \in Workers : wblock[w] = 0

\* the sequential generator on the whole document
SeqRun == GenRun(doc, "slice", {})

\* the blocks are the root blocks of the sequential reading: every block starts with a line the
\* sequential parser reads as a root (or is a leading block without any root line)
LineIsSeqRoot(i) ==
  LET g == GenRun(SubSeq(doc, 1, i), "slice", {}) IN g.status = "run" /\ g.last = "NewRootLine"
SplitAgreement ==
  (SeqRun.status = "run") =>
     \A b \in 1..Len(blocks) : blocks[b] = <<>> \/ LineIsSeqRoot(blocks[b][1]) \/ b = 1

\* same verdict and same forest (as a multiset of root trees) for every interleaving
RootMultiset(f) == [t \in {f[i] : i \in 1..Len(f)} |-> Cardinality({i \in 1..Len(f) : f[i] = t})]
ParForest == LET oks == {b \in 1..Len(blocks) : results[b].status = "ok"} IN
             \* concatenate in block order
             LET RECURSIVE Cat(_)
                 Cat(b) == IF b > Len(blocks) THEN <<>>
                           ELSE (IF b \in oks THEN results[b].forest ELSE <<>>) \o Cat(b + 1)
             IN Cat(1)
ParseAgreement ==
  Finished =>
    /\ (SeqRun.status = "err") <=> (\E b \in 1..Len(blocks) : results[b].status = "err")
    /\ (SeqRun.status = "run") => RootMultiset(ParForest) = RootMultiset(ForestOf(SeqRun.nodes, SeqRun.roots))
=============================================================================
