SPECIFICATION Spec
CONSTANTS
  N = 3
  W = 2
  Fates <- GenGrowFates
  ReaderFails <- NoReaderFail
  Entry = "md"
  Sink = "text"
  CanCancel = FALSE
  PreCancelled = FALSE
  Dev = {"ErrSendBlocks", "FeederBlocks", "NilOnCancel"}
INVARIANTS TypeOK NoStuck NilMeansComplete FaultMeansErr NoSpuriousErr CancelMeansCtxErr BlockIntegrity NoDupNoGhost
CHECK_DEADLOCK FALSE
