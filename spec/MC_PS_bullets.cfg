SPECIFICATION Spec
CONSTANTS
  Docs <- BulletDocs
  K = 2
  MaxPS = 4
  Dev = {}
INVARIANTS SplitAgreement ParseAgreement
CHECK_DEADLOCK FALSE
