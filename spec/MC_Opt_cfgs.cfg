SPECIFICATION Spec
CONSTANTS
  Mode = "cfg"
  OptToks <- Opt_All
  MaxOpts = 0
  MinOpts = 0
  Ops <- AllOps
  Dev <- AsBuilt
INVARIANTS CfgSpaceClosed EffAgreeEverywhere CanonSeqIsRight FamiliesAgree OptionsMeanWhatTheySay
CHECK_DEADLOCK FALSE
