------------------------------- MODULE MC_C02 -------------------------------
(* C02: every sequence of lines over a pool that holds well-formed items (two units, three bullets, a
   heading) and one representative of every malformation class of the statement, i.e. every injection
   position of every class into every small document. *)
EXTENDS MC_Doc
C02_Pool == {
  <<"HY", "SP", "a">>,                                 \* root
  <<"AS", "SP", "b">>,                                 \* root, other bullet
  <<"PL", "b">>,                                       \* root written without a blank after the bullet ("+b")
  <<"SP", "SP", "HY", "SP", "HY", "HY">>,              \* depth 2, a name made of the bullet's own symbol ("- --")
  <<"SP", "SP", "HY", "SP", "a">>,                     \* depth 2 (unit = 2 spaces)
  <<"SP", "SP", "PL", "SP", "b">>,                     \* depth 2, other bullet
  <<"SP", "SP", "SP", "SP", "HY", "SP", "a">>,         \* depth 3
  <<"SP", "SP", "SP", "SP", "SP", "SP", "HY", "SP", "b">>,  \* depth 4 (a jump after depth 2)
  <<"TAB", "HY", "SP", "a">>,                          \* depth 2 with a tab unit
  <<>>,                                                \* blank
  <<"SP", "TAB">>,                                     \* white space only
  <<"a">>,                                             \* no bullet
  <<"SP", "SP", "a", "SP", "HY", "SP", "b">>,          \* no bullet after the indentation
  <<"HY">>,                                            \* empty item text
  <<"SP", "SP", "HY", "SP">>,                          \* empty item text, indented
  <<"SP", "SP", "SP", "HY", "SP", "a">>,               \* 3 spaces: not a multiple of the unit 2
  <<"SP", "TAB", "HY", "SP", "a">>,                    \* mixes tabs and spaces
  <<"SH", "SP", "a">>,                                 \* heading root
  <<"SP", "SP", "SH", "a">>,                           \* an indented '#': not a heading, and no bullet after the indentation
  <<"SH", "SH", "SP">>,                                \* heading with empty text
  <<"WS", "HY", "SP", "a">>                            \* indented with another Unicode white space (grey: no verdict; the builds must still agree)
}
C02_Names == { <<"a">> }
C02_Sigma == { [unit |-> <<>>, heading |-> FALSE, crlf |-> FALSE, bullets |-> {}, blanks |-> FALSE] }
C02_Blank == { <<>> }
=============================================================================
