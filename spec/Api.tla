-------------------------------- MODULE Api ---------------------------------
(***************************************************************************)
(* tree_handler_programmably.go as a HISTORY machine: NewRoot / Add build  *)
(* nodes in one store and draw their `index` from the package-level        *)
(* counter; every From-Root operation validates its argument, RESETS that  *)
(* counter (as the code does) and renders with the code-shaped renderer    *)
(* (Render.tla: "is last" by index equality when LastBy = "index", by node *)
(* identity when LastBy = "identity").                                     *)
(*                                                                         *)
(* The state carries the whole history `hist`, so every state is one call  *)
(* history and the harness re-executes it on the real API.                 *)
(*   res : what the code-shaped model returns for the last call            *)
(*   exp : what the DECLARATIVE side says it must return: a function of    *)
(*         the shape of the tree alone (Forest.tla)                        *)
(***************************************************************************)
EXTENDS MdDoc, Render, Forest, TLC

CONSTANTS
  ApiNames,     \* names used by NewRoot / Add
  MaxCalls,     \* bound on the history length
  MaxNodes,     \* bound on the number of nodes ever created
  Kinds,        \* operation kinds: subset of {"text","tree","walk","verify","mkdir"}
  LastBy,       \* "index" (as built) | "identity" (repaired)
  ResetIdx,     \* TRUE: every operation resets the package counter (as built)
  Interleave,   \* TRUE: any interleaving of build calls and operations (C13); FALSE: build, then operations (C03)
  OpsAtEnd,     \* Interleave = FALSE: how many operations may follow the build phase
  BadArgs,      \* TRUE: operations are also tried on nil and on non-root nodes
  Iters         \* TRUE: an iterator (WalkIterFromRoot) may be created at one point of the history and ranged over later

\* iters: the iterator values the program holds: [root, snap (what a walk gave when it was created)]
VARIABLES store, idx, hist, res, exp, iters
avars == <<store, idx, hist, res, exp, iters>>

None == [k |-> "none", err |-> "", rows |-> <<>>, forest |-> <<>>, walk |-> <<>>, id |-> 0]

Call(op, name, p, kind) == [op |-> op, name |-> name, p |-> p, kind |-> kind]

OpDone == \E i \in 1..Len(hist) : hist[i].op = "Op"
NOps == Cardinality({i \in 1..Len(hist) : hist[i].op = "Op"})

Init == store = <<>> /\ idx = 0 /\ hist = <<>> /\ res = None /\ exp = None /\ iters = <<>>

NewRoot(nm) ==
  /\ Len(store) < MaxNodes
  /\ (IF Interleave THEN TRUE ELSE ~OpDone)
  /\ store' = Append(store, [name |-> nm, hier |-> 1, idx |-> idx + 1, parent |-> 0, kids |-> <<>>])
  /\ idx' = idx + 1
  /\ hist' = Append(hist, Call("NewRoot", nm, 0, ""))
  /\ res' = [None EXCEPT !.k = "node", !.id = Len(store) + 1]
  /\ exp' = res'
  /\ UNCHANGED iters

\* Add on an existing child name returns that child and changes nothing
Add(p, nm) ==
  /\ (IF Interleave THEN TRUE ELSE ~OpDone)
  /\ LET c == ChildByName(store, p, nm) IN
     IF c # 0
     THEN /\ UNCHANGED <<store, idx>>
          /\ res' = [None EXCEPT !.k = "node", !.id = c]
     ELSE /\ Len(store) < MaxNodes
          /\ store' = Append([store EXCEPT ![p].kids = Append(@, Len(store) + 1)],
                             [name |-> nm, hier |-> store[p].hier + 1, idx |-> idx + 1, parent |-> p, kids |-> <<>>])
          /\ idx' = idx + 1
          /\ res' = [None EXCEPT !.k = "node", !.id = Len(store) + 1]
  /\ hist' = Append(hist, Call("Add", nm, p, ""))
  /\ exp' = res'
  /\ UNCHANGED iters

\* "mtext" / "mtree": text / encoder output with the massive option (one root: the result is the simple mode's)
Base(kind) == CASE kind = "mtext" -> "text" [] kind = "mtree" -> "tree" [] OTHER -> kind

\* the code-shaped result of an operation of `kind` on root r
CodeResult(kind0, r) ==
  LET kind == Base(kind0) IN
  CASE kind = "text" -> [None EXCEPT !.k = "text", !.rows = CodeRowsOfRoot(store, r, LastBy)]
    [] kind = "tree" -> [None EXCEPT !.k = "tree", !.forest = <<TreeOf(store, r)>>]
    [] kind = "walk" -> [None EXCEPT !.k = "walk", !.walk = CodeWalk(store, <<r>>, LastBy)]
    [] kind = "verify" -> [None EXCEPT !.k = "verr"]      \* verify against a directory that does not exist: an error, no state
    [] kind = "mkdir" -> [None EXCEPT !.k = "mkdir", !.forest = <<TreeOf(store, r)>>]   \* into a fresh directory: exactly the tree (Fs.tla says how)

\* the declarative result: a function of the tree's shape and names alone
RuleResult(kind0, r) ==
  LET t == TreeOf(store, r)
      kind == Base(kind0) IN
  CASE kind = "text" -> [None EXCEPT !.k = "text", !.rows = RootRows(t)]
    [] kind = "tree" -> [None EXCEPT !.k = "tree", !.forest = <<t>>]
    [] kind = "walk" -> [None EXCEPT !.k = "walk", !.walk = RootWalk(t)]
    [] kind = "verify" -> [None EXCEPT !.k = "verr"]
    [] kind = "mkdir" -> [None EXCEPT !.k = "mkdir", !.forest = <<t>>]

\* validateTreeRoot, then idxCounter.reset(), then the operation
Op(kind, n) ==
  /\ (IF Interleave THEN TRUE ELSE NOps < OpsAtEnd)
  /\ hist' = Append(hist, Call("Op", <<>>, n, kind))
  /\ UNCHANGED <<store, iters>>
  /\ IF n = 0 THEN
        /\ res' = [None EXCEPT !.k = "err", !.err = "ErrNilNode"] /\ exp' = res' /\ UNCHANGED idx
     ELSE IF store[n].hier # 1 THEN
        /\ res' = [None EXCEPT !.k = "err", !.err = "ErrNotRoot"] /\ exp' = res' /\ UNCHANGED idx
     ELSE
        /\ idx' = IF ResetIdx THEN 0 ELSE idx
        /\ res' = CodeResult(kind, n)
        /\ exp' = RuleResult(kind, n)

\* it := WalkIterFromRoot(root): nothing is validated, reset or assembled yet (the code does all of it
\* inside the function it returns)
Open(n) ==
  /\ Iters /\ store[n].hier = 1
  /\ hist' = Append(hist, Call("Open", <<>>, n, ""))
  /\ iters' = Append(iters, [root |-> n, snap |-> RootWalk(TreeOf(store, n))])
  /\ res' = None /\ exp' = None
  /\ UNCHANGED <<store, idx>>

\* for wn, err := range it: the walk of the tree AS IT IS NOW (an iterator may be ranged over repeatedly)
Range(i) ==
  /\ Iters
  /\ hist' = Append(hist, Call("Range", <<>>, i, ""))
  /\ idx' = IF ResetIdx THEN 0 ELSE idx
  /\ res' = CodeResult("walk", iters[i].root)
  /\ exp' = RuleResult("walk", iters[i].root)
  /\ UNCHANGED <<store, iters>>

\* a range that is left after its first visit (break): one visit; the iterator value remains usable
RangeBreak(i) ==
  /\ Iters
  /\ hist' = Append(hist, Call("RangeBreak", <<>>, i, ""))
  /\ idx' = IF ResetIdx THEN 0 ELSE idx
  /\ res' = [None EXCEPT !.k = "walk", !.walk = SubSeq(CodeResult("walk", iters[i].root).walk, 1, 1)]
  /\ exp' = [None EXCEPT !.k = "walk", !.walk = SubSeq(RuleResult("walk", iters[i].root).walk, 1, 1)]
  /\ UNCHANGED <<store, iters>>

Next ==
  /\ Len(hist) < MaxCalls
  /\ \/ \E nm \in ApiNames : NewRoot(nm)
     \/ \E p \in 1..Len(store), nm \in ApiNames : Add(p, nm)
     \/ \E k \in Kinds, n \in (IF BadArgs THEN 0..Len(store) ELSE {i \in 1..Len(store) : store[i].hier = 1}) : Op(k, n)
     \/ \E n \in 1..Len(store) : Open(n)
     \/ \E i \in 1..Len(iters) : Range(i) \/ RangeBreak(i)

Spec == Init /\ [][Next]_avars

---------------------------------------------------------------------------
\* C13: the result of every operation is a function of the tree alone (no history dependence)
HistoryIndependent == res = exp

\* C03: ... and equals what the From-Markdown counterpart gives for the canonical spelling of the tree
RECURSIVE CanonLines(_, _)
CanonLines(t, d) ==
  <<Rep(<<"SP", "SP">>, d - 1) \o <<"HY", "SP">> \o t.name>>
  \o Flat([i \in 1..Len(t.kids) |-> CanonLines(t.kids[i], d + 1)])

LastIsRootOp == hist # <<>> /\ hist[Len(hist)].op = "Op" /\ res.k # "err"

MarkdownEquivalent ==
  LastIsRootOp =>
    LET r  == hist[Len(hist)].p
        gs == GenRun(CanonLines(TreeOf(store, r), 1), "slice", {})
    IN /\ gs.status = "run"
       /\ CASE res.k = "text" -> exp.rows = CodeRows(gs.nodes, gs.roots, "identity")
            [] res.k = "tree" -> exp.forest = ForestOf(gs.nodes, gs.roots)
            [] res.k = "walk" -> exp.walk = CodeWalk(gs.nodes, gs.roots, "identity")
            [] OTHER -> TRUE

\* Add never creates a second child with the same name
NoDuplicateSiblings ==
  \A p \in 1..Len(store) : \A i, j \in 1..Len(store[p].kids) :
     i # j => store[store[p].kids[i]].name # store[store[p].kids[j]].name
=============================================================================
