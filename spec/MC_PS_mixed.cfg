SPECIFICATION Spec
CONSTANTS
  Docs <- Mixed
  K = 2
  Dev = {}
INVARIANTS SplitAgreement ParseAgreement
CHECK_DEADLOCK FALSE
