SPECIFICATION Spec
CONSTANTS
  Docs <- Mixed
  K = 2
  MaxPS = 1
  Dev = {}
INVARIANTS SplitAgreement ParseAgreement
CHECK_DEADLOCK FALSE
