SPECIFICATION Spec
CONSTANTS
  Docs <- HeadingDocs
  K = 2
  MaxPS = 4
  Dev = {}
INVARIANTS SplitAgreement ParseAgreement
CHECK_DEADLOCK FALSE
