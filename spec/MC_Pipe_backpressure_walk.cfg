SPECIFICATION Spec
CONSTANTS
  N = 4
  W = 1
  Fates <- OkOnly
  ReaderFails <- NoReaderFail
  Entry = "md"
  Sink = "walk"
  CanCancel = TRUE
  PreCancelled = FALSE
  Dev = {}
INVARIANTS TypeOK NoStuck NilMeansComplete FaultMeansErr NoSpuriousErr CancelMeansCtxErr BlockIntegrity NoDupNoGhost
CHECK_DEADLOCK FALSE
