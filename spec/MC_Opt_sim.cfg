SPECIFICATION Spec
CONSTANTS
  Mode = "seq"
  OptToks <- Opt_All
  MaxOpts = 9
  MinOpts = 5
  Ops <- AllOps
  Dev <- AsBuilt
INVARIANTS Idempotent NilIsNeutral FamiliesAgree OptionsMeanWhatTheySay
CHECK_DEADLOCK FALSE
