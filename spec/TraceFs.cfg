SPECIFICATION TSpec
CONSTANTS
  FsNames = {}
  ExtSets = {}
  InitSet = {}
  Target <- T
  Routes = {"md", "root"}
  Ops = {"env", "mkdir", "dry", "verify"}
  MaxItems = 1000
  MaxDepthFs = 1000
  MaxEnv = 1000
  MaxOps = 1000
  EnvSuffixes = {}
  EnvFirst = FALSE
  LongToks <- Long
  Dev = {}
CHECK_DEADLOCK FALSE
