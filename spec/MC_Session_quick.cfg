SPECIFICATION Spec
CONSTANTS
  Calls <- AllCalls
  MaxLen = 2
  Dev = {}
INVARIANTS CallsAreIndependent NoResidue
CHECK_DEADLOCK FALSE
