SPECIFICATION Spec
CONSTANTS
  Calls <- AllCalls
  MaxLen = 3
  Dev = {}
INVARIANTS CallsAreIndependent NoResidue
CHECK_DEADLOCK FALSE
